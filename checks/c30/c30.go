// Package c30 monitors the asynchronous syntax highlighter (property C30):
// every text it hands out consists of exactly the code it was asked about,
// also after late command-lookup results arrive in harness-chosen orders.
package c30

import (
	"fmt"
	"hash/fnv"
	"math/rand"
	"reflect"
	"runtime"
	"strings"
	"sync"
	"sync/atomic"
	"time"

	"src.elv.sh/pkg/diag"
	"src.elv.sh/pkg/edit/highlight"
	"src.elv.sh/pkg/eval"
	"src.elv.sh/pkg/parse"
	"src.elv.sh/pkg/ui"
	"verifharness/internal/elv"
	"verifharness/internal/gen"
	"verifharness/internal/mon"
)

// ---------------------------------------------------------------------------
// gate: the harness-controlled HasCommand

const (
	modeHold  = iota // block until the harness releases the call
	modePass         // answer at once
	modeDelay        // answer after a harness-chosen delay
)

type ticket struct {
	name string
	ch   chan struct{}
}

type gate struct {
	mu      sync.Mutex
	pending []*ticket
	mode    atomic.Int32
	delay   atomic.Int64 // nanoseconds, for modeDelay
	calls   atomic.Int64
	held    atomic.Int64 // calls that actually blocked
}

// good is the (time-independent) truth about command names.
func good(name string) bool {
	h := fnv.New32a()
	h.Write([]byte(name))
	return h.Sum32()%2 == 0
}

func (g *gate) hasCommand(name string) bool {
	g.calls.Add(1)
	switch g.mode.Load() {
	case modePass:
	case modeDelay:
		time.Sleep(time.Duration(g.delay.Load()))
	default:
		t := &ticket{name, make(chan struct{})}
		g.mu.Lock()
		g.pending = append(g.pending, t)
		g.mu.Unlock()
		g.held.Add(1)
		<-t.ch
	}
	return good(name)
}

func (g *gate) numPending() int {
	g.mu.Lock()
	defer g.mu.Unlock()
	return len(g.pending)
}

// release releases the i-th pending call (i taken modulo the number pending).
func (g *gate) release(i int) bool {
	g.mu.Lock()
	if len(g.pending) == 0 {
		g.mu.Unlock()
		return false
	}
	i %= len(g.pending)
	t := g.pending[i]
	g.pending = append(g.pending[:i], g.pending[i+1:]...)
	g.mu.Unlock()
	close(t.ch)
	return true
}

// ---------------------------------------------------------------------------
// code generators

type codeInfo struct {
	code string
	// for clean snippets: the command names in head position (unique in the code)
	heads []string
	kind  string
}

var argPool = []string{"a", "b.txt", "'x y'", "\"q\\n\"", "$x", "$pwd", "好", "😀", "*.go", "~/d", "[a b]", "&k=v", "1", "-l", "--long", "{a,b}", "$@args", "é"}

// snippet builds a small program whose command names are tagged and unique.
func snippet(r *rand.Rand, serial int) codeInfo {
	var sb strings.Builder
	var heads []string
	commented := false
	n := 1 + r.Intn(4)
	for j := 0; j < n; j++ {
		name := fmt.Sprintf("k%dx%d", serial, j)
		if r.Intn(6) == 0 {
			name = fmt.Sprintf("m%d:f%d", serial, j)
		}
		heads = append(heads, name)
		if j > 0 {
			if commented { // a comment runs to the end of the line
				sb.WriteString([]string{"\n", "\n\n  "}[r.Intn(2)])
			} else {
				sb.WriteString([]string{" | ", "; ", "\n", " |\n ", ";", "\n\n  "}[r.Intn(6)])
			}
			commented = false
		}
		switch r.Intn(8) {
		case 0:
			outer := name + "o"
			sb.WriteString(outer + " (" + name)
			for a := r.Intn(3); a > 0; a-- {
				sb.WriteString(" " + argPool[r.Intn(len(argPool))])
			}
			sb.WriteString(")")
			heads = append(heads, outer)
		case 1:
			sb.WriteString("{ " + name + " }")
		default:
			sb.WriteString(name)
		}
		for a := r.Intn(4); a > 0; a-- {
			sb.WriteString(" " + argPool[r.Intn(len(argPool))])
		}
		if r.Intn(6) == 0 {
			sb.WriteString([]string{" > f", " 2>&1", " < in", " >> log"}[r.Intn(4)])
		}
		if r.Intn(8) == 0 {
			sb.WriteString(" # comment 好")
			commented = true
		}
	}
	return codeInfo{code: sb.String(), heads: heads, kind: "snippet"}
}

func containsStr(xs []string, x string) bool {
	for _, y := range xs {
		if x == y {
			return true
		}
	}
	return false
}

func genCode(r *rand.Rand, serial int) codeInfo {
	switch k := r.Intn(100); {
	case k < 35:
		return snippet(r, serial)
	case k < 50:
		ci := snippet(r, serial)
		ci.code = gen.Mutate(r, ci.code)
		return codeInfo{code: ci.code, kind: "snippet-mutated"}
	case k < 65:
		return codeInfo{code: gen.ElvProgram(r, 1+r.Intn(4)), kind: "program"}
	case k < 75:
		return codeInfo{code: gen.ElvMutate(r, gen.ElvProgram(r, 1+r.Intn(3))), kind: "program-mutated"}
	case k < 90:
		return codeInfo{code: gen.BytesAdv(r, 14), kind: "adversarial-bytes"}
	case k < 95:
		return codeInfo{code: gen.RandomBytes(r, 20), kind: "random-bytes"}
	default:
		// errors at EOF, empty barewords, lone openers
		return codeInfo{code: []string{"", " ", "echo (", "echo [", "a |", "if", "{", "echo '", "echo \"\\", "var", "x = ", "a; ", "$", "echo $", "e:ls\xff", "fn f {", "a\n", "try { } except", "echo ]"}[r.Intn(19)], kind: "fixed-edge"}
	}
}

// ---------------------------------------------------------------------------
// observation of one highlighted text

type segSnap struct {
	Text  string
	Style ui.Style
}

type kept struct {
	code string
	text ui.Text
	snap []segSnap
	at   int
}

func snapshot(t ui.Text) []segSnap {
	out := make([]segSnap, len(t))
	for i, s := range t {
		out[i] = segSnap{s.Text, s.Style}
	}
	return out
}

func concat(t ui.Text) string {
	var sb strings.Builder
	for _, s := range t {
		sb.WriteString(s.Text)
	}
	return sb.String()
}

func showText(t ui.Text) []string {
	var out []string
	for _, s := range t {
		out = append(out, fmt.Sprintf("%s%+v", mon.Q(s.Text), s.Style))
	}
	return out
}

var greenSeps = map[string]bool{">": true, ">>": true, "<": true, "?>": true, "|": true, "<>": true}

func fgName(s ui.Style) string {
	if s.Fg == nil {
		return ""
	}
	return s.Fg.String()
}

var evaler *eval.Evaler

// poisoned: an earlier case of this process could not be brought to
// quiescence; goroutine-count based settling is unreliable from then on.
var poisoned bool

// scenario state
type scen struct {
	c       *mon.Case
	hl      *highlight.Highlighter
	g       *gate
	useGate bool
	codes   []codeInfo
	cur     *codeInfo
	keep    []kept
	log     []string
	step    int
	lates   int
	base    int
	failed  bool
}

func (s *scen) wit(extra map[string]any) map[string]any {
	m := map[string]any{"ops": s.log}
	for k, v := range extra {
		m[k] = v
	}
	return m
}

// check judges the text returned for code.
func (s *scen) check(code string, t ui.Text, when string) bool {
	if got := concat(t); got != code {
		sig := "text:" + when
		s.c.Violation(sig, fmt.Sprintf("highlighted text for %s (%s) reads %s", mon.Q(code), when, mon.Q(got)),
			s.wit(map[string]any{"code": mon.Q(code), "got": mon.Q(got), "segments": showText(t)}))
		s.failed = true
		return false
	}
	if s.useGate {
		for _, seg := range t {
			fg := fgName(seg.Style)
			isErr := seg.Style.Bg != nil
			if isErr {
				continue
			}
			if fg == "red" && good(seg.Text) {
				s.c.Violation("style:bad-command-style-on-good-command", fmt.Sprintf("segment %s of %s is styled as a missing command, but the lookup for it answers true", mon.Q(seg.Text), mon.Q(code)),
					s.wit(map[string]any{"code": mon.Q(code), "segments": showText(t)}))
				s.failed = true
				return false
			}
			if fg == "green" && !greenSeps[seg.Text] && !good(seg.Text) {
				s.c.Violation("style:good-command-style-on-missing-command", fmt.Sprintf("segment %s of %s is styled as an existing command, but the lookup for it answers false", mon.Q(seg.Text), mon.Q(code)),
					s.wit(map[string]any{"code": mon.Q(code), "segments": showText(t)}))
				s.failed = true
				return false
			}
		}
	}
	return true
}

func (s *scen) get(ci *codeInfo, when string) (ui.Text, []ui.Text) {
	s.cur = ci
	t, tips := s.hl.Get(ci.code)
	s.c.Evals(1)
	s.c.Count("get_calls", 1)
	if s.check(ci.code, t, when) {
		s.keep = append(s.keep, kept{ci.code, t, snapshot(t), s.step})
	}
	return t, tips
}

// drain consumes pending late-update signals; after a signal the current code
// is fetched again, as the editor does on redraw.
func (s *scen) drain() {
	n := 0
	for {
		select {
		case <-s.hl.LateUpdates():
			n++
			continue
		default:
		}
		break
	}
	if n > 0 {
		s.lates += n
		s.c.Count("late_updates", n)
		if s.cur != nil && !s.failed {
			s.log = append(s.log, fmt.Sprintf("late-update x%d -> get current", n))
			s.get(s.cur, "after-late-update")
		}
	}
}

// reverify re-reads texts handed out earlier: they must not have changed.
func (s *scen) reverify() {
	for _, k := range s.keep {
		if s.failed {
			return
		}
		if got := concat(k.text); got != k.code {
			s.c.Violation("text:handed-out-text-changed", fmt.Sprintf("a text returned earlier for %s now reads %s", mon.Q(k.code), mon.Q(got)),
				s.wit(map[string]any{"code": mon.Q(k.code), "returned_at_step": k.at}))
			s.failed = true
			return
		}
		if !reflect.DeepEqual(snapshot(k.text), k.snap) {
			s.c.Violation("text:handed-out-text-restyled", fmt.Sprintf("a text returned earlier for %s was modified in place afterwards", mon.Q(k.code)),
				s.wit(map[string]any{"code": mon.Q(k.code), "returned_at_step": k.at, "now": showText(k.text)}))
			s.failed = true
			return
		}
	}
	s.c.Count("reverified_texts", len(s.keep))
}

// settle releases every held lookup and waits until the late goroutines are gone.
func (s *scen) settle(extra int) bool {
	deadline := time.Now().Add(20 * time.Second)
	for {
		for s.g.release(0) {
		}
		if s.g.numPending() == 0 && runtime.NumGoroutine() <= s.base+extra {
			// lates may still be in the channel; goroutines are gone
			return true
		}
		if time.Now().After(deadline) {
			s.c.Inconclusive("settle-timeout")
			poisoned = true // goroutine counts of later cases in this process would be off
			return false
		}
		s.drainQuiet()
		time.Sleep(100 * time.Microsecond)
	}
}

// drainQuiet only empties the channel (so that lateCb cannot block on it).
func (s *scen) drainQuiet() {
	for {
		select {
		case <-s.hl.LateUpdates():
			s.lates++
			s.c.Count("late_updates", 1)
		default:
			return
		}
	}
}

func fakeCheck(r *rand.Rand) func(parse.Tree) (string, []*eval.CompilationError) {
	seed := r.Int63()
	return func(t parse.Tree) (string, []*eval.CompilationError) {
		code := t.Source.Code
		rr := rand.New(rand.NewSource(seed ^ int64(len(code))*7919))
		var errs []*eval.CompilationError
		for n := rr.Intn(4); n > 0; n-- {
			from := rr.Intn(len(code) + 1)
			to := from + rr.Intn(len(code)-from+1)
			errs = append(errs, &eval.CompilationError{Message: "fake error", Partial: rr.Intn(5) == 0,
				Context: diag.Context{Name: "[fake]", Ranging: diag.Ranging{From: from, To: to}}})
		}
		autofix := ""
		if rr.Intn(4) == 0 {
			autofix = "use str"
		}
		return autofix, errs
	}
}

func realCheck(t parse.Tree) (string, []*eval.CompilationError) {
	autofixes, err := evaler.CheckTree(t, nil)
	return strings.Join(autofixes, "; "), eval.UnpackCompilationErrors(err)
}

func newScen(c *mon.Case, cfgKind int) *scen {
	s := &scen{c: c, g: &gate{}}
	cfg := highlight.Config{AutofixTip: func(a string) ui.Text { return ui.T("autofix: " + a) }}
	switch cfgKind % 3 {
	case 0:
		s.log = append(s.log, "config: Check=nil")
	case 1:
		cfg.Check = realCheck
		s.log = append(s.log, "config: Check=Evaler.CheckTree")
		c.Count("scenarios_with_real_check", 1)
	case 2:
		cfg.Check = fakeCheck(c.Rand)
		s.log = append(s.log, "config: Check=fake error regions")
		c.Count("scenarios_with_fake_check", 1)
	}
	if cfgKind/3%4 != 0 {
		cfg.HasCommand = s.g.hasCommand
		s.useGate = true
		s.log = append(s.log, "config: HasCommand=gate")
	} else {
		s.log = append(s.log, "config: HasCommand=nil")
		c.Count("scenarios_without_command_lookup", 1)
	}
	s.base = runtime.NumGoroutine()
	s.hl = highlight.NewHighlighter(cfg)
	return s
}

// finalCheck: everything released and quiescent; the current code's text must
// be exact and, for clean snippets, every command must carry its final style.
func (s *scen) finalCheck() {
	if s.failed || !s.settle(0) {
		return
	}
	s.drain()
	if s.cur == nil || s.failed {
		s.reverify()
		return
	}
	var t ui.Text
	var tips []ui.Text
	for try := 0; try < 4; try++ {
		before := s.g.calls.Load()
		s.g.mode.Store(modeHold)
		s.log = append(s.log, "final get")
		t, tips = s.get(s.cur, "final")
		if s.failed {
			return
		}
		if !s.settle(0) {
			return
		}
		s.drain()
		if s.g.calls.Load() == before {
			break // served from the cache: this is the settled state
		}
		t = nil
	}
	s.reverify()
	if s.failed || t == nil {
		return
	}
	if s.useGate && len(s.cur.heads) > 0 && len(tips) == 0 {
		for _, name := range s.cur.heads {
			want := "green"
			if !good(name) {
				want = "red"
			}
			found := false
			for _, seg := range t {
				if seg.Text == name {
					found = true
					if fgName(seg.Style) != want {
						s.c.Violation("style:command-not-styled-after-all-lookups-finished",
							fmt.Sprintf("all lookups for %s have finished, but command %s is styled %+v (want foreground %s)", mon.Q(s.cur.code), name, seg.Style, want),
							s.wit(map[string]any{"code": mon.Q(s.cur.code), "segments": showText(t)}))
						s.failed = true
						return
					}
				}
			}
			if !found {
				s.c.Violation("text:command-not-a-segment", fmt.Sprintf("command %s of %s is not a segment of the highlighted text", name, mon.Q(s.cur.code)),
					s.wit(map[string]any{"code": mon.Q(s.cur.code), "segments": showText(t)}))
				s.failed = true
				return
			}
		}
		s.c.Count("final_command_styles_checked", len(s.cur.heads))
	}
}

// ---------------------------------------------------------------------------
// phase 1: random sequences

func runSequence(c *mon.Case) {
	if poisoned {
		c.Inconclusive("process-poisoned-by-earlier-timeout")
		return
	}
	r := c.Rand
	s := newScen(c, r.Intn(12))
	defer func() {
		// never leave goroutines behind for the next case
		s.settle(0)
	}()
	nOps := 4 + r.Intn(28)
	serial := 0
	heldBefore := int64(0)
	for s.step = 0; s.step < nOps && !s.failed; s.step++ {
		switch k := r.Intn(100); {
		case k < 45: // new code
			ci := genCode(r, serial)
			serial++
			s.codes = append(s.codes, ci)
			mode := []int32{modeHold, modeHold, modePass, modeDelay}[r.Intn(4)]
			s.g.mode.Store(mode)
			if mode == modeDelay {
				s.g.delay.Store(int64(r.Intn(16)) * int64(time.Millisecond) / int64(1+r.Intn(3)))
			}
			s.log = append(s.log, fmt.Sprintf("get new %s mode=%d: %s", ci.kind, mode, mon.Q(ci.code)))
			c.Distinct("code_kinds", ci.kind)
			s.get(&s.codes[len(s.codes)-1], "immediate")
		case k < 60: // an earlier code again (cache hit or A-B-A)
			if len(s.codes) == 0 {
				continue
			}
			ci := &s.codes[r.Intn(len(s.codes))]
			when := "revisit"
			if s.cur == ci {
				when = "cached"
				c.Count("gets_of_unchanged_code", 1)
			} else {
				c.Count("gets_aba", 1)
			}
			s.g.mode.Store([]int32{modeHold, modePass}[r.Intn(2)])
			s.log = append(s.log, fmt.Sprintf("get old (%s): %s", when, mon.Q(ci.code)))
			s.get(ci, when)
		case k < 82: // release some held lookups
			n := 1 + r.Intn(3)
			for ; n > 0; n-- {
				if s.g.release(r.Intn(8)) {
					s.log = append(s.log, "release one lookup")
					c.Count("single_releases", 1)
				}
			}
			runtime.Gosched()
		case k < 88:
			s.log = append(s.log, "release all, settle")
			if !s.settle(0) {
				return
			}
		case k < 92:
			s.log = append(s.log, "invalidate cache")
			s.hl.InvalidateCache()
			c.Count("invalidations", 1)
		default:
			s.reverify()
		}
		// a late result that arrives while another code is current
		if h := s.g.held.Load(); h > heldBefore {
			heldBefore = h
		}
		s.drain()
	}
	if s.g.numPending() > 0 {
		c.Count("scenarios_ending_with_held_lookups", 1)
	}
	s.finalCheck()
	c.Count("held_lookups", int(s.g.held.Load()))
	c.Count("lookups", int(s.g.calls.Load()))
	if s.g.held.Load() > 0 && len(s.codes) >= 2 {
		c.Nontrivial("seq", s.log)
	}
	if s.lates > 0 {
		c.Count("scenarios_with_late_update", 1)
	}
	c.Sample("sequence", map[string]any{"ops": s.log})
}

// ---------------------------------------------------------------------------
// phase 2: three pending late results, every release order

var perms3 = [][3]int{{0, 1, 2}, {0, 2, 1}, {1, 0, 2}, {1, 2, 0}, {2, 0, 1}, {2, 1, 0}}

func runOrders(c *mon.Case) {
	if poisoned {
		c.Inconclusive("process-poisoned-by-earlier-timeout")
		return
	}
	r := c.Rand
	perm := perms3[c.I%6]
	variant := c.I / 6 % 4
	s := newScen(c, 3+r.Intn(9)) // always with the gate
	defer func() { s.settle(0) }()
	s.g.mode.Store(modeHold)
	// three codes with exactly one command each; names tell the tickets apart
	for i := 0; i < 3; i++ {
		name := fmt.Sprintf("k%dx0", i)
		code := name
		for a := r.Intn(3); a > 0; a-- {
			code += " " + argPool[r.Intn(len(argPool))]
		}
		if variant == 3 && i == 1 {
			code = s.codes[0].code + " " // differs from the first code only by trailing whitespace
			name = "k0x0"
		}
		s.codes = append(s.codes, codeInfo{code: code, heads: []string{name}, kind: "one-command"})
	}
	waitPending := func(n int) bool {
		deadline := time.Now().Add(20 * time.Second)
		for s.g.numPending() < n {
			if time.Now().After(deadline) {
				c.Inconclusive("lookup-did-not-start")
				return false
			}
			time.Sleep(50 * time.Microsecond)
		}
		return true
	}
	for i := 0; i < 3; i++ {
		s.log = append(s.log, "get "+mon.Q(s.codes[i].code))
		s.get(&s.codes[i], "immediate")
		if s.failed || !waitPending(i+1) {
			return
		}
	}
	pendingGets := 3
	switch variant {
	case 1: // A-B-A: the first code again, a second lookup for it
		s.log = append(s.log, "get again "+mon.Q(s.codes[0].code))
		s.get(&s.codes[0], "revisit")
		if s.failed || !waitPending(4) {
			return
		}
		pendingGets = 4
	case 2:
		s.log = append(s.log, "invalidate cache")
		s.hl.InvalidateCache()
	}
	// tickets are in arrival order = order of the Get calls
	s.g.mu.Lock()
	tickets := append([]*ticket(nil), s.g.pending...)
	s.g.pending = nil
	s.g.mu.Unlock()
	order := []int{perm[0], perm[1], perm[2]}
	if pendingGets == 4 {
		order = append(order, 3)
		k := r.Intn(4)
		order[3], order[k] = order[k], order[3]
	}
	for j, ti := range order {
		s.log = append(s.log, fmt.Sprintf("release lookup of get #%d (%s)", ti, tickets[ti].name))
		close(tickets[ti].ch)
		// wait for that late result to be applied or dropped: two goroutines per pending Get
		if !s.settle(2 * (pendingGets - j - 1)) {
			return
		}
		s.drain()
		if s.failed {
			return
		}
		s.log = append(s.log, "get current")
		s.get(s.cur, "after-release")
		s.reverify()
		if s.failed {
			return
		}
	}
	s.finalCheck()
	c.Count("held_lookups", int(s.g.held.Load()))
	c.Count("lookups", int(s.g.calls.Load()))
	c.Count("order_scenarios", 1)
	c.Nontrivial("orders", perm, variant, s.log)
	if s.lates > 0 {
		c.Count("scenarios_with_late_update", 1)
	}
}

func Spec() *mon.Spec {
	return &mon.Spec{
		ID: "C30", Level: "exploration", Race: true,
		Rule: "case = one highlight.Highlighter driven through a sequence of Get(code) calls (new code, the same code again, an earlier code again), InvalidateCache, and harness-decided releases of the blocked command lookups (HasCommand blocks on a per-call channel; modes hold / answer at once / answer after a random 0..15 ms delay). Codes: tagged command snippets, their byte mutations, gen.ElvProgram programs and ElvMutate mutants, gen.BytesAdv / RandomBytes (invalid UTF-8), fixed error-at-EOF edge cases. Check = nil, the real Evaler.CheckTree, or a fake returning random in-range error regions. Oracle on every returned text (immediate, cached, revisit, after every late-update signal, after the final quiescent point): concatenation of the segments == the code asked about, byte-exact; texts handed out earlier are re-read later (while late goroutines run) and must be unchanged; a segment styled as good/missing command must agree with the lookup's answer for that segment's text; after quiescence every command of a clean snippet carries its final style. Phase orders: three (or four, A-B-A) late results pending at once, released in each of the 6 orders x 4 variants, with Get(current) after every release. Non-trivial = sequence with >= 2 codes in which at least one lookup was actually held back (late path), or an orders scenario; distinct by op log.",
		Assumptions: []string{
			"the implementation's own 10 ms wait (maxBlockForLate) only selects whether a result is delivered immediately or late; both paths are legal and both are counted, no verdict depends on which was taken",
			"quiescence is detected with runtime.NumGoroutine() returning to the scenario's baseline (settle loop, timeout = inconclusive)",
			"fake Check regions are within [0,len(code)] with From <= To (out-of-range regions are a caller bug, not generated)",
			"style oracle only where HasCommand is configured; error-styled segments are exempt",
		},
		ChildSetup: func(e *mon.Env) { evaler = elv.New() },
		Phases: []mon.Phase{
			{Name: "sequence", Quick: 2000, Thorough: 50000, Run: runSequence, GoMaxProcs: 4},
			{Name: "orders", Quick: 240, Thorough: 2400, Run: runOrders, GoMaxProcs: 4},
		},
		Floors: map[string]int{
			"distinct_nontrivial": 500, "get_calls": 8000, "gets_aba": 900, "gets_of_unchanged_code": 500, "held_lookups": 5000,
			"late_updates": 500, "scenarios_with_late_update": 450, "order_scenarios": 80, "reverified_texts": 15000,
			"scenarios_with_real_check": 250, "scenarios_with_fake_check": 230, "scenarios_without_command_lookup": 150,
			"final_command_styles_checked": 400, "invalidations": 400, "single_releases": 1400, "code_kinds": 7,
		},
	}
}
