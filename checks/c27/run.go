package c27

// The runner of one case: prepares the directory, starts the shells, waits,
// takes the final probes, kills whatever is left and reads the event log.

import (
	"bufio"
	"encoding/json"
	"fmt"
	"net"
	"os"
	"os/exec"
	"path/filepath"
	"strconv"
	"strings"
	"syscall"
	"time"
)

// ev is one line of the event log.
type ev struct {
	Point   string  `json:"point"`
	Pid     int     `json:"pid"`
	Seq     uint64  `json:"seq"`
	T       int64   `json:"t"`
	Status  *int    `json:"status,omitempty"`
	Ino     uint64  `json:"ino,omitempty"`
	Err     *string `json:"err,omitempty"`
	Sock    string  `json:"sock,omitempty"`
	DB      string  `json:"db,omitempty"`
	Nconns  *int    `json:"nconns,omitempty"`
	Queued  *int    `json:"queued,omitempty"`
	Name    string  `json:"name,omitempty"`
	Spawner string  `json:"spawner,omitempty"`
	Ppid    int     `json:"ppid,omitempty"`
	Dpid    int     `json:"dpid,omitempty"`
	Perr    string  `json:"perr,omitempty"`
	Aerr    string  `json:"aerr,omitempty"`
	Cerr    string  `json:"cerr,omitempty"`
	idx     int     // position in the log file = order of the write(2) calls
}

// probe is what the runner saw after all shells were gone.
type probe struct {
	SockIno     uint64       `json:"sock_ino"`     // inode at the socket path (0: none)
	Alive       map[int]bool `json:"alive"`        // daemon pid -> still running
	PreKilled   map[int]bool `json:"pre_killed"`   // daemons SIGKILLed by the runner to make the stale socket
	ShellsHung  []string     `json:"shells_hung"`  // shells that had to be killed
	Incomplete  string       `json:"incomplete"`   // non-empty: log unusable (reason)
	WaitTimeout bool         `json:"wait_timeout"` // some pause point ran into the 20 s cap of waitfile
	ProbeAt     int          `json:"probe_at"`     // number of log lines that existed BEFORE the probes were taken
}

func readLog(path string) ([]ev, error) {
	f, err := os.Open(path)
	if err != nil {
		return nil, err
	}
	defer f.Close()
	var evs []ev
	sc := bufio.NewScanner(f)
	sc.Buffer(make([]byte, 1<<20), 1<<20)
	for sc.Scan() {
		var e ev
		if err := json.Unmarshal(sc.Bytes(), &e); err != nil {
			return evs, fmt.Errorf("bad log line %q: %v", sc.Text(), err)
		}
		e.idx = len(evs)
		evs = append(evs, e)
	}
	return evs, sc.Err()
}

func inoAt(path string) uint64 {
	var st syscall.Stat_t
	if syscall.Lstat(path, &st) == nil {
		return st.Ino
	}
	return 0
}

// running reports whether pid is a live (non-zombie) process.
func running(pid int) bool {
	if syscall.Kill(pid, 0) != nil {
		return false
	}
	b, err := os.ReadFile("/proc/" + strconv.Itoa(pid) + "/stat")
	if err != nil {
		return false
	}
	// pid (comm) S ...
	if k := strings.LastIndexByte(string(b), ')'); k >= 0 && k+2 < len(b) {
		return b[k+2] != 'Z' && b[k+2] != 'X'
	}
	return true
}

type caseDir struct {
	dir, sock, db, log string
}

func newCaseDir(base string, i int) (*caseDir, error) {
	d := filepath.Join(base, "c"+strconv.Itoa(i))
	os.RemoveAll(d)
	for _, sub := range []string{"", "r", "run"} {
		if err := os.MkdirAll(filepath.Join(d, sub), 0o755); err != nil {
			return nil, err
		}
	}
	cd := &caseDir{dir: d, sock: filepath.Join(d, "sock"), db: filepath.Join(d, "db"), log: filepath.Join(d, "events.log")}
	if len(cd.sock) > 100 {
		return nil, fmt.Errorf("socket path too long: %s", cd.sock)
	}
	return cd, nil
}

func (cd *caseDir) writeDaemonEnv(name, hooks string) {
	file := "denv"
	if name != "" {
		file = "denv-" + name
	}
	os.WriteFile(filepath.Join(cd.dir, file), []byte("VERIF_EVENT_LOG="+cd.log+"\nVERIF_HOOKS="+hooks+"\n"), 0o644)
}

// daemonPids lists every pid that logged daemon.start.
func daemonPids(evs []ev) []int {
	var pids []int
	for _, e := range evs {
		if e.Point == pDaemonStart {
			pids = append(pids, e.Pid)
		}
	}
	return pids
}

// makeStale leaves a dead socket file at the socket path.
func (cd *caseDir) makeStale(kind string, pr *probe) error {
	switch kind {
	case "":
		return nil
	case "file":
		l, err := net.ListenUnix("unix", &net.UnixAddr{Name: cd.sock, Net: "unix"})
		if err != nil {
			return err
		}
		l.SetUnlinkOnClose(false)
		return l.Close()
	case "killed":
		// a real daemon (no clients yet), SIGKILLed once it is ready
		self, err := os.Executable()
		if err != nil {
			return err
		}
		cmd := exec.Command(self, "-daemon", "-db", cd.db, "-sock", cd.sock)
		cmd.Env = []string{}
		cmd.Dir = "/"
		out, _ := os.Create(filepath.Join(cd.dir, "run", "stale-daemon.log"))
		cmd.Stdout, cmd.Stderr = out, out
		if err := cmd.Start(); err != nil {
			return err
		}
		if out != nil {
			out.Close()
		}
		pr.PreKilled[cmd.Process.Pid] = true
		ok := false
		for k := 0; k < 2500 && !ok; k++ {
			evs, _ := readLog(cd.log)
			for _, e := range evs {
				if e.Pid == cmd.Process.Pid && e.Point == pReady {
					ok = true
				}
			}
			if !ok {
				time.Sleep(2 * time.Millisecond)
			}
		}
		cmd.Process.Kill()
		cmd.Wait()
		if !ok {
			return fmt.Errorf("stale-maker daemon did not get ready")
		}
		if inoAt(cd.sock) == 0 {
			return fmt.Errorf("stale-maker daemon left no socket file")
		}
		return nil
	}
	return fmt.Errorf("unknown stale kind %q", kind)
}

// runScen executes the scenario with real processes.
func runScen(cd *caseDir, s *scen) ([]ev, *probe, error) {
	pr := &probe{Alive: map[int]bool{}, PreKilled: map[int]bool{}}
	self, err := os.Executable()
	if err != nil {
		return nil, pr, err
	}
	// Daemon scripts must exist before anything can spawn a daemon. The
	// stale-maker daemon runs with the default (empty) script.
	cd.writeDaemonEnv("", "")
	for _, sh := range s.Shells {
		cd.writeDaemonEnv(sh, s.hooks("d"+sh, cd.dir))
	}
	var killed []int
	defer func() {
		// whatever happens: no daemon survives the case
		if evs, _ := readLog(cd.log); evs != nil {
			for _, pid := range daemonPids(evs) {
				if !pr.PreKilled[pid] {
					syscall.Kill(pid, syscall.SIGKILL)
				}
			}
		}
		for _, pid := range killed {
			syscall.Kill(pid, syscall.SIGKILL)
		}
	}()
	if err := cd.makeStale(s.Stale, pr); err != nil {
		return nil, pr, err
	}

	type proc struct {
		name string
		cmd  *exec.Cmd
		done chan error
	}
	var procs []*proc
	for _, sh := range s.Shells {
		cfg, _ := json.Marshal(shellCfg{Name: sh, Dir: cd.dir, Sock: cd.sock, DB: cd.db})
		cmd := exec.Command(self)
		cmd.Env = []string{"C27_SHELL=" + string(cfg), "VERIF_EVENT_LOG=" + cd.log,
			"VERIF_HOOKS=" + s.hooks(sh, cd.dir), "GOMAXPROCS=2", "PATH=/usr/bin:/bin"}
		cmd.Dir = cd.dir
		errf, _ := os.Create(filepath.Join(cd.dir, "run", "shell-"+sh+".err"))
		cmd.Stdout, cmd.Stderr = errf, errf
		if err := cmd.Start(); err != nil {
			return nil, pr, err
		}
		if errf != nil {
			errf.Close()
		}
		p := &proc{name: sh, cmd: cmd, done: make(chan error, 1)}
		go func() { p.done <- p.cmd.Wait() }()
		procs = append(procs, p)
		killed = append(killed, cmd.Process.Pid)
	}
	// The runner's only active part in a schedule: bounded parking (see scen.Fallbacks).
	stopDirector := make(chan struct{})
	defer close(stopDirector)
	for _, fb := range s.Fallbacks {
		fb := fb
		res := func(f string) string { return strings.ReplaceAll(f, "@R", filepath.Join(cd.dir, "r")) }
		go func() {
			var since time.Time
			for {
				select {
				case <-stopDirector:
					return
				case <-time.After(5 * time.Millisecond):
				}
				if _, err := os.Lstat(res(fb.Touch)); err == nil {
					return
				}
				if since.IsZero() {
					if _, err := os.Lstat(res(fb.When)); err == nil {
						since = time.Now()
					}
					continue
				}
				if time.Since(since) >= time.Duration(fb.AfterMs)*time.Millisecond {
					if f, err := os.OpenFile(res(fb.Touch), os.O_CREATE|os.O_WRONLY, 0o644); err == nil {
						f.Close()
					}
					return
				}
			}
		}()
	}
	deadline := time.After(75 * time.Second)
	for _, p := range procs {
		select {
		case <-p.done:
		case <-deadline:
			pr.ShellsHung = append(pr.ShellsHung, p.name)
			p.cmd.Process.Kill()
			<-p.done
			deadline = time.After(0)
		}
	}
	killed = nil

	// Quiescence (bounded; a timeout here only makes the case inconclusive):
	// every successfully spawned process has announced itself, and every
	// daemon that decided to stop has finished stopping.
	var evs []ev
	for k := 0; ; k++ {
		evs, err = readLog(cd.log)
		if err != nil {
			return evs, pr, err
		}
		spawned, started := 0, 0
		stopping := map[int]bool{}
		crashing := false
		for _, e := range evs {
			switch e.Point {
			case pAfterSpawn:
				if e.Err == nil {
					spawned++
				}
			case pDaemonStart:
				if !pr.PreKilled[e.Pid] {
					started++
				}
			case pBeforeRmSock:
				stopping[e.Pid] = true
			case pExit:
				delete(stopping, e.Pid)
			}
		}
		busy := started < spawned
		for pid := range stopping {
			if running(pid) {
				busy = true
			}
		}
		_ = crashing
		if !busy {
			break
		}
		if k > 1000 {
			pr.Incomplete = fmt.Sprintf("no quiescence: spawned=%d started=%d stopping=%d", spawned, started, len(stopping))
			break
		}
		time.Sleep(5 * time.Millisecond)
	}
	// A daemon whose last client has gone but which has not yet logged its
	// decision would make the final probe ambiguous: wait until the log is
	// stable for a moment and no daemon is between connDone(0) and exit.
	for k := 0; k < 600; k++ {
		pending := map[int]bool{}
		for _, e := range evs {
			switch e.Point {
			case pConnDone:
				if e.Nconns != nil && *e.Nconns == 0 {
					pending[e.Pid] = true
				}
			case pExit:
				delete(pending, e.Pid)
			}
		}
		busy := false
		for pid := range pending {
			if running(pid) {
				busy = true
			}
		}
		if !busy {
			break
		}
		time.Sleep(5 * time.Millisecond)
		evs, _ = readLog(cd.log)
	}
	// Final probes are bracketed by two reads of the (append-only) log:
	//   lines [0, ProbeAt) existed before the probes — a daemon whose
	//   afterListen is among them had bound its socket before the probe;
	//   the log read after the probes contains every exit announcement
	//   (serve.beforeRemoveSocket is written BEFORE the socket is removed)
	//   of an exit that a probe may have seen.
	// Only a daemon that listened before the first read and has not announced
	// an exit in the second read is judged by the probes.
	evs, err = readLog(cd.log)
	if err != nil {
		return evs, pr, err
	}
	pr.ProbeAt = len(evs)
	pr.SockIno = inoAt(cd.sock)
	for _, pid := range daemonPids(evs) {
		pr.Alive[pid] = running(pid)
	}
	evs, err = readLog(cd.log)
	if err != nil {
		return evs, pr, err
	}
	// pause points that ran into the 20 s cap mean the schedule was not the intended one
	last := map[int]int64{}
	for _, e := range evs {
		if t, ok := last[e.Pid]; ok && e.T-t > int64(19*time.Second) {
			pr.WaitTimeout = true
		}
		last[e.Pid] = e.T
	}
	return evs, pr, nil
}
