// Package c27 monitors daemon activation with real shell and daemon processes
// under forced and random interleavings (property C27).
package c27

import (
	"fmt"
	"os"
	"strings"
	"time"

	"verifharness/internal/mon"
)

var table = forcedTable()

func roleOf(c *census, pid int) string {
	for n, si := range c.Shells {
		if si.Pid == pid {
			return n
		}
	}
	if d := c.Daemons[pid]; d != nil {
		if d.PreKilled {
			return "dX"
		}
		return "d" + d.Spawner
	}
	return "?"
}

// interleaving is the merged order of protocol steps (wait-loop repeats folded).
func interleaving(c *census, evs []ev) string {
	var b strings.Builder
	prev := ""
	for _, e := range evs {
		item := roleOf(c, e.Pid) + ":" + e.Point
		if e.Point == pWaitLoop && item == prev {
			continue
		}
		prev = item
		b.WriteString(item)
		b.WriteByte(' ')
	}
	return b.String()
}

func runCase(c *mon.Case, s *scen) {
	cd, err := newCaseDir(c.Dir, c.I)
	if err != nil {
		c.Inconclusive("setup:" + err.Error())
		return
	}
	defer os.RemoveAll(cd.dir)
	t0 := time.Now()
	evs, pr, err := runScen(cd, s)
	if err != nil {
		c.Inconclusive("machinery")
		if c.Env.Verbose {
			fmt.Println("machinery:", err)
		}
		return
	}
	finds, cen := judge(s, evs, pr)
	if c.Env.Verbose {
		fmt.Printf("scenario %s: %s\nedges: %v\nclass=%s wall=%v probe=%+v\n", s.Kind, s.Desc, s.Edges, cen.Class, time.Since(t0), *pr)
		for _, e := range evs {
			extra := ""
			if e.Status != nil {
				extra += fmt.Sprintf(" status=%d", *e.Status)
			}
			if e.Ino != 0 || e.Sock != "" {
				extra += fmt.Sprintf(" ino=%d", e.Ino)
			}
			if e.Err != nil {
				extra += fmt.Sprintf(" err=%q", *e.Err)
			}
			if e.Nconns != nil {
				extra += fmt.Sprintf(" nconns=%d", *e.Nconns)
			}
			if e.Queued != nil {
				extra += fmt.Sprintf(" queued=%d", *e.Queued)
			}
			if e.Dpid != 0 {
				extra += fmt.Sprintf(" dpid=%d", e.Dpid)
			}
			for k, v := range map[string]string{"perr": e.Perr, "aerr": e.Aerr, "cerr": e.Cerr} {
				if v != "" {
					extra += fmt.Sprintf(" %s=%q", k, v)
				}
			}
			fmt.Printf("  %-3s %6d #%-3d %s%s\n", roleOf(cen, e.Pid), e.Pid, e.Seq, e.Point, extra)
		}
	}

	// observations (counted whether or not the case can be decided)
	c.Count("events", len(evs))
	c.Distinct("schedules", s.Kind, s.Desc)
	c.Count("class_"+cen.Class, 1)
	nd := 0
	for _, d := range cen.Daemons {
		if d.PreKilled {
			c.Count("stale_by_sigkill", 1)
			continue
		}
		nd++
		c.Count("daemons_spawned", 1)
		switch {
		case d.Listen >= 0 && d.ListenErr != nil:
			c.Count("daemons_lost_listen_race", 1)
		case d.DBSeen && d.DBErr != nil:
			c.Count("daemons_without_db", 1)
		case d.DBSeen:
			c.Count("daemons_own_db", 1)
		}
		if d.Stop >= 0 {
			c.Count("daemon_exits", 1)
			if d.StopIno == d.Ino && d.Ino != 0 {
				c.Count("daemon_exits_removing_own_socket", 1)
			}
			if d.StopQueue > 0 {
				c.Count("daemon_exits_with_queued_conn", 1)
			}
		}
		if d.Crasher {
			c.Count("daemon_startup_crashes", 1)
		}
	}
	c.Max("daemons_per_case", nd)
	for _, si := range cen.Shells {
		c.Count("activations", 1)
		switch {
		case si.Activated < 0:
			c.Count("activations_unfinished", 1)
		case si.ActErr == "":
			c.Count("activations_ok", 1)
		default:
			c.Count("activations_err", 1)
			c.Distinct("activation_errors", normErr(si.ActErr))
		}
		if si.DetStatus >= 0 {
			c.Count(fmt.Sprintf("detected_status_%d", si.DetStatus), 1)
		}
		if si.AfterRm >= 0 && si.RmErr == nil {
			c.Count("socket_removed_by_activator", 1)
		}
		if si.AfterRm >= 0 && si.RmErr != nil {
			c.Count("socket_remove_failed", 1)
		}
		if si.Req2 >= 0 && si.R2.Perr == "" && si.R2.Dpid == si.R1.Dpid {
			c.Count("held_clients_served_again", 1)
		}
		c.Max("wait_loops", si.WaitLoops)
	}

	// verdict
	switch {
	case pr.Incomplete != "":
		c.Inconclusive("no-quiescence")
	case len(pr.ShellsHung) > 0:
		hung := false
		for _, f := range finds {
			if strings.HasPrefix(f.Sig, "c5:") {
				hung = true
			}
		}
		if !hung {
			c.Inconclusive("shell-killed-by-watchdog")
			return
		}
	case pr.WaitTimeout:
		// the intended order was not established; what happened instead is
		// still a legal schedule, so it is judged, but it is counted
		c.Count("rendezvous_timeouts", 1)
	}
	for _, f := range finds {
		c.Violation(f.Sig, fmt.Sprintf("[%s: %s] %s", s.Kind, s.Desc, f.What),
			map[string]any{"scenario": s, "class": cen.Class, "probe": pr, "events": evs, "all_findings": finds})
	}
	if len(cen.Shells)+nd >= 2 {
		c.Nontrivial(interleaving(cen, evs))
	}
	if len(finds) == 0 {
		c.Sample(s.Kind, map[string]any{"scenario": s, "class": cen.Class, "interleaving": interleaving(cen, evs)})
	}
}

func normErr(s string) string {
	// keep the message class, drop paths
	if k := strings.Index(s, "/"); k >= 0 {
		if j := strings.IndexAny(s[k:], " :"); j >= 0 {
			return s[:k] + "<path>" + s[k+j:]
		}
		return s[:k] + "<path>"
	}
	return s
}

func runForced(c *mon.Case) {
	src := table[c.I%len(table)]
	// copy, so that jitter does not accumulate in the shared table
	s := cloneScen(src)
	if round := c.I / len(table); round > 0 {
		s.jitter(c.Rand, 1+c.Rand.Intn(3), 20)
	}
	runCase(c, s)
}

func runRandom(c *mon.Case) { runCase(c, randomScen(c.Rand)) }

func cloneMap(m map[string]map[string][]string) map[string]map[string][]string {
	n := map[string]map[string][]string{}
	for k, v := range m {
		n[k] = map[string][]string{}
		for p, a := range v {
			n[k][p] = append([]string(nil), a...)
		}
	}
	return n
}

func cloneScen(s *scen) *scen {
	n := *s
	n.touch, n.wait, n.tail = cloneMap(s.touch), cloneMap(s.wait), cloneMap(s.tail)
	n.Edges = append([]string(nil), s.Edges...)
	n.Shells = append([]string(nil), s.Shells...)
	n.Fallbacks = append([]fallback(nil), s.Fallbacks...)
	n.Crashers = map[string]bool{}
	for k, v := range s.Crashers {
		n.Crashers[k] = v
	}
	return &n
}

// Spec is the check for property C27.
func Spec() *mon.Spec {
	return &mon.Spec{
		ID:    "C27",
		Level: "exploration",
		Rule: "A case is one scenario executed by real processes: 1–4 shells calling daemon.Activate on one socket+database " +
			"(no socket file / dead socket file / socket left by a SIGKILLed daemon), the daemons they spawn (real daemon.Serve), " +
			"store requests before and after a hold, close. Phase forced enumerates a table of schedules forced with " +
			"rendezvous files at the verif pause points (later rounds add PRNG sleeps); phase random uses PRNG sleeps only. " +
			"Non-trivial = at least two processes took part; distinct = distinct merged order of protocol steps in the event log.",
		Assumptions: []string{
			"Activation that ends with an error satisfies the property (\"or with an error\"); only its termination is checked. Floors on successful activations keep this from being vacuous.",
			"Order between processes is the order of the write(2) calls on the shared O_APPEND event log; each line is written after the step it reports and before the step it announces.",
			"\"Serves\" for clause 2 = from a successful listen until the decision to stop (serve.beforeRemoveSocket); daemons scripted to crash during start-up and the SIGKILLed stale-maker are not counted.",
			"A connection counts as \"a connected client\" once the daemon's accept loop has accepted it (queued in connCh); connections still in the kernel backlog are not visible and not judged.",
			"The window between os.Remove(sock) and listener.Close() in Serve has no pause point; only its effect (a live daemon's socket vanishing without a logged removal) is checked.",
		},
		Phases: []mon.Phase{
			{Name: "forced", Quick: len(table), Thorough: 2 * len(table), Run: runForced, Timeout: 150 * time.Second, Batch: 3, GoMaxProcs: 2},
			{Name: "random", Quick: 60, Thorough: 800, Run: runRandom, Timeout: 150 * time.Second, Batch: 4, GoMaxProcs: 2},
		},
		// Floors are ≤ 1/3 of what the quick tier reaches; none of them depends
		// on a known defect being present.
		Floors: map[string]int{
			"distinct_nontrivial":              80,
			"schedules":                        70,
			"activations_ok":                   150,
			"activations_err":                  3,
			"daemons_spawned":                  160,
			"daemons_own_db":                   120,
			"daemons_lost_listen_race":         15,
			"socket_removed_by_activator":      60,
			"daemon_exits_removing_own_socket": 100,
			"held_clients_served_again":        150,
			"detected_status_0":                25,
			"detected_status_1":                80,
			"detected_status_3":                70,
			"daemon_startup_crashes":           2,
			"stale_by_sigkill":                 10,
		},
	}
}
