package c27

// The two kinds of real processes a case consists of, besides the runner:
//
//   - "shell": calls daemon.Activate, performs store requests through the
//     returned client, holds the connection as scripted, closes it.
//   - "daemon": what daemon.Activate spawns (it re-executes os.Executable()
//     with -daemon -db -sock), i.e. the real daemon.Serve.
//
// Both log through src.elv.sh/pkg/verifhook into one event log per case.

import (
	"encoding/json"
	"fmt"
	"os"
	"path/filepath"
	"runtime"
	"strings"
	"sync/atomic"
	"syscall"
	"time"

	"src.elv.sh/pkg/daemon"
	"src.elv.sh/pkg/daemon/daemondefs"
	"src.elv.sh/pkg/logutil"
	"src.elv.sh/pkg/verifhook"
)

// DaemonMain mirrors src.elv.sh/pkg/daemon.Program.Run: log to stdout (the
// spawner redirected it to a log file), daemon umask, Serve, exit status.
//
// Activate spawns daemons with an EMPTY environment, so the event log and the
// pause-point script cannot be inherited. They are found through the
// directory of the socket: each shell <name> uses its own RunDir
// <dir>/run-<name>, where Activate creates the daemon's log file = our stdout;
// <dir>/denv-<name> (fallback <dir>/denv) holds KEY=VALUE lines.
func DaemonMain(args []string) {
	var sock, db string
	for i := 0; i < len(args); i++ {
		switch args[i] {
		case "-sock":
			if i+1 < len(args) {
				sock = args[i+1]
				i++
			}
		case "-db":
			if i+1 < len(args) {
				db = args[i+1]
				i++
			}
		}
	}
	if sock == "" || db == "" {
		fmt.Fprintln(os.Stderr, "c27 daemon: -sock and -db are required")
		os.Exit(2)
	}
	runtime.GOMAXPROCS(2) // the environment is empty; do not start one GC worker per core
	dir := filepath.Dir(sock)
	ppid := os.Getppid()
	spawner := ""
	if link, err := os.Readlink("/proc/self/fd/1"); err == nil {
		if d := filepath.Base(filepath.Dir(link)); strings.HasPrefix(d, "run-") {
			spawner = strings.TrimPrefix(d, "run-")
		}
	}
	envFile := filepath.Join(dir, "denv")
	if spawner != "" {
		if _, err := os.Stat(filepath.Join(dir, "denv-"+spawner)); err == nil {
			envFile = filepath.Join(dir, "denv-"+spawner)
		}
	}
	if b, err := os.ReadFile(envFile); err == nil {
		for _, line := range strings.Split(string(b), "\n") {
			if k, v, ok := strings.Cut(line, "="); ok {
				os.Setenv(k, v)
			}
		}
	}
	// Never outlive the case: the runner removes the case directory.
	go func() {
		deadline := time.Now().Add(150 * time.Second)
		for time.Now().Before(deadline) {
			if _, err := os.Stat(dir); err != nil {
				break
			}
			time.Sleep(500 * time.Millisecond)
		}
		os.Exit(9)
	}()
	verifhook.Event("daemon.start", "ppid", ppid, "spawner", spawner)
	logutil.SetOutput(os.Stdout)
	syscall.Umask(0o077)
	os.Exit(daemon.Serve(sock, db, daemon.ServeOpts{}))
}

// shellCfg is passed to a shell process in $C27_SHELL (JSON).
type shellCfg struct {
	Name string `json:"name"`
	Dir  string `json:"dir"`
	Sock string `json:"sock"`
	DB   string `json:"db"`
}

func errStr(err error) string {
	if err == nil {
		return ""
	}
	s := err.Error()
	if s == "" {
		s = "(empty error)"
	}
	return s
}

// ShellMain is the life of one shell:
//
//	shell.start → Activate → shell.activated(err)
//	  → [Pid, AddCmd] shell.req1 → shell.hold → [Pid, AddCmd on the SAME client] shell.req2
//	  → shell.beforeClose → Close → shell.closed
//
// Every step is a verifhook event and therefore a scriptable pause point.
func ShellMain(cfgJSON string) {
	var cfg shellCfg
	if err := json.Unmarshal([]byte(cfgJSON), &cfg); err != nil {
		fmt.Fprintln(os.Stderr, "c27 shell: bad config:", err)
		os.Exit(2)
	}
	os.MkdirAll(filepath.Join(cfg.Dir, "run-"+cfg.Name), 0o755)
	go func() { // a shell never outlives its case either
		time.Sleep(120 * time.Second)
		os.Exit(9)
	}()
	// An activation that never gives up would otherwise occupy the case until
	// the watchdog: stop far beyond the documented budget (100 iterations).
	var loops atomic.Int64
	verifhook.Set(func(point string) {
		if point == "activate.waitLoop" && loops.Add(1) > 3*maxWaitLoops {
			verifhook.Set(nil)
			verifhook.Event("shell.gaveup", "name", cfg.Name)
			os.Exit(7)
		}
	})
	verifhook.Event("shell.start", "name", cfg.Name)
	cl, err := daemon.Activate(os.Stderr, &daemondefs.SpawnConfig{
		DbPath: cfg.DB, SockPath: cfg.Sock, RunDir: filepath.Join(cfg.Dir, "run-"+cfg.Name)})
	verifhook.Event("shell.activated", "name", cfg.Name, "aerr", errStr(err))
	if err == nil {
		request := func(point string, n int) {
			dpid, perr := cl.Pid()
			seq, aerr := cl.AddCmd(fmt.Sprintf("%s-%d", cfg.Name, n))
			verifhook.Event(point, "name", cfg.Name, "dpid", dpid, "perr", errStr(perr), "aerr", errStr(aerr), "cmdseq", seq)
		}
		request("shell.req1", 1)
		verifhook.Event("shell.hold", "name", cfg.Name)
		request("shell.req2", 2)
	}
	verifhook.Event("shell.beforeClose", "name", cfg.Name)
	cerr := cl.Close()
	verifhook.Event("shell.closed", "name", cfg.Name, "cerr", errStr(cerr))
	os.Exit(0)
}
