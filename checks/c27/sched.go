package c27

// Schedules: a scenario is a set of shells plus a pause-point script per
// process. Orders are forced with rendezvous files ("X passed point p" →
// "Y may leave point q"); sleeps are only used to widen windows that have no
// event on the waiting side (a connection sitting in the accept queue).

import (
	"fmt"
	"math/rand"
	"path/filepath"
	"strings"
)

// Pause points (see /repo/pkg/daemon/activate.go, server.go and proc.go).
const (
	pStart        = "shell.start"
	pActivated    = "shell.activated"
	pReq1         = "shell.req1"
	pHold         = "shell.hold"
	pReq2         = "shell.req2"
	pBeforeClose  = "shell.beforeClose"
	pClosed       = "shell.closed"
	pDetected     = "activate.detected"
	pBeforeRemove = "activate.beforeRemove"
	pAfterRemove  = "activate.afterRemove"
	pBeforeSpawn  = "activate.beforeSpawn"
	pAfterSpawn   = "activate.afterSpawn"
	pWaitLoop     = "activate.waitLoop"
	pDaemonStart  = "daemon.start"
	pAfterListen  = "serve.afterListen"
	pAfterOpenDB  = "serve.afterOpenDB"
	pReady        = "serve.ready"
	pConnAccepted = "serve.connAccepted"
	pConnDone     = "serve.connDone"
	pBeforeRmSock = "serve.beforeRemoveSocket"
	pExit         = "serve.exit"
)

// A process of a scenario is named by its shell ("A") or, for the daemon that
// this shell spawns, "d" + shell ("dA").
type scen struct {
	Kind   string   `json:"kind"`   // schedule family
	Desc   string   `json:"desc"`   // the concrete schedule, human readable
	Stale  string   `json:"stale"`  // "" (no socket file), "file" (dead socket file), "killed" (left by a SIGKILLed real daemon)
	Shells []string `json:"shells"` // shell names
	// process -> point -> actions ("touch:f", "waitfile:f", "sleep:ms", "exit:code")
	touch map[string]map[string][]string
	wait  map[string]map[string][]string
	tail  map[string]map[string][]string
	Edges []string `json:"edges"`
	nfile int
	// Crashers are daemons scripted to die (excluded from the serving census).
	Crashers map[string]bool `json:"crashers,omitempty"`
	// Fallbacks are executed by the runner: once file When exists, wait AfterMs
	// and create file Touch (if it does not exist yet). They bound the time a
	// process stays parked when the awaited step cannot happen on this tree.
	Fallbacks []fallback `json:"fallbacks,omitempty"`
}

type fallback struct {
	When    string `json:"when"`
	AfterMs int    `json:"after_ms"`
	Touch   string `json:"touch"`
}

func newScen(kind, stale string, shells ...string) *scen {
	return &scen{Kind: kind, Stale: stale, Shells: shells,
		touch: map[string]map[string][]string{}, wait: map[string]map[string][]string{}, tail: map[string]map[string][]string{},
		Crashers: map[string]bool{}}
}

func add(m map[string]map[string][]string, proc, point, act string) {
	if m[proc] == nil {
		m[proc] = map[string][]string{}
	}
	m[proc][point] = append(m[proc][point], act)
}

// edge: `to` does not leave point toPoint before `from` has logged fromPoint.
// File names are placeholders ("@R/n") resolved against the case directory.
func (s *scen) edge(from, fromPoint, to, toPoint string) *scen {
	s.nfile++
	f := fmt.Sprintf("@R/%d", s.nfile)
	add(s.touch, from, fromPoint, "touch:"+f)
	add(s.wait, to, toPoint, "waitfile:"+f)
	s.Edges = append(s.Edges, fmt.Sprintf("%s@%s -> %s@%s", from, fromPoint, to, toPoint))
	return s
}

// edgeLate is edge, except that `from` announces fromPoint only after its own
// waits at that point are over (used for "B is released and says so").
func (s *scen) edgeLate(from, fromPoint, to, toPoint string) *scen {
	s.nfile++
	f := fmt.Sprintf("@R/%d", s.nfile)
	add(s.tail, from, fromPoint, "touch:"+f)
	add(s.wait, to, toPoint, "waitfile:"+f)
	s.Edges = append(s.Edges, fmt.Sprintf("%s@%s(released) -> %s@%s", from, fromPoint, to, toPoint))
	return s
}

// parkUntil: `to` stays at toPoint until `from` has logged fromPoint, but at
// most ms milliseconds after `to` arrived there (the runner releases it).
func (s *scen) parkUntil(from, fromPoint, to, toPoint string, ms int) *scen {
	s.nfile++
	rel := fmt.Sprintf("@R/%d", s.nfile)
	s.nfile++
	arrived := fmt.Sprintf("@R/%d", s.nfile)
	add(s.touch, from, fromPoint, "touch:"+rel)
	add(s.touch, to, toPoint, "touch:"+arrived)
	add(s.wait, to, toPoint, "waitfile:"+rel)
	s.Fallbacks = append(s.Fallbacks, fallback{When: arrived, AfterMs: ms, Touch: rel})
	s.Edges = append(s.Edges, fmt.Sprintf("%s@%s -> %s@%s (or %dms after arrival)", from, fromPoint, to, toPoint, ms))
	return s
}

func (s *scen) sleep(proc, point string, ms int) *scen {
	if ms > 0 {
		add(s.tail, proc, point, fmt.Sprintf("sleep:%d", ms))
		s.Edges = append(s.Edges, fmt.Sprintf("%s@%s sleep %dms", proc, point, ms))
	}
	return s
}

func (s *scen) crash(daemonProc, point string) *scen {
	add(s.tail, daemonProc, point, "exit:3")
	s.Crashers[daemonProc] = true
	s.Edges = append(s.Edges, fmt.Sprintf("%s@%s crash", daemonProc, point))
	return s
}

// hooks renders VERIF_HOOKS for a process: at every point first the touches
// (so that a process never blocks before announcing itself), then the waits,
// then sleeps / exit.
func (s *scen) hooks(proc, dir string) string {
	var items []string
	seen := map[string]bool{}
	var points []string
	for _, m := range []map[string]map[string][]string{s.touch, s.wait, s.tail} {
		for p := range m[proc] {
			if !seen[p] {
				seen[p] = true
				points = append(points, p)
			}
		}
	}
	// deterministic order (the order between points is irrelevant)
	for i := range points {
		for j := i + 1; j < len(points); j++ {
			if points[j] < points[i] {
				points[i], points[j] = points[j], points[i]
			}
		}
	}
	for _, p := range points {
		for _, m := range []map[string]map[string][]string{s.touch, s.wait, s.tail} {
			for _, a := range m[proc][p] {
				items = append(items, p+"="+strings.ReplaceAll(a, "@R", filepath.Join(dir, "r")))
			}
		}
	}
	return strings.Join(items, ";")
}

// ---------------------------------------------------------------------------
// The table of forced schedules.

type point struct{ proc, p string }

func (p point) String() string {
	return p.proc + "@" + strings.TrimPrefix(strings.TrimPrefix(p.p, "activate."), "serve.")
}

// forcedTable enumerates the forced schedules. It is a pure function: the case
// index selects an entry, c.Rand only adds jitter on later rounds.
func forcedTable() []*scen {
	var t []*scen

	// --- T1: two shells and a dead socket file. B is parked at q (after
	// having announced that it is there, which starts A) until A's side has
	// passed p; then one of them leaves first.
	aSide := []point{{"A", pDetected}, {"A", pAfterRemove}, {"A", pAfterSpawn}, {"dA", pAfterListen},
		{"dA", pAfterOpenDB}, {"dA", pReady}, {"A", pActivated}, {"dA", pExit}}
	for _, stale := range []string{"file", "killed"} {
		for _, q := range []string{pStart, pBeforeRemove, pAfterRemove, pBeforeSpawn} {
			for _, p := range aSide {
				if p.p == pAfterRemove && (q == pAfterRemove || q == pBeforeSpawn) {
					continue // B already removed the file: A sees "missing" and never removes
				}
				if stale == "killed" && !(q == pBeforeRemove || q == pStart) {
					continue // the expensive variant only for the two most interesting parkings
				}
				for _, first := range []string{"A", "B"} {
					if p.p == pExit && first == "B" {
						continue // A's daemon has exited: A left first by construction
					}
					if stale == "killed" && first == "B" {
						continue
					}
					s := newScen("stale2", stale, "A", "B")
					s.Desc = fmt.Sprintf("stale=%s; B parked at %s until %s; %s leaves first", stale, q, p, first)
					if q != pStart {
						s.edge("B", q, "A", pStart)
					}
					s.edge(p.proc, p.p, "B", q)
					if p.p != pExit {
						if first == "A" {
							s.edge("B", pActivated, "A", pHold)
							s.edge("A", pClosed, "B", pHold)
						} else {
							s.edge("B", pClosed, "A", pHold)
						}
						if q == pAfterRemove || q == pBeforeSpawn {
							// B certainly spawns: nobody leaves before B's daemon has tried to listen
							s.edge("dB", pAfterListen, "A", pHold)
							s.edge("dB", pAfterListen, "B", pHold)
						}
					}
					t = append(t, s)
				}
			}
		}
	}

	// --- T2: two shells, no socket file (cold start).
	coldA := []point{{"A", pDetected}, {"A", pAfterSpawn}, {"dA", pAfterListen}, {"dA", pAfterOpenDB},
		{"dA", pReady}, {"A", pActivated}, {"dA", pExit}}
	for _, q := range []string{pStart, pBeforeSpawn, pAfterSpawn} {
		for _, p := range coldA {
			for _, first := range []string{"A", "B"} {
				if p.p == pExit && first == "B" {
					continue
				}
				if q == pAfterSpawn && !(p.p == pDetected || p.p == pActivated) {
					continue // B's daemon may already serve A: A need not spawn at all
				}
				s := newScen("cold2", "", "A", "B")
				s.Desc = fmt.Sprintf("no socket; B parked at %s until %s; %s leaves first", q, p, first)
				if q != pStart {
					s.edge("B", q, "A", pStart)
				}
				s.edge(p.proc, p.p, "B", q)
				if p.p != pExit {
					if first == "A" {
						s.edge("B", pActivated, "A", pHold)
						s.edge("A", pClosed, "B", pHold)
					} else {
						s.edge("B", pClosed, "A", pHold)
					}
					if q != pStart {
						// B certainly spawns: nobody leaves before B's daemon has tried to listen
						s.edge("dB", pAfterListen, "A", pHold)
						s.edge("dB", pAfterListen, "B", pHold)
					}
				}
				t = append(t, s)
			}
		}
	}

	// --- T3: a shell arrives while the last client leaves. The daemon is
	// slowed down at x after it has announced x; B starts on that
	// announcement. (B's connection attempt has no event of its own before
	// the reply, hence a sleep and not a rendezvous on the daemon side.)
	for _, stale := range []string{"", "file"} {
		for _, x := range []string{pConnDone, pBeforeRmSock, pExit} {
			for _, ms := range []int{100, 400} {
				s := newScen("lastleave", stale, "A", "B")
				s.Desc = fmt.Sprintf("stale=%q; A leaves; its daemon lingers %dms at %s; B arrives then", stale, ms, x)
				s.edge("B", pStart, "A", pStart) // B is up and parked before anything happens
				s.edge("dA", x, "B", pStart)     // the daemon reached x: release B
				s.edgeLate("B", pStart, "dA", x) // B is released: the daemon may go on …
				s.sleep("dA", x, ms)             // … after B had time to probe and dial
				t = append(t, s)
			}
		}
		// handover: B arrives before A leaves; the daemon must go on serving B.
		for _, bAt := range []string{pReq1, pActivated} {
			s := newScen("handover", stale, "A", "B")
			s.Desc = fmt.Sprintf("stale=%q; B arrives after A is activated; A leaves after B@%s; B goes on", stale, bAt)
			s.edge("A", pActivated, "B", pStart)
			s.edge("B", bAt, "A", pHold)
			s.edge("A", pClosed, "B", pHold)
			t = append(t, s)
		}
	}

	// --- T4: 2..4 shells on one daemon leave in a forced order.
	orders := [][]string{{"A", "B"}, {"B", "A"}, {"A", "B", "C"}, {"C", "B", "A"}, {"B", "C", "A"}, {"B", "A", "C"},
		{"A", "B", "C", "D"}, {"D", "C", "B", "A"}, {"C", "A", "D", "B"}, {"B", "D", "A", "C"}}
	for _, ord := range orders {
		for _, concurrent := range []bool{false, true} {
			names := []string{"A", "B", "C", "D"}[:len(ord)]
			s := newScen("exitorder", "", names...)
			s.Desc = fmt.Sprintf("%d shells (concurrent start=%v) leave in order %v", len(ord), concurrent, ord)
			if !concurrent {
				for i := 1; i < len(names); i++ {
					s.edge(names[i-1], pActivated, names[i], pStart)
				}
			}
			// nobody leaves before everybody has finished activation
			for _, x := range names {
				if x != ord[0] {
					s.edge(x, pActivated, ord[0], pHold)
				}
			}
			for i := 1; i < len(ord); i++ {
				s.edge(ord[i-1], pClosed, ord[i], pHold)
			}
			t = append(t, s)
		}
	}

	// --- T5: the spawned daemon dies during start-up; the next shell finds
	// what it left behind.
	for _, stale := range []string{"", "file"} {
		for _, x := range []string{pDaemonStart, pAfterListen, pAfterOpenDB, pReady, pConnAccepted} {
			s := newScen("crashstart", stale, "A", "B")
			s.Desc = fmt.Sprintf("stale=%q; A's daemon dies at %s; B starts after A is done", stale, x)
			s.crash("dA", x)
			s.edge("A", pClosed, "B", pStart)
			t = append(t, s)
		}
	}

	// --- T9: a successor daemon is parked before its listen until the serving
	// daemon announces its exit (no pause point exists between os.Remove and
	// listener.Close in Serve, so hitting that window is a matter of luck;
	// the sleeps shift the successor's listen across it).
	for _, ms := range []int{0, 0, 0, 0, 1, 1} {
		for _, x := range []string{pBeforeRmSock} {
			s := newScen("successor", "", "A", "B")
			s.Desc = fmt.Sprintf("no socket; A and B both spawn; dB parked before listen until dA@%s (+%dms); both leave", x, ms)
			s.edge("A", pBeforeSpawn, "B", pBeforeSpawn) // both have seen "missing"
			s.edge("B", pBeforeSpawn, "A", pBeforeSpawn)
			s.edge("dA", pAfterListen, "B", pAfterSpawn) // dA owns the path before dB exists
			s.edge("dA", x, "dB", pDaemonStart)
			s.sleep("dB", pDaemonStart, ms)
			s.edge("B", pActivated, "A", pHold)
			t = append(t, s)
		}
	}

	// --- T10: the exiting daemon is parked at beforeRemoveSocket (its last
	// client has left, the removal of the socket file is the next step) while
	// a new shell B runs its whole activation; then the daemon goes on. What
	// B meets in that window is up to the implementation (a listener that
	// still accepts, a file that refuses, no file); whatever B ends up
	// connected to must still be reachable after the old daemon is gone.
	// A third shell C arrives after the old daemon has exited.
	for _, stale := range []string{"", "file"} {
		for _, rel := range []point{{"B", pActivated}, {"dB", pReady}, {"B", pReq1}} {
			for _, third := range []bool{false, true} {
				names := []string{"A", "B"}
				if third {
					names = append(names, "C")
				}
				s := newScen("exitpark", stale, names...)
				s.Desc = fmt.Sprintf("stale=%q; A leaves; dA parked at beforeRemoveSocket until %s; B arrives when dA is parked; third shell=%v", stale, rel, third)
				s.edge("B", pStart, "A", pStart) // B is up and parked before anything happens
				s.edge("dA", pBeforeRmSock, "B", pStart)
				s.parkUntil(rel.proc, rel.p, "dA", pBeforeRmSock, 2500)
				s.edge("dA", pExit, "B", pHold) // B is still connected when the old daemon has gone
				if third {
					s.edge("dA", pExit, "C", pStart)
					s.parkUntil("C", pActivated, "B", pHold, 4000)
				}
				t = append(t, s)
			}
		}
	}

	// --- T6: generations: each shell starts after the previous daemon exited.
	for _, stale := range []string{"", "file", "killed"} {
		s := newScen("generations", stale, "A", "B", "C")
		s.Desc = fmt.Sprintf("stale=%q; A, then B after dA exited, then C after dB exited", stale)
		s.edge("dA", pExit, "B", pStart)
		s.edge("dB", pExit, "C", pStart)
		t = append(t, s)
	}

	// --- T7: a single shell.
	for _, stale := range []string{"", "file", "killed"} {
		s := newScen("solo", stale, "A")
		s.Desc = fmt.Sprintf("stale=%q; one shell", stale)
		t = append(t, s)
	}

	// --- T8: three shells and a dead socket file; B and C are parked at
	// beforeRemove; released at different progress of A.
	for _, pb := range []point{{"dA", pAfterListen}, {"dA", pReady}, {"A", pActivated}} {
		for _, pc := range []point{{"B", pAfterRemove}, {"dB", pAfterListen}, {"B", pActivated}} {
			s := newScen("stale3", "file", "A", "B", "C")
			s.Desc = fmt.Sprintf("stale=file; B and C parked at beforeRemove; B until %s, C until %s", pb, pc)
			s.edge("B", pBeforeRemove, "A", pStart)
			s.edge("C", pBeforeRemove, "A", pStart)
			s.edge(pb.proc, pb.p, "B", pBeforeRemove)
			s.edge(pc.proc, pc.p, "C", pBeforeRemove)
			s.edge("B", pActivated, "A", pHold)
			s.edge("C", pActivated, "A", pHold)
			t = append(t, s)
		}
	}
	return t
}

// jitter adds small sleeps at random points of random processes.
func (s *scen) jitter(r *rand.Rand, n, maxMs int) {
	shellPts := []string{pStart, pDetected, pBeforeRemove, pAfterRemove, pBeforeSpawn, pAfterSpawn, pWaitLoop, pActivated, pReq1, pHold, pBeforeClose}
	daemonPts := []string{pDaemonStart, pAfterListen, pAfterOpenDB, pReady, pConnAccepted, pConnDone, pBeforeRmSock}
	for i := 0; i < n; i++ {
		sh := s.Shells[r.Intn(len(s.Shells))]
		if r.Intn(3) == 0 {
			s.sleep("d"+sh, daemonPts[r.Intn(len(daemonPts))], 1+r.Intn(maxMs))
		} else {
			s.sleep(sh, shellPts[r.Intn(len(shellPts))], 1+r.Intn(maxMs))
		}
	}
}

// randomScen: unforced races — 2..4 shells, random staleness, random sleeps.
func randomScen(r *rand.Rand) *scen {
	n := 2 + r.Intn(3)
	names := []string{"A", "B", "C", "D"}[:n]
	stale := []string{"", "file", "file", "killed"}[r.Intn(4)]
	s := newScen("random", stale, names...)
	for _, sh := range names {
		if r.Intn(2) == 0 {
			s.sleep(sh, pStart, r.Intn(40))
		}
		if r.Intn(2) == 0 {
			s.sleep(sh, pHold, r.Intn(120))
		}
		// widen the detect→remove and detect→spawn windows now and then
		if r.Intn(3) == 0 {
			s.sleep(sh, pBeforeRemove, r.Intn(60))
		}
		if r.Intn(3) == 0 {
			s.sleep(sh, pBeforeSpawn, r.Intn(40))
		}
		if r.Intn(4) == 0 {
			s.sleep("d"+sh, pConnDone, r.Intn(30))
		}
	}
	s.jitter(r, r.Intn(5), 25)
	s.Desc = fmt.Sprintf("random: %d shells, stale=%q, %d sleeps", n, stale, len(s.Edges))
	return s
}
