package c27

// The oracle: a pure function of the scenario, the merged event log (in the
// order of the write(2) calls on the shared O_APPEND descriptor — a total
// order that needs no clock) and the final probes.
//
// What an order in the log proves: every event line is written AFTER the step
// it reports (afterListen, connDone, req1 …) and BEFORE the step it announces
// (beforeRemove, beforeRemoveSocket, beforeClose …). So "line X precedes line
// Y" gives: the step reported by X was complete before the step announced by
// Y began.

import (
	"fmt"
	"sort"
	"strings"
)

type finding struct {
	Sig  string `json:"sig"`
	What string `json:"what"`
}

type daemonInfo struct {
	Pid       int
	Spawner   string
	Listen    int // idx of serve.afterListen, -1 if none
	ListenErr *string
	Ino       uint64
	DBSeen    bool
	DBErr     *string
	Ready     int
	Stop      int // idx of serve.beforeRemoveSocket
	StopIno   uint64
	StopQueue int
	Exit      int
	LastConns int // nconns of the last connAccepted/connDone before Stop
	ConnEvs   int
	FirstConn int // idx of the first serve.connAccepted, -1 if none
	PreKilled bool
	Crasher   bool
	// Vanish: the first observation (event index, len(evs) = final probe) that
	// the path no longer holds this daemon's inode although it had not decided
	// to stop; -1 if none. VanishBy: who explains it ("shell:<name>",
	// "daemon:<pid>" = logged removals, "closing:<pid>" = a daemon that was
	// between its os.Remove and the end of listener.Close, "" = nobody).
	Vanish   int
	VanishBy string
	NowIno   uint64
}

type shellInfo struct {
	Name, ActErr                 string
	Pid                          int
	Start, Activated, Req1, Req2 int
	BeforeClose, Closed          int
	R1, R2                       ev
	DetStatus                    int
	DetIno, RmIno                uint64
	Detected, BeforeRm           int
	RmErr                        *string
	AfterRm                      int
	WaitLoops                    int
	Spawned                      bool
}

type census struct {
	Daemons map[int]*daemonInfo
	Shells  map[string]*shellInfo
	Class   string
}

const maxWaitLoops = 102 // daemonSpawnTimeout / daemonSpawnWaitPerLoop = 100 iterations, +2

func takeCensus(s *scen, evs []ev, pr *probe) *census {
	c := &census{Daemons: map[int]*daemonInfo{}, Shells: map[string]*shellInfo{}}
	shellByPid := map[int]*shellInfo{}
	for _, e := range evs {
		if e.Point == pStart {
			si := &shellInfo{Name: e.Name, Pid: e.Pid, Start: e.idx, Activated: -1, Req1: -1, Req2: -1,
				BeforeClose: -1, Closed: -1, Detected: -1, BeforeRm: -1, AfterRm: -1, DetStatus: -1}
			c.Shells[e.Name] = si
			shellByPid[e.Pid] = si
		}
		if e.Point == pDaemonStart {
			c.Daemons[e.Pid] = &daemonInfo{Pid: e.Pid, Spawner: e.Spawner, Listen: -1, Ready: -1, Stop: -1, Exit: -1, Vanish: -1, FirstConn: -1,
				PreKilled: pr.PreKilled[e.Pid], Crasher: e.Spawner != "" && s.Crashers["d"+e.Spawner]}
		}
	}
	for _, e := range evs {
		if d := c.Daemons[e.Pid]; d != nil {
			switch e.Point {
			case pAfterListen:
				d.Listen, d.ListenErr, d.Ino = e.idx, e.Err, e.Ino
			case pAfterOpenDB:
				d.DBSeen, d.DBErr = true, e.Err
			case pReady:
				d.Ready = e.idx
			case pConnAccepted, pConnDone:
				if e.Point == pConnAccepted && d.FirstConn < 0 {
					d.FirstConn = e.idx
				}
				if e.Nconns != nil && d.Stop < 0 {
					d.LastConns = *e.Nconns
					d.ConnEvs++
				}
			case pBeforeRmSock:
				d.Stop, d.StopIno = e.idx, e.Ino
				if e.Queued != nil {
					d.StopQueue = *e.Queued
				}
			case pExit:
				d.Exit = e.idx
			}
		}
		if si := shellByPid[e.Pid]; si != nil {
			switch e.Point {
			case pDetected:
				si.Detected, si.DetIno = e.idx, e.Ino
				if e.Status != nil {
					si.DetStatus = *e.Status
				}
			case pBeforeRemove:
				si.BeforeRm, si.RmIno = e.idx, e.Ino
			case pAfterRemove:
				si.AfterRm, si.RmErr = e.idx, e.Err
			case pAfterSpawn:
				si.Spawned = e.Err == nil
			case pWaitLoop:
				si.WaitLoops++
			case pActivated:
				si.Activated, si.ActErr = e.idx, e.Aerr
			case pReq1:
				si.Req1, si.R1 = e.idx, e
			case pReq2:
				si.Req2, si.R2 = e.idx, e
			case pBeforeClose:
				si.BeforeClose = e.idx
			case pClosed:
				si.Closed = e.idx
			}
		}
	}
	// Schedule class of the case, from what was observed: "stale-toctou" when
	// an activator that had probed a dead socket (connection refused) removed
	// the path successfully AFTER a daemon that was not there at probe time had
	// started listening on it and before that daemon decided to stop — i.e. it
	// removed a live daemon's socket. (activate.beforeRemove is logged before a
	// possible pause, so its inode cannot be used; afterRemove is logged after
	// the removal.)
	c.Class = s.Kind
	for _, si := range c.Shells {
		if si.DetStatus != 3 || si.AfterRm < 0 || si.RmErr != nil {
			continue
		}
		for _, d := range c.Daemons {
			if d.Listen < 0 || d.ListenErr != nil || d.PreKilled || d.Crasher {
				continue
			}
			if si.Detected < d.Listen && d.Listen < si.AfterRm && (d.Stop < 0 || d.Stop > si.AfterRm) {
				c.Class = "stale-toctou"
			}
			// The same race one step earlier: the daemon had bound the path but
			// not yet called listen(2) when the activator probed it ("refused"),
			// and the activator then removed exactly that inode.
			// (Only a daemon that had not served anybody yet can be in that
			// state; one that refuses connections later has closed its listener.)
			if d.Ino != 0 && (si.DetIno == d.Ino || si.RmIno == d.Ino) && (d.FirstConn < 0 || si.Detected < d.FirstConn) {
				c.Class = "stale-toctou"
			}
		}
	}
	for _, d := range c.Daemons {
		findVanish(c, d, evs, pr)
		if d.Vanish >= 0 && strings.HasPrefix(d.VanishBy, "closing:") {
			c.Class = "exit-window-unlink"
		}
	}
	return c
}

// findVanish looks for evidence that a serving daemon's socket file was taken
// away, and for a logged step that explains it.
func findVanish(c *census, d *daemonInfo, evs []ev, pr *probe) {
	if d.Listen < 0 || d.ListenErr != nil || d.PreKilled || d.Crasher || d.Ino == 0 {
		return
	}
	end := len(evs)
	if d.Stop >= 0 {
		end = d.Stop + 1 // its own beforeRemoveSocket still reports what is at the path
	}
	// An event's inode is read (lstat) before its line is written, so a line
	// after d's afterListen may still carry a reading from before the listen.
	// A reading is known to be later than the listen only if the SAME process
	// wrote an earlier line after d's afterListen line.
	prev := map[int]int{} // pid -> index of its previous line
	for k := 0; k < end; k++ {
		e := evs[k]
		p, seen := prev[e.Pid]
		prev[e.Pid] = k
		if k <= d.Listen || e.Sock == "" || e.Ino == d.Ino {
			continue
		}
		if e.Pid == d.Pid || (seen && p > d.Listen) {
			d.Vanish, d.NowIno = k, e.Ino
			break
		}
	}
	// final probe: only for a daemon whose listen was in the log before the probe was taken
	if d.Vanish < 0 && d.Stop < 0 && pr.Incomplete == "" && d.Listen < pr.ProbeAt && pr.Alive[d.Pid] && pr.SockIno != d.Ino {
		d.Vanish, d.NowIno = len(evs), pr.SockIno
	}
	if d.Vanish < 0 {
		return
	}
	for _, si := range c.Shells {
		// a successful removal announced before the observation and reported after the listen
		if si.AfterRm >= 0 && si.RmErr == nil && si.BeforeRm < d.Vanish &&
			(si.AfterRm > d.Listen || si.RmIno == d.Ino || si.DetIno == d.Ino) {
			d.VanishBy = "shell:" + si.Name
			return
		}
	}
	for _, o := range c.Daemons {
		if o != d && o.Stop > d.Listen && o.Stop < d.Vanish && o.StopIno == d.Ino {
			d.VanishBy = fmt.Sprintf("daemon:%d", o.Pid)
			return
		}
	}
	for _, o := range c.Daemons {
		// o had announced its os.Remove before d listened and had not finished closing its listener
		if o != d && o.Stop >= 0 && o.Stop < d.Listen && (o.Exit < 0 || o.Exit > d.Listen) {
			d.VanishBy = fmt.Sprintf("closing:%d", o.Pid)
			return
		}
	}
}

func str(p *string) string {
	if p == nil {
		return "<nil>"
	}
	return *p
}

// judge applies clauses (1)–(5) of the property.
func judge(s *scen, evs []ev, pr *probe) ([]finding, *census) {
	c := takeCensus(s, evs, pr)
	var out []finding
	add := func(sig, format string, a ...any) {
		out = append(out, finding{sig + "@" + c.Class, fmt.Sprintf(format, a...)})
	}
	names := make([]string, 0, len(c.Shells))
	for n := range c.Shells {
		names = append(names, n)
	}
	sort.Strings(names)
	var dpids []int
	for pid := range c.Daemons {
		dpids = append(dpids, pid)
	}
	sort.Ints(dpids)

	// (1) activation that reports success is connected to a live daemon that owns the database.
	for _, n := range names {
		si := c.Shells[n]
		if si.Activated < 0 || si.ActErr != "" {
			continue
		}
		if si.Req1 < 0 {
			continue // killed by the runner; handled under (5)
		}
		r := si.R1
		d := c.Daemons[r.Dpid]
		switch {
		case r.Perr != "":
			add("c1:activated-but-daemon-unreachable", "shell %s: Activate returned nil, the next request (Pid) failed: %s", n, r.Perr)
		case d == nil || d.Listen < 0 || d.ListenErr != nil:
			add("c1:activated-to-unknown-daemon", "shell %s: Activate returned nil, Pid() = %d is not a daemon listening on the socket", n, r.Dpid)
		case !d.DBSeen || d.DBErr != nil || r.Aerr != "":
			add("c1:activated-to-daemon-without-db", "shell %s: Activate returned nil but daemon %d does not own the database (open db: %s; AddCmd: %q)",
				n, r.Dpid, str(d.DBErr), r.Aerr)
		}
	}

	// (2) at most one daemon serves the socket+database at a time: the
	// intervals [afterListen(ok), beforeRemoveSocket) of two daemons overlap.
	for i, p1 := range dpids {
		for _, p2 := range dpids[i+1:] {
			a, b := c.Daemons[p1], c.Daemons[p2]
			if a.Listen > b.Listen {
				a, b = b, a
			}
			if a.Listen < 0 || a.ListenErr != nil || b.ListenErr != nil || a.PreKilled || b.PreKilled || a.Crasher || b.Crasher {
				continue
			}
			// a listened first; it must have decided to stop before b's listen succeeded
			stillServing := a.Stop > b.Listen || (a.Stop < 0 && a.Listen < pr.ProbeAt && pr.Alive[a.Pid])
			if stillServing {
				// (whether the second one also gets the database only depends on
				// when the first one lets go of the bbolt lock)
				add("c2:two-daemons-listening", "daemon %d (inode %d, db err %s) was still serving when daemon %d (inode %d, db err %s) started listening on the same path",
					a.Pid, a.Ino, str(a.DBErr), b.Pid, b.Ino, str(b.DBErr))
			}
		}
	}

	// (3) a daemon keeps serving while any client is connected.
	for _, n := range names {
		si := c.Shells[n]
		if si.Req1 < 0 || si.R1.Perr != "" {
			continue
		}
		if si.Req2 >= 0 && (si.R2.Perr != "" || si.R2.Dpid != si.R1.Dpid) {
			add("c3:client-lost-its-daemon", "shell %s was connected to daemon %d; a later request on the same client: pid=%d err=%q",
				n, si.R1.Dpid, si.R2.Dpid, si.R2.Perr)
		}
		if d := c.Daemons[si.R1.Dpid]; d != nil && d.Stop > si.Req1 && si.BeforeClose >= 0 && d.Stop < si.BeforeClose {
			add("c3:exit-while-client-connected", "daemon %d decided to exit while shell %s was connected and had not begun to close", d.Pid, n)
		}
	}
	for _, pid := range dpids {
		d := c.Daemons[pid]
		if d.Stop < 0 {
			continue
		}
		if d.ConnEvs > 0 && d.LastConns != 0 {
			add("c3:exit-with-open-conns", "daemon %d decided to exit with %d connections being served", pid, d.LastConns)
		} else if d.StopQueue > 0 {
			// its own narrow class: the last client left, a new one is already accepted
			out = append(out, finding{"c3:exit-with-queued-conn@last-client-leaves",
				fmt.Sprintf("daemon %d exits after its last client left although %d accepted connection(s) wait in its queue (schedule class %s)", pid, d.StopQueue, c.Class)})
		}
	}

	// (4) on exit a daemon removes only the socket it created.
	for _, pid := range dpids {
		d := c.Daemons[pid]
		if d.Stop >= 0 && d.StopIno != 0 && d.StopIno != d.Ino {
			add("c4:daemon-removes-foreign-socket", "daemon %d created inode %d but at exit removes the path holding inode %d", pid, d.Ino, d.StopIno)
		}
	}
	// … and nothing but a logged removal makes a serving daemon's socket disappear.
	for _, pid := range dpids {
		d := c.Daemons[pid]
		if d.Vanish < 0 {
			continue
		}
		switch {
		case strings.HasPrefix(d.VanishBy, "closing:"):
			add("c4:exiting-daemon-unlinks-successor-socket", "daemon %d bound the path (inode %d) after daemon %s had announced its exit (serve.beforeRemoveSocket) and before that daemon had finished exiting; "+
				"the path then lost inode %d (now %d) with no logged removal naming it: the exiting daemon removed a socket it did not create", pid, d.Ino, strings.TrimPrefix(d.VanishBy, "closing:"), d.Ino, d.NowIno)
		case d.VanishBy == "":
			add("c4:live-socket-vanished", "daemon %d had not decided to stop, its socket inode %d is gone from the path (now %d) and no logged removal explains it", pid, d.Ino, d.NowIno)
		}
	}

	// (5) activation terminates within the retry budget (loop iterations).
	for _, n := range names {
		si := c.Shells[n]
		if si.WaitLoops > maxWaitLoops {
			add("c5:wait-loop-exceeds-budget", "shell %s: %d iterations of the wait loop (budget %d)", n, si.WaitLoops, maxWaitLoops)
		}
	}
	return out, c
}
