package c44

import "unicode/utf8"

// reflsp: an independent model of LSP positions, written from the LSP
// specification (3.17, "Text Documents" and "Position"): a document is split
// into lines at "\r\n", "\r" and "\n"; Position.character counts UTF-16 code
// units from the start of the line (a code point above U+FFFF counts 2).

type refPos struct{ Line, Char int }

type refDoc struct {
	text   string
	starts []int // byte offset at which each line starts
	ends   []int // byte offset at which each line's content ends (before its line break)
}

func newRefDoc(text string) *refDoc {
	d := &refDoc{text: text, starts: []int{0}}
	for i := 0; i < len(text); i++ {
		switch text[i] {
		case '\r':
			d.ends = append(d.ends, i)
			if i+1 < len(text) && text[i+1] == '\n' {
				i++
			}
			d.starts = append(d.starts, i+1)
		case '\n':
			d.ends = append(d.ends, i)
			d.starts = append(d.starts, i+1)
		}
	}
	d.ends = append(d.ends, len(text))
	return d
}

func units(r rune) int {
	if r > 0xFFFF {
		return 2
	}
	return 1
}

// insideCRLF reports whether byte offset o lies between the two bytes of a
// CRLF pair (not a character boundary in LSP terms).
func (d *refDoc) insideCRLF(o int) bool {
	return o > 0 && o < len(d.text) && d.text[o-1] == '\r' && d.text[o] == '\n'
}

// boundary reports whether o is an offset at which a character starts (or
// the end of the text).
func (d *refDoc) boundary(o int) bool {
	if o < 0 || o > len(d.text) {
		return false
	}
	if o == len(d.text) {
		return true
	}
	return utf8.RuneStart(d.text[o]) && !d.insideCRLF(o)
}

// posOf converts a byte offset at a character boundary to a position.
func (d *refDoc) posOf(o int) refPos {
	// the line is the last one starting at or before o
	line := 0
	for k := range d.starts {
		if d.starts[k] <= o {
			line = k
		}
	}
	n := 0
	for _, r := range d.text[d.starts[line]:o] {
		n += units(r)
	}
	return refPos{line, n}
}

// posInsideCRLF gives the two defensible positions of an offset between CR
// and LF: the end of the line, or the start of the next one.
func (d *refDoc) posInsideCRLF(o int) (refPos, refPos) {
	a := d.posOf(o - 1)
	a.Char++ // as if CR were a character of the line
	b := d.posOf(o + 1)
	return a, b
}

// idxOf converts a position to a byte offset. exact is false when the
// specification leaves the answer open or prescribes clamping: a line past
// the end of the document, a character past the end of the line, a character
// between the two halves of a surrogate pair.
func (d *refDoc) idxOf(p refPos) (o int, exact bool) {
	if p.Line < 0 || p.Char < 0 || p.Line >= len(d.starts) {
		return 0, false
	}
	o = d.starts[p.Line]
	n := 0
	for _, r := range d.text[o:d.ends[p.Line]] {
		if n >= p.Char {
			break
		}
		n += units(r)
		o += utf8.RuneLen(r)
	}
	return o, n == p.Char
}
