// Package c44 monitors the language server (property C44): a real
// `elvish -lsp` subprocess is driven over pipes with generated sessions; an
// independent UTF-16 position model decides every position the server
// reports (diagnostic ranges, completion edit ranges) and every position it
// consumes (hover, completion), and every request must be answered.
package c44

import (
	"context"
	"encoding/json"
	"errors"
	"fmt"
	"io"
	"math/rand"
	"os"
	"os/exec"
	"path/filepath"
	"regexp"
	"sort"
	"strings"
	"sync"
	"syscall"
	"time"
	"unicode/utf8"

	"github.com/sourcegraph/jsonrpc2"
	lsp "pkg.nimblebun.works/go-lsp"
	"src.elv.sh/pkg/edit/complete"
	"src.elv.sh/pkg/eval"
	"src.elv.sh/pkg/mods/doc"
	"src.elv.sh/pkg/parse"
	"verifharness/internal/gen"
	"verifharness/internal/mon"
)

// ---------------------------------------------------------------------------
// subprocess + JSON-RPC client

type rwc struct {
	io.Reader
	io.Writer
	closeFn func() error
}

func (r rwc) Close() error { return r.closeFn() }

type diagMsg struct {
	URI         string `json:"uri"`
	Diagnostics []struct {
		Range    lsp.Range `json:"range"`
		Severity int       `json:"severity"`
		Message  string    `json:"message"`
	} `json:"diagnostics"`
}

type session struct {
	c      *mon.Case
	cmd    *exec.Cmd
	conn   *jsonrpc2.Conn
	stdin  io.WriteCloser
	notif  chan diagMsg
	other  chan string // unexpected server->client traffic
	exited chan struct{}
	errLog string

	mu        sync.Mutex
	responses map[string]int // responses seen per request id
	sent      map[string]string
	log       []string // last messages sent, for witnesses
}

var lspDir string // empty working directory for the server

func startSession(c *mon.Case) (*session, error) {
	bin := os.Getenv("VERIF_ELVISH")
	if bin == "" {
		return nil, errors.New("VERIF_ELVISH not set")
	}
	s := &session{c: c, notif: make(chan diagMsg, 4096), other: make(chan string, 64), exited: make(chan struct{}),
		responses: map[string]int{}, sent: map[string]string{}}
	s.errLog = filepath.Join(c.Dir, fmt.Sprintf("lsp-stderr-%s-%d", c.Phase, c.I))
	ef, err := os.Create(s.errLog)
	if err != nil {
		return nil, err
	}
	cmd := exec.Command(bin, "-lsp")
	cmd.Dir = lspDir
	cmd.Env = os.Environ() // exactly the harness's variables ($E: completion lists their names)
	cmd.Stderr = ef
	cmd.SysProcAttr = &syscall.SysProcAttr{Pdeathsig: syscall.SIGKILL}
	stdin, err := cmd.StdinPipe()
	if err != nil {
		ef.Close()
		return nil, err
	}
	stdout, err := cmd.StdoutPipe()
	if err != nil {
		ef.Close()
		return nil, err
	}
	if err := cmd.Start(); err != nil {
		ef.Close()
		return nil, err
	}
	ef.Close()
	s.cmd, s.stdin = cmd, stdin
	h := jsonrpc2.HandlerWithError(func(ctx context.Context, conn *jsonrpc2.Conn, req *jsonrpc2.Request) (any, error) {
		if req.Notif && req.Method == "textDocument/publishDiagnostics" && req.Params != nil {
			var d diagMsg
			if err := json.Unmarshal(*req.Params, &d); err != nil {
				s.other <- "undecodable publishDiagnostics: " + err.Error()
				return nil, nil
			}
			s.notif <- d
			return nil, nil
		}
		select {
		case s.other <- "unexpected message from server: " + req.Method:
		default:
		}
		return nil, &jsonrpc2.Error{Code: jsonrpc2.CodeMethodNotFound, Message: "client has no methods"}
	})
	onRecv := jsonrpc2.OnRecv(func(req *jsonrpc2.Request, resp *jsonrpc2.Response) {
		if resp != nil {
			s.mu.Lock()
			s.responses[resp.ID.String()]++
			s.mu.Unlock()
		}
	})
	stream := jsonrpc2.NewBufferedStream(rwc{stdout, stdin, func() error { stdin.Close(); return nil }}, jsonrpc2.VSCodeObjectCodec{})
	s.conn = jsonrpc2.NewConn(context.Background(), stream, h, onRecv, jsonrpc2.SetLogger(nullLogger{}))
	go func() {
		cmd.Wait()
		close(s.exited)
	}()
	return s, nil
}

type nullLogger struct{}

func (nullLogger) Printf(string, ...any) {}

func (s *session) alive() bool {
	select {
	case <-s.exited:
		return false
	default:
		return true
	}
}

// kill ends the subprocess unconditionally.
func (s *session) kill() {
	if s.cmd != nil && s.cmd.Process != nil {
		s.cmd.Process.Kill()
	}
	if s.conn != nil {
		s.conn.Close()
	}
	select {
	case <-s.exited:
	case <-time.After(10 * time.Second):
	}
	os.Remove(s.errLog)
}

func (s *session) remember(line string) {
	s.mu.Lock()
	s.log = append(s.log, line)
	if len(s.log) > 12 {
		s.log = s.log[len(s.log)-12:]
	}
	s.mu.Unlock()
}

func (s *session) recent() []string {
	s.mu.Lock()
	defer s.mu.Unlock()
	return append([]string(nil), s.log...)
}

var crashRe = regexp.MustCompile(`(?m)^(panic: .*|fatal error: .*)$`)
var frameRe = regexp.MustCompile(`(?m)^(src\.elv\.sh/[^\s(]+(?:\([^)]*\))?[^\s(]*)\(`)
var numRe = regexp.MustCompile(`0x[0-9a-f]+|\d+`)

// crashed reports a dead server as a violation. It returns true if the
// server is dead.
func (s *session) crashed(during string) bool {
	select {
	case <-s.exited:
	case <-time.After(3 * time.Second):
		return false
	}
	b, _ := os.ReadFile(s.errLog)
	txt := string(b)
	msg, frame := "exit without panic message", "?"
	if m := crashRe.FindString(txt); m != "" {
		msg = numRe.ReplaceAllString(m, "N")
		if len(msg) > 100 {
			msg = msg[:100]
		}
	}
	if m := frameRe.FindStringSubmatch(txt); m != nil {
		frame = m[1]
	}
	if len(txt) > 3000 {
		txt = txt[:3000]
	}
	s.c.Violation("crash:"+msg+"@"+frame, "the language server process died during "+during+": "+msg,
		map[string]any{"recent_messages": s.recent(), "stderr": txt})
	return true
}

var errNoReply = errors.New("no reply")

const replyTimeout = 150 * time.Second

// call sends a request and waits for its response. It returns the raw
// result (nil for null), the JSON-RPC error if the reply was an error, and
// ok=false if the session is unusable (server dead or silent).
func (s *session) call(method string, params any) (res json.RawMessage, rpcErr *jsonrpc2.Error, ok bool) {
	pj, _ := json.Marshal(params)
	s.remember(fmt.Sprintf("request %s %s", method, pj))
	ctx, cancel := context.WithTimeout(context.Background(), replyTimeout)
	defer cancel()
	var raw json.RawMessage
	s.c.Count("requests_sent", 1)
	err := s.conn.Call(ctx, method, params, &raw)
	switch {
	case err == nil:
		s.c.Count("responses_result", 1)
		if string(raw) == "null" {
			raw = nil
		}
		return raw, nil, true
	case errors.As(err, &rpcErr):
		s.c.Count("responses_error", 1)
		return nil, rpcErr, true
	case errors.Is(err, context.DeadlineExceeded):
		if !s.crashed(method) {
			s.c.Inconclusive("no-reply-within-timeout:" + method)
		}
		return nil, nil, false
	default:
		// connection closed
		if !s.crashed(method) {
			s.c.Violation("liveness:connection-closed", "the server closed the connection during "+method+": "+err.Error(), map[string]any{"recent_messages": s.recent()})
		}
		return nil, nil, false
	}
}

func (s *session) notify(method string, params any) bool {
	pj, _ := json.Marshal(params)
	if len(pj) > 600 {
		pj = append(pj[:600], "..."...)
	}
	s.remember(fmt.Sprintf("notification %s %s", method, pj))
	if err := s.conn.Notify(context.Background(), method, params); err != nil {
		if !s.crashed(method) {
			s.c.Violation("liveness:connection-closed", "cannot send "+method+": "+err.Error(), map[string]any{"recent_messages": s.recent()})
		}
		return false
	}
	return true
}

// ---------------------------------------------------------------------------
// documents

var lineBreaks = []string{"\n", "\n", "\n", "\r\n", "\r\n", "\r"}

var fillers = []string{"a", "foo", "'x y'", "好", "世界", "'😀'", "😀𝒜", "é", "\"q\\n\"", "1.5", "[a b]", "{ }", "&k=v", "$x", "𝒜", " ", "ß😀ß", "\t", "  ", "# 注释 😀",
	"(", ")", "'", "\"", "[", "{", "}", "]", "|", ">", "$", "&", "\\", "^", "?(", "<>", "\x00", "�", " "}

// documented commands and variables used for hover expectations
var docCmds = []string{"put", "echo", "each", "nop", "all", "range", "str:join", "math:abs", "has-key", "one"}
var docVars = []string{"$nil", "$true", "$false", "$paths", "$pid", "$value-out-indicator", "$num-bg-jobs", "$args"}

type token struct {
	from, to int
	hover    string // name whose documentation a hover inside must show ("" = nothing)
}

type document struct {
	text   string
	ref    *refDoc
	tokens []token // only for structured documents
	kind   string
}

// structuredDoc builds lines `<command> <args…>` with a token table.
func structuredDoc(r *rand.Rand) *document {
	var sb strings.Builder
	var toks []token
	nl := r.Intn(12)
	if r.Intn(4) == 0 {
		nl = r.Intn(31)
	}
	okArgs := []string{"a", "foo", "'x y'", "好", "世界", "'😀'", "😀𝒜", "é", "1.5", "[a b]", "&k=v", "𝒜", "ß😀ß", "' '", "'注 😀'", "'�'"}
	for l := 0; l < nl; l++ {
		if r.Intn(6) == 0 {
			sb.WriteString(strings.Repeat(" ", r.Intn(3)))
		}
		if r.Intn(8) != 0 {
			// head
			if r.Intn(5) == 0 {
				sb.WriteString([]string{"好", "𝒜x", "'😀'", "no-such-command-c44"}[r.Intn(4)])
			} else {
				cmd := docCmds[r.Intn(len(docCmds))]
				toks = append(toks, token{sb.Len(), sb.Len() + len(cmd), cmd})
				sb.WriteString(cmd)
			}
			for a, na := 0, r.Intn(5); a < na; a++ {
				sb.WriteString(strings.Repeat(" ", 1+r.Intn(2)))
				if a == 0 && r.Intn(2) == 0 {
					// an early non-ASCII argument, so that later tokens of the
					// line have UTF-16 columns different from byte columns
					sb.WriteString([]string{"'😀'", "😀𝒜", "𝒜", "ß😀ß", "好", "'注 😀'"}[r.Intn(6)])
				} else if r.Intn(5) < 2 {
					v := docVars[r.Intn(len(docVars))]
					toks = append(toks, token{sb.Len(), sb.Len() + len(v), v})
					sb.WriteString(v)
				} else {
					sb.WriteString(okArgs[r.Intn(len(okArgs))])
				}
			}
			if r.Intn(6) == 0 {
				sb.WriteString(" ")
			}
		}
		if l < nl-1 || r.Intn(2) == 0 {
			sb.WriteString(lineBreaks[r.Intn(len(lineBreaks))])
		}
	}
	t := sb.String()
	return &document{text: t, ref: newRefDoc(t), tokens: toks, kind: "structured"}
}

func junkDoc(r *rand.Rand) *document {
	var sb strings.Builder
	nl := r.Intn(10)
	if r.Intn(5) == 0 {
		nl = r.Intn(31)
	}
	for l := 0; l < nl; l++ {
		switch r.Intn(4) {
		case 0:
			sb.WriteString(gen.ValidUTF8Adv(r, 8))
		case 1:
			s := docCmds[r.Intn(len(docCmds))] + " " + fillers[r.Intn(len(fillers))]
			for k := r.Intn(3); k > 0; k-- {
				s = gen.Mutate(r, s)
			}
			sb.WriteString(strings.ToValidUTF8(s, "�"))
		default:
			for a, na := 0, r.Intn(6); a < na; a++ {
				sb.WriteString(fillers[r.Intn(len(fillers))])
				if r.Intn(3) != 0 {
					sb.WriteString(" ")
				}
			}
		}
		if l < nl-1 || r.Intn(2) == 0 {
			sb.WriteString(lineBreaks[r.Intn(len(lineBreaks))])
		}
	}
	t := strings.ToValidUTF8(sb.String(), "�")
	return &document{text: t, ref: newRefDoc(t), kind: "junk"}
}

func genDoc(r *rand.Rand) *document {
	switch r.Intn(10) {
	case 0:
		return &document{text: "", ref: newRefDoc(""), kind: "empty"}
	case 1, 2, 3, 4, 5:
		return structuredDoc(r)
	default:
		return junkDoc(r)
	}
}

// ---------------------------------------------------------------------------
// oracles

type diagKey struct {
	r   lsp.Range
	msg string
}

func lspPos(p refPos) lsp.Position { return lsp.Position{Line: p.Line, Character: p.Char} }

// expectedDiags computes, in the harness, the parse errors of text and their
// ranges according to reflsp. For error ends that lie inside a CRLF pair both
// defensible positions are returned as alternatives.
func expectedDiags(uri string, d *document) (want []diagKey, alts map[int][]diagKey) {
	_, err := parse.Parse(parse.Source{Name: uri, Code: d.text}, parse.Config{})
	alts = map[int][]diagKey{}
	for i, e := range parse.UnpackErrors(err) {
		conv := func(o int) []lsp.Position {
			if d.ref.insideCRLF(o) {
				a, b := d.ref.posInsideCRLF(o)
				return []lsp.Position{lspPos(a), lspPos(b)}
			}
			if !d.ref.boundary(o) {
				// not at a character boundary: nothing can be demanded
				return nil
			}
			return []lsp.Position{lspPos(d.ref.posOf(o))}
		}
		fs, ts := conv(e.Context.From), conv(e.Context.To)
		if fs == nil || ts == nil {
			alts[i] = nil
			want = append(want, diagKey{msg: e.Message})
			continue
		}
		want = append(want, diagKey{lsp.Range{Start: fs[0], End: ts[0]}, e.Message})
		if len(fs) > 1 || len(ts) > 1 {
			for _, f := range fs {
				for _, t := range ts {
					alts[i] = append(alts[i], diagKey{lsp.Range{Start: f, End: t}, e.Message})
				}
			}
		}
	}
	return want, alts
}

func fmtRange(r lsp.Range) string {
	return fmt.Sprintf("%d:%d-%d:%d", r.Start.Line, r.Start.Character, r.End.Line, r.End.Character)
}

// matchDiags compares a notification with the expectation as multisets.
func matchDiags(got diagMsg, want []diagKey, alts map[int][]diagKey) (string, bool) {
	if len(got.Diagnostics) != len(want) {
		return fmt.Sprintf("%d diagnostics published, the text has %d parse errors", len(got.Diagnostics), len(want)), false
	}
	used := make([]bool, len(got.Diagnostics))
outer:
	for i, w := range want {
		cands := []diagKey{w}
		if a, ok := alts[i]; ok {
			if a == nil { // any range accepted, message must match
				for j, g := range got.Diagnostics {
					if !used[j] && g.Message == w.msg {
						used[j] = true
						continue outer
					}
				}
				return "no diagnostic with message " + mon.Q(w.msg), false
			}
			cands = a
		}
		for j, g := range got.Diagnostics {
			if used[j] {
				continue
			}
			for _, cnd := range cands {
				if g.Range == cnd.r && g.Message == cnd.msg {
					used[j] = true
					continue outer
				}
			}
		}
		var have []string
		for _, g := range got.Diagnostics {
			have = append(have, fmtRange(g.Range)+" "+mon.Q(g.Message))
		}
		return fmt.Sprintf("parse error %s at %s has no matching diagnostic; published: %s", mon.Q(w.msg), fmtRange(w.r), strings.Join(have, "; ")), false
	}
	return "", true
}

func (s *session) hoverParams(uri string, p lsp.Position) any {
	return lsp.TextDocumentPositionParams{TextDocument: lsp.TextDocumentIdentifier{URI: lsp.DocumentURI(uri)}, Position: p}
}

// waitDiag waits for the next publishDiagnostics notification. The wait is
// decided logically: if nothing has arrived after a grace period, the
// harness sends barrier requests; a notification that is still missing after
// 300 answered requests counts as not published.
func (s *session) waitDiag(uri string) (diagMsg, bool) {
	grace := time.After(3 * time.Second)
	select {
	case d := <-s.notif:
		return d, true
	case <-s.exited:
		s.crashed("waiting for diagnostics")
		return diagMsg{}, false
	case <-grace:
	}
	s.c.Count("diag_barrier_used", 1)
	for k := 0; k < 300; k++ {
		if _, _, ok := s.call("textDocument/hover", s.hoverParams(uri, lsp.Position{})); !ok {
			return diagMsg{}, false
		}
		select {
		case d := <-s.notif:
			return d, true
		case <-time.After(100 * time.Millisecond):
		}
	}
	s.c.Violation("diagnostics:not-published", "no publishDiagnostics notification arrived although 300 later requests were answered",
		map[string]any{"uri": uri, "recent_messages": s.recent()})
	return diagMsg{}, false
}

func (s *session) checkDiag(uri string, d *document, how string) bool {
	got, ok := s.waitDiag(uri)
	if !ok {
		return false
	}
	c := s.c
	if got.URI != uri {
		c.Violation("diagnostics:wrong-uri", fmt.Sprintf("diagnostics published for %s after %s of %s", mon.Q(got.URI), how, mon.Q(uri)), map[string]any{"recent_messages": s.recent()})
		return false
	}
	want, alts := expectedDiags(uri, d)
	c.Count("diagnostics_notifications_checked", 1)
	c.Count("diagnostic_ranges_checked", len(want))
	if len(want) > 0 {
		c.Count("notifications_with_errors", 1)
	}
	for _, w := range want {
		if w.r.Start.Line > 0 {
			c.Count("diagnostic_ranges_beyond_first_line", 1)
		}
		if w.r.Start != w.r.End {
			c.Count("diagnostic_ranges_nonempty", 1)
		}
	}
	if why, ok := matchDiags(got, want, alts); !ok {
		sig := "diagnostics:range-mismatch"
		if len(got.Diagnostics) != len(want) {
			sig = "diagnostics:count-mismatch"
		}
		c.Violation(sig, why, map[string]any{"text": mon.Q(d.text), "uri": uri, "how": how})
		return false
	}
	for _, g := range got.Diagnostics {
		if g.Severity != 1 {
			c.Violation("diagnostics:severity", fmt.Sprintf("parse error published with severity %d", g.Severity), map[string]any{"text": mon.Q(d.text)})
			return false
		}
	}
	return true
}

// expected hover content at byte offset o of a structured document.
func (d *document) hoverAt(o int) (string, bool) {
	for _, t := range d.tokens {
		if t.from <= o && o < t.to {
			return t.hover, true
		}
	}
	return "", false
}

var docCache = map[string]string{}

func docOf(name string) string {
	if v, ok := docCache[name]; ok {
		return v
	}
	md, err := doc.Source(name)
	if err != nil {
		md = ""
	}
	docCache[name] = md
	return md
}

// pickPosition returns a position and whether the position is "exact": it
// denotes a character boundary of the text (then off is its byte offset).
func pickPosition(r *rand.Rand, d *document) (p lsp.Position, off int, exact bool, label string) {
	ref := d.ref
	nl := len(ref.starts)
	switch x := r.Intn(20); {
	case x < 11:
		// a character boundary
		var o int
		for tries := 0; ; tries++ {
			o = r.Intn(len(d.text) + 1)
			if ref.boundary(o) {
				break
			}
		}
		if len(d.tokens) > 0 && r.Intn(2) == 0 {
			t := d.tokens[r.Intn(len(d.tokens))]
			o = t.from + r.Intn(t.to-t.from+1)
		}
		return lspPos(ref.posOf(o)), o, true, "boundary"
	case x < 13:
		// start of a line
		l := r.Intn(nl)
		return lsp.Position{Line: l, Character: 0}, ref.starts[l], true, "line-start"
	case x < 15:
		// end of a line
		l := r.Intn(nl)
		return lspPos(ref.posOf(ref.ends[l])), ref.ends[l], true, "line-end"
	case x < 16:
		l := r.Intn(nl)
		pe := ref.posOf(ref.ends[l])
		if r.Intn(2) == 0 {
			// one past the end of a line: "inside" the line break (between CR
			// and LF if the line ends in CRLF)
			for k := 0; k < nl; k++ {
				l2 := (l + k) % nl
				if e := ref.ends[l2]; e+1 < len(d.text) && d.text[e] == '\r' && d.text[e+1] == '\n' {
					pe2 := ref.posOf(e)
					return lsp.Position{Line: l2, Character: pe2.Char + 1}, 0, false, "inside-crlf"
				}
			}
			return lsp.Position{Line: l, Character: pe.Char + 1}, 0, false, "one-past-line-end"
		}
		return lsp.Position{Line: l, Character: pe.Char + 1 + r.Intn(1000)}, 0, false, "past-line-end"
	case x < 17:
		return lsp.Position{Line: nl + r.Intn(1000), Character: r.Intn(50)}, 0, false, "past-last-line"
	case x < 18:
		// between surrogate halves, if the text has an astral character
		var cands []int
		for i, c := range d.text {
			if c > 0xFFFF {
				cands = append(cands, i)
			}
		}
		if len(cands) == 0 {
			return lsp.Position{Line: 0, Character: 1 << 30}, 0, false, "huge"
		}
		o := cands[r.Intn(len(cands))]
		p := ref.posOf(o)
		return lsp.Position{Line: p.Line, Character: p.Char + 1}, 0, false, "inside-surrogate-pair"
	case x < 19:
		return lsp.Position{Line: 1<<31 - 1, Character: 1<<31 - 1}, 0, false, "huge"
	default:
		return lsp.Position{Line: r.Intn(nl + 2), Character: r.Intn(40)}, 0, false, "random"
	}
}

var harnessEv *eval.Evaler

type compItem struct {
	Label    string `json:"label"`
	TextEdit *struct {
		Range   lsp.Range `json:"range"`
		NewText string    `json:"newText"`
	} `json:"textEdit"`
}

func (s *session) doHover(uri string, d *document, r *rand.Rand) bool {
	c := s.c
	p, off, exact, label := pickPosition(r, d)
	if !exact {
		// is it nevertheless exact according to the model?
		if o, ok := d.ref.idxOf(refPos{p.Line, p.Character}); ok {
			off, exact = o, true
		}
	}
	c.Distinct("position_kinds", label)
	res, rpcErr, ok := s.call("textDocument/hover", s.hoverParams(uri, p))
	if !ok {
		return false
	}
	c.Count("hover_requests", 1)
	if rpcErr != nil {
		c.Violation("hover:error-reply", fmt.Sprintf("hover in an open document answered with error %d %s", rpcErr.Code, rpcErr.Message), map[string]any{"text": mon.Q(d.text), "position": p})
		return true
	}
	if !exact || d.kind != "structured" {
		return true
	}
	name, inTok := d.hoverAt(off)
	want := ""
	if inTok {
		want = docOf(name)
	}
	got := ""
	if res != nil {
		var h struct {
			Contents struct {
				Kind  string `json:"kind"`
				Value string `json:"value"`
			} `json:"contents"`
		}
		if err := json.Unmarshal(res, &h); err != nil {
			c.Violation("hover:undecodable", "hover result is not a Hover object: "+err.Error(), map[string]any{"result": string(res)})
			return true
		}
		got = h.Contents.Value
	}
	c.Count("hover_positions_checked", 1)
	if inTok && want != "" {
		c.Count("hover_on_documented_symbol", 1)
		if p.Character > off-d.ref.starts[p.Line] {
			// cannot happen (UTF-16 units never exceed bytes)
		}
		if off-d.ref.starts[p.Line] != p.Character {
			c.Count("hover_after_non_ascii", 1)
		}
	}
	if got != want {
		sig := "hover:wrong-symbol"
		// Narrow class: the first character of a line that follows CRLF.
		if off == d.ref.starts[p.Line] && p.Line > 0 && off >= 2 && d.text[off-2:off] == "\r\n" && got == "" {
			sig = "position:line-start-after-crlf"
		}
		c.Violation(sig, fmt.Sprintf("hover at %d:%d (byte offset %d, inside %s) shows %s, expected %s", p.Line, p.Character, off, mon.Q(name), mon.Q(firstLine(got)), mon.Q(firstLine(want))),
			map[string]any{"text": mon.Q(d.text), "position": p, "offset": off})
	}
	return true
}

func firstLine(s string) string {
	if i := strings.IndexByte(s, '\n'); i >= 0 {
		s = s[:i]
	}
	if len(s) > 80 {
		s = s[:80]
	}
	return s
}

func (s *session) doCompletion(uri string, d *document, r *rand.Rand) bool {
	c := s.c
	p, off, exact, label := pickPosition(r, d)
	if !exact {
		if o, ok := d.ref.idxOf(refPos{p.Line, p.Character}); ok {
			off, exact = o, true
		}
	}
	c.Distinct("position_kinds", label)
	params := lsp.CompletionParams{TextDocumentPositionParams: lsp.TextDocumentPositionParams{
		TextDocument: lsp.TextDocumentIdentifier{URI: lsp.DocumentURI(uri)}, Position: p}}
	res, rpcErr, ok := s.call("textDocument/completion", params)
	if !ok {
		return false
	}
	c.Count("completion_requests", 1)
	if rpcErr != nil {
		c.Violation("completion:error-reply", fmt.Sprintf("completion in an open document answered with error %d %s", rpcErr.Code, rpcErr.Message), map[string]any{"text": mon.Q(d.text), "position": p})
		return true
	}
	var items []compItem
	if res != nil {
		if err := json.Unmarshal(res, &items); err != nil {
			c.Violation("completion:undecodable", "completion result is not a list of items: "+err.Error(), map[string]any{"result": string(res[:min(len(res), 300)])})
			return true
		}
	}
	if !exact {
		return true
	}
	// The same completion computed in the harness at the byte offset the
	// position denotes; its replace range converted with reflsp.
	want, err := complete.Complete(complete.CodeBuffer{Content: d.text, Dot: off}, harnessEv, complete.Config{})
	c.Count("completion_positions_checked", 1)
	wit := func() map[string]any {
		return map[string]any{"text": mon.Q(d.text), "position": p, "offset": off, "items_received": len(items)}
	}
	afterCRLF := off == d.ref.starts[p.Line] && p.Line > 0 && off >= 2 && d.text[off-2:off] == "\r\n"
	sigOf := func(s string) string {
		if afterCRLF {
			return "position:line-start-after-crlf"
		}
		return s
	}
	if err != nil || want == nil {
		if len(items) != 0 {
			c.Violation(sigOf("completion:items-differ"), fmt.Sprintf("completion at %d:%d (offset %d) returns %d items; there is no completion at that offset", p.Line, p.Character, off, len(items)), wit())
		}
		return true
	}
	if len(items) != len(want.Items) {
		c.Violation(sigOf("completion:items-differ"), fmt.Sprintf("completion at %d:%d (offset %d) returns %d items, completion at that offset has %d", p.Line, p.Character, off, len(items), len(want.Items)), wit())
		return true
	}
	if len(items) == 0 {
		return true
	}
	rg := want.Replace
	if !d.ref.boundary(rg.From) || !d.ref.boundary(rg.To) {
		return true
	}
	wr := lsp.Range{Start: lspPos(d.ref.posOf(rg.From)), End: lspPos(d.ref.posOf(rg.To))}
	c.Count("completion_ranges_checked", 1)
	if wr.Start.Line > 0 {
		c.Count("completion_ranges_beyond_first_line", 1)
	}
	if rg.From-d.ref.starts[wr.Start.Line] != wr.Start.Character {
		c.Count("completion_ranges_after_non_ascii", 1)
	}
	for i, it := range items {
		if it.TextEdit == nil {
			c.Violation("completion:no-text-edit", "completion item without textEdit", wit())
			return true
		}
		if it.TextEdit.NewText != want.Items[i].ToInsert {
			c.Violation(sigOf("completion:items-differ"), fmt.Sprintf("item %d inserts %s, completion at offset %d inserts %s", i, mon.Q(it.TextEdit.NewText), off, mon.Q(want.Items[i].ToInsert)), wit())
			return true
		}
		if it.TextEdit.Range != wr {
			c.Violation(sigOf("completion:edit-range"), fmt.Sprintf("completion at %d:%d: edit range %s, the replaced bytes [%d,%d) are at %s", p.Line, p.Character, fmtRange(it.TextEdit.Range), rg.From, rg.To, fmtRange(wr)), wit())
			return true
		}
	}
	return true
}

// ---------------------------------------------------------------------------
// phases

var uriPool = []string{"file:///c44/a.elv", "file:///c44/b.elv", "file:///tmp/dir%20with%20space/c.elv", "file:///c44/%E5%A5%BD.elv", "untitled:Untitled-1"}

func (s *session) initialize() bool {
	res, rpcErr, ok := s.call("initialize", map[string]any{"processId": nil, "rootUri": nil, "capabilities": map[string]any{}})
	if !ok {
		return false
	}
	if rpcErr != nil || res == nil || !strings.Contains(string(res), "capabilities") {
		s.c.Violation("initialize:bad-reply", fmt.Sprintf("initialize answered with %s / %v", string(res), rpcErr), nil)
		return false
	}
	return s.notify("initialized", map[string]any{})
}

// finish: the final round trip and exactly-once accounting.
func (s *session) finish(uri string) {
	c := s.c
	_, rpcErr, ok := s.call("textDocument/hover", s.hoverParams(uri, lsp.Position{}))
	if !ok {
		return
	}
	if rpcErr != nil && uri != "" {
		c.Violation("liveness:final-hover", fmt.Sprintf("final hover at 0:0 answered with error %d %s", rpcErr.Code, rpcErr.Message), map[string]any{"recent_messages": s.recent()})
	}
	if !s.alive() {
		s.crashed("end of session")
		return
	}
	s.mu.Lock()
	for id, n := range s.responses {
		if n != 1 {
			c.Violation("liveness:duplicate-response", fmt.Sprintf("request id %s received %d responses", id, n), nil)
		}
	}
	s.mu.Unlock()
	select {
	case m := <-s.other:
		c.Violation("protocol:unexpected-message", m, nil)
	default:
	}
	c.Count("sessions_completed", 1)
}

func runSession(c *mon.Case) {
	r := c.Rand
	s, err := startSession(c)
	if err != nil {
		c.Inconclusive("start:" + err.Error())
		return
	}
	defer s.kill()
	if !s.initialize() {
		return
	}
	docs := map[string]*document{}
	versions := map[string]int{}
	var open []string
	lastURI := ""
	steps := 60
	for st := 0; st < steps; st++ {
		k := r.Intn(20)
		if len(open) == 0 {
			k = 0
		}
		switch {
		case k < 3: // open
			uri := uriPool[r.Intn(len(uriPool))]
			if _, isOpen := docs[uri]; isOpen {
				uri = fmt.Sprintf("file:///c44/gen-%d.elv", st)
			}
			d := genDoc(r)
			versions[uri] = 1
			if !s.notify("textDocument/didOpen", lsp.DidOpenTextDocumentParams{TextDocument: lsp.TextDocumentItem{URI: lsp.DocumentURI(uri), LanguageID: "elvish", Version: 1, Text: d.text}}) {
				return
			}
			docs[uri] = d
			open = append(open, uri)
			lastURI = uri
			c.Count("documents_opened", 1)
			noteDoc(c, d)
			if !s.checkDiag(uri, d, "didOpen") {
				return
			}
		case k < 7: // change
			uri := open[r.Intn(len(open))]
			d := genDoc(r)
			if r.Intn(3) == 0 {
				// small edit of the current text
				t := strings.ToValidUTF8(gen.Mutate(r, docs[uri].text), "�")
				d = &document{text: t, ref: newRefDoc(t), kind: "junk"}
			}
			versions[uri]++
			params := lsp.DidChangeTextDocumentParams{
				TextDocument:   lsp.VersionedTextDocumentIdentifier{TextDocumentIdentifier: lsp.TextDocumentIdentifier{URI: lsp.DocumentURI(uri)}, Version: versions[uri]},
				ContentChanges: []lsp.TextDocumentContentChangeEvent{{Text: d.text}}}
			if !s.notify("textDocument/didChange", params) {
				return
			}
			docs[uri] = d
			lastURI = uri
			c.Count("documents_changed", 1)
			noteDoc(c, d)
			if !s.checkDiag(uri, d, "didChange") {
				return
			}
		case k < 13: // hover
			uri := open[r.Intn(len(open))]
			if !s.doHover(uri, docs[uri], r) {
				return
			}
		case k < 18: // completion
			uri := open[r.Intn(len(open))]
			if !s.doCompletion(uri, docs[uri], r) {
				return
			}
		case k < 19: // requests that must be answered with an error
			var ok bool
			switch r.Intn(4) {
			case 0:
				_, _, ok = s.call("textDocument/hover", s.hoverParams("file:///c44/never-opened.elv", lsp.Position{Line: r.Intn(3), Character: r.Intn(3)}))
			case 1:
				_, _, ok = s.call("c44/noSuchMethod", map[string]any{"x": 1})
			case 2:
				_, _, ok = s.call("textDocument/completion", map[string]any{"textDocument": map[string]any{"uri": open[0]}, "position": map[string]any{"line": "x", "character": 1.5}})
			default:
				_, _, ok = s.call("textDocument/hover", map[string]any{"textDocument": 7})
			}
			if !ok {
				return
			}
			c.Count("error_probe_requests", 1)
		default: // close and reopen later
			if len(open) > 1 {
				i := r.Intn(len(open))
				uri := open[i]
				if !s.notify("textDocument/didClose", lsp.DidCloseTextDocumentParams{TextDocument: lsp.TextDocumentIdentifier{URI: lsp.DocumentURI(uri)}}) {
					return
				}
				open = append(open[:i], open[i+1:]...)
				delete(docs, uri)
				if lastURI == uri {
					lastURI = open[0]
				}
			}
		}
		if !s.alive() {
			s.crashed("session step")
			return
		}
	}
	c.Nontrivial(c.I, len(open), lastURI)
	s.finish(lastURI)
}

func noteDoc(c *mon.Case, d *document) {
	hasCRLF, hasCR, hasAstral, hasBMP := false, false, false, false
	for i, r := range d.text {
		switch {
		case r == '\r' && i+1 < len(d.text) && d.text[i+1] == '\n':
			hasCRLF = true
		case r == '\r':
			hasCR = true
		case r > 0xFFFF:
			hasAstral = true
		case r >= 0x80:
			hasBMP = true
		}
	}
	if hasCRLF {
		c.Count("documents_with_crlf", 1)
	}
	if hasCR {
		c.Count("documents_with_lone_cr", 1)
	}
	if hasAstral {
		c.Count("documents_with_astral", 1)
	}
	if hasBMP {
		c.Count("documents_with_bmp", 1)
	}
	c.Max("max_lines", len(d.ref.starts))
	if len(c.Env.Spec.ID) > 0 && d.kind == "structured" && len(d.text) > 20 {
		c.Sample("document", map[string]any{"text": mon.Q(d.text)})
	}
}

// runStress pipelines changes and requests without waiting; only liveness
// and "every notification is the diagnostics of some version sent" are
// asserted.
func runStress(c *mon.Case) {
	r := c.Rand
	s, err := startSession(c)
	if err != nil {
		c.Inconclusive("start:" + err.Error())
		return
	}
	defer s.kill()
	if !s.initialize() {
		return
	}
	uris := uriPool[:2+r.Intn(2)]
	versions := map[string][]*document{}
	updates := 0
	var waiters []jsonrpc2.Waiter
	var methods []string
	n := 40 + r.Intn(80)
	for i := 0; i < n; i++ {
		uri := uris[r.Intn(len(uris))]
		switch k := r.Intn(10); {
		case k < 5 || len(versions[uri]) == 0:
			d := genDoc(r)
			var err error
			if len(versions[uri]) == 0 {
				err = s.conn.Notify(context.Background(), "textDocument/didOpen", lsp.DidOpenTextDocumentParams{TextDocument: lsp.TextDocumentItem{URI: lsp.DocumentURI(uri), LanguageID: "elvish", Version: 1, Text: d.text}})
			} else {
				err = s.conn.Notify(context.Background(), "textDocument/didChange", lsp.DidChangeTextDocumentParams{
					TextDocument:   lsp.VersionedTextDocumentIdentifier{TextDocumentIdentifier: lsp.TextDocumentIdentifier{URI: lsp.DocumentURI(uri)}, Version: len(versions[uri]) + 1},
					ContentChanges: []lsp.TextDocumentContentChangeEvent{{Text: d.text}}})
			}
			if err != nil {
				if !s.crashed("pipelined update") {
					c.Violation("liveness:connection-closed", "cannot send update: "+err.Error(), nil)
				}
				return
			}
			versions[uri] = append(versions[uri], d)
			updates++
		default:
			ds := versions[uri]
			d := ds[len(ds)-1]
			p, _, _, _ := pickPosition(r, d)
			method := "textDocument/hover"
			var params any = s.hoverParams(uri, p)
			if k >= 8 {
				method = "textDocument/completion"
				params = lsp.CompletionParams{TextDocumentPositionParams: lsp.TextDocumentPositionParams{TextDocument: lsp.TextDocumentIdentifier{URI: lsp.DocumentURI(uri)}, Position: p}}
			}
			w, err := s.conn.DispatchCall(context.Background(), method, params)
			if err != nil {
				if !s.crashed("pipelined request") {
					c.Violation("liveness:connection-closed", "cannot send request: "+err.Error(), nil)
				}
				return
			}
			c.Count("requests_sent", 1)
			waiters = append(waiters, w)
			methods = append(methods, method)
		}
	}
	c.Count("pipelined_updates", updates)
	for i, w := range waiters {
		ctx, cancel := context.WithTimeout(context.Background(), replyTimeout)
		var raw json.RawMessage
		err := w.Wait(ctx, &raw)
		cancel()
		var rpcErr *jsonrpc2.Error
		switch {
		case err == nil:
			c.Count("responses_result", 1)
		case errors.As(err, &rpcErr):
			c.Count("responses_error", 1)
			c.Violation("stress:error-reply", fmt.Sprintf("pipelined %s answered with error %d %s", methods[i], rpcErr.Code, rpcErr.Message), nil)
			return
		case errors.Is(err, context.DeadlineExceeded):
			if !s.crashed("pipelined " + methods[i]) {
				c.Inconclusive("no-reply-within-timeout:pipelined")
			}
			return
		default:
			if !s.crashed("pipelined " + methods[i]) {
				c.Violation("liveness:connection-closed", "connection closed while waiting for "+methods[i]+": "+err.Error(), nil)
			}
			return
		}
	}
	c.Count("pipelined_requests_answered", len(waiters))
	// collect the notifications: one per update
	got := 0
	for got < updates {
		d, ok := s.waitDiag(uris[0])
		if !ok {
			return
		}
		got++
		ds, known := versions[d.URI]
		if !known {
			c.Violation("diagnostics:wrong-uri", "pipelined: diagnostics for a URI that was never sent: "+mon.Q(d.URI), nil)
			return
		}
		match := false
		for _, v := range ds {
			want, alts := expectedDiags(d.URI, v)
			if _, ok := matchDiags(d, want, alts); ok {
				match = true
				break
			}
		}
		if !match {
			var have []string
			for _, g := range d.Diagnostics {
				have = append(have, fmtRange(g.Range)+" "+mon.Q(g.Message))
			}
			c.Violation("stress:diagnostics-of-no-version", fmt.Sprintf("pipelined: a notification for %s equals the diagnostics of none of the %d versions sent: %s", d.URI, len(ds), strings.Join(have, "; ")), nil)
			return
		}
		c.Count("pipelined_notifications_matched", 1)
	}
	c.Nontrivial("stress", c.I, updates, len(waiters))
	s.finish(uris[0])
}

// ---------------------------------------------------------------------------

func childSetup(e *mon.Env) {
	// Server and harness must see the same (small) world for completion:
	// an empty working directory each and a PATH with three commands.
	lspDir = filepath.Join(e.Scratch, "lsp-cwd")
	own := filepath.Join(e.Scratch, "harness-cwd")
	bin := filepath.Join(e.Scratch, "bin")
	for _, d := range []string{lspDir, own, bin} {
		os.MkdirAll(d, 0o755)
	}
	for _, n := range []string{"c44-cmd", "好cmd", "x y"} {
		os.WriteFile(filepath.Join(bin, n), []byte("#!/bin/sh\n"), 0o755)
	}
	os.Setenv("PATH", bin)
	os.Setenv("PWD", own)
	os.Chdir(own)
	harnessEv = eval.NewEvaler()
	_ = sort.Strings
	_ = utf8.RuneLen
}

func Spec() *mon.Spec {
	return &mon.Spec{
		ID: "C44", Level: "exploration",
		Rule: "session phase: case = one `elvish -lsp` subprocess driven over pipes (sourcegraph/jsonrpc2, VSCode codec) with initialize + 60 steps drawn from didOpen / full-text didChange (each followed by waiting for its publishDiagnostics) / hover / completion / requests that must be answered with an error / didClose, over documents of 0..30 lines mixing ASCII, BMP and astral characters with LF, CR and CRLF breaks (structured `command args` documents with a token table, and invalid Elvish built from adversarial pieces and mutations); positions are character boundaries, line starts/ends, past the line end, past the last line, between surrogate halves, huge. stress phase: 40..120 pipelined updates and requests without waiting. Non-trivial = session that reached its final round trip; distinct by case index and documents.",
		Assumptions: []string{
			"requests without params and didChange with an empty change list are not sent (protocol-invalid, excluded by the property's scope)",
			"positions that are not exact (past the end of a line, past the last line, between surrogate halves) are checked for liveness only; the LSP clamping rule is not demanded",
			"a parse error boundary that lies between CR and LF may be reported as the end of the line or the start of the next line",
			"hover expectations are only made for structured documents whose tokens the harness laid out itself: inside a documented command head or variable the hover must be doc.Source(name), elsewhere null",
			"completion expectation = complete.Complete run in the harness at the byte offset the position denotes (same PATH, empty working directories); only the position mapping is under test there",
			"a missing publishDiagnostics is reported only after 300 later requests were answered (logical barrier); a request unanswered for 150 s with the process alive is inconclusive",
			"order of notifications is not demanded in the pipelined phase (the property does not state it)",
		},
		Phases: []mon.Phase{
			{Name: "session", Quick: 220, Thorough: 1500, Run: runSession, Timeout: 400 * time.Second},
			{Name: "stress", Quick: 50, Thorough: 300, Run: runStress, Timeout: 400 * time.Second},
		},
		ChildSetup: childSetup,
		Floors: map[string]int{"sessions_completed": 150, "diagnostics_notifications_checked": 1200, "diagnostic_ranges_checked": 700,
			"diagnostic_ranges_beyond_first_line": 350, "diagnostic_ranges_nonempty": 350, "hover_positions_checked": 250, "hover_on_documented_symbol": 150,
			"hover_after_non_ascii": 40, "completion_positions_checked": 600, "completion_ranges_checked": 300, "completion_ranges_after_non_ascii": 40,
			"documents_with_crlf": 800, "documents_with_lone_cr": 600, "documents_with_astral": 700, "pipelined_notifications_matched": 600,
			"pipelined_requests_answered": 600, "error_probe_requests": 150},
	}
}
