// Package c12 monitors Elvish's inexact arithmetic (property C12): + - * /,
// the math: rounding functions, inexact-num and exact-num on floating-point
// arguments (mixed with exact numbers of every representation) are compared
// bit for bit with an independent IEEE-754 evaluation (internal/model/refnum).
package c12

import (
	"fmt"
	"math"
	"math/big"
	"math/rand"
	"strings"

	"verifharness/internal/model/refnum"
	"verifharness/internal/mon"
	"verifharness/internal/numcall"
)

var caller *numcall.Caller
var sampled = map[string]bool{} // per process; cases run one after the other

const callsPerCase = 40

type call struct {
	op   string
	args []numcall.Arg
	want refnum.Outcome
}

func vals(args []numcall.Arg) []refnum.Val {
	vs := make([]refnum.Val, len(args))
	for i, a := range args {
		vs[i] = a.V
	}
	return vs
}

func floatArg(r *rand.Rand) numcall.Arg {
	f, class := numcall.Float(r)
	return numcall.FloatArg(r, f, class, 25)
}

func exactArg(r *rand.Rand) numcall.Arg {
	x, class := numcall.Exact(r, true)
	return numcall.ExactArg(r, x, class, 30)
}

var negZero = math.Copysign(0, -1)

func genArith(r *rand.Rand) call {
	op := []string{"+", "-", "*", "/"}[r.Intn(4)]
	n := 1 + r.Intn(6)
	args := make([]numcall.Arg, n)
	switch k := r.Intn(100); {
	case k < 6: // only signed zeros: the identity element of the fold decides the sign
		for i := range args {
			z := 0.0
			if r.Intn(2) == 0 {
				z = negZero
			}
			args[i] = numcall.FloatArg(r, z, "zero", 25)
		}
	case k < 12: // only specials
		sp := []float64{0, negZero, math.Inf(1), math.Inf(-1), math.NaN(), 1, -1, math.MaxFloat64, -math.MaxFloat64, 5e-324}
		for i := range args {
			args[i] = numcall.FloatArg(r, sp[r.Intn(len(sp))], "special", 25)
		}
	default:
		exactPct := []int{0, 20, 50, 80}[r.Intn(4)]
		for i := range args {
			if r.Intn(100) < exactPct {
				args[i] = exactArg(r)
			} else {
				args[i] = floatArg(r)
			}
		}
		// at least one inexact argument
		hasFloat := false
		for _, a := range args {
			if !a.V.Exact {
				hasFloat = true
			}
		}
		if !hasFloat {
			args[r.Intn(n)] = floatArg(r)
		}
		// related doubles: x and x, x and -x, x and its neighbour (cancellation, 0 results, Inf-Inf)
		if n >= 2 && r.Intn(4) == 0 {
			i, j := r.Intn(n), r.Intn(n)
			if i != j && !args[i].V.Exact {
				f := args[i].V.F
				switch r.Intn(4) {
				case 0:
					args[j] = numcall.FloatArg(r, f, "related", 25)
				case 1:
					args[j] = numcall.FloatArg(r, -f, "related", 25)
				case 2:
					args[j] = numcall.FloatArg(r, math.Float64frombits(math.Float64bits(f)^1), "related", 25)
				default: // the exact value of the double as an exact argument
					if refnum.Finite(f) {
						args[j] = numcall.ExactArg(r, refnum.ExactOfDouble(f), "exact-of-double", 10)
					}
				}
			}
		}
	}
	return call{op: op, args: args, want: refnum.Arith(op, vals(args))}
}

var unaryOps = []string{"abs", "ceil", "floor", "round", "round-to-even", "trunc"}

func genUnary(r *rand.Rand) call {
	op := unaryOps[r.Intn(len(unaryOps))]
	arg := floatArg(r)
	return call{op: "math:" + op, args: []numcall.Arg{arg}, want: refnum.Unary(op, arg.V)}
}

func genConvert(r *rand.Rand) call {
	if r.Intn(2) == 0 {
		var arg numcall.Arg
		if r.Intn(5) == 0 {
			arg = floatArg(r)
		} else {
			arg = exactArg(r)
		}
		return call{op: "inexact-num", args: []numcall.Arg{arg}, want: refnum.InexactNum(arg.V)}
	}
	var arg numcall.Arg
	if r.Intn(6) == 0 {
		arg = exactArg(r)
	} else {
		arg = floatArg(r)
	}
	return call{op: "exact-num", args: []numcall.Arg{arg}, want: refnum.ExactNum(arg.V)}
}

func gen(r *rand.Rand, family int) call {
	switch family % 8 {
	case 0, 1, 2, 3:
		return genArith(r)
	case 4, 5:
		return genUnary(r)
	default:
		return genConvert(r)
	}
}

func quote(s string) string { return "'" + strings.ReplaceAll(s, "'", "''") + "'" }

func source(r *rand.Rand, cl call) (string, map[string]any) {
	vars := map[string]any{}
	var sb strings.Builder
	sb.WriteString(cl.op)
	for i, a := range cl.args {
		sb.WriteByte(' ')
		switch s, isStr := a.Go.(string); {
		case r.Intn(2) == 0:
			name := fmt.Sprintf("a%d", i)
			vars[name] = a.Go
			sb.WriteString("$" + name)
		case isStr && r.Intn(2) == 0:
			sb.WriteString(s)
		case isStr:
			sb.WriteString(quote(s))
		case a.V.Exact:
			sb.WriteString("(num " + numcall.ExactString(r, a.V.R) + ")")
		default:
			sb.WriteString("(num " + numcall.FloatString(r, a.V.F) + ")")
		}
	}
	return sb.String(), vars
}

func special(f float64) bool {
	if !refnum.Finite(f) || f == 0 {
		return true
	}
	return (math.Float64bits(f)>>52)&2047 == 0 // subnormal
}

var two53 = new(big.Rat).SetInt(new(big.Int).Lsh(big.NewInt(1), 53))

func runCalls(c *mon.Case, viaSource bool) {
	r := c.Rand
	for k := 0; k < callsPerCase; k++ {
		cl := gen(r, c.I+k)
		before := numcall.Snapshot(cl.args)
		var res numcall.Result
		var src string
		if viaSource {
			var vars map[string]any
			src, vars = source(r, cl)
			res = caller.Eval(src, vars)
		} else {
			goArgs := make([]any, len(cl.args))
			for i, a := range cl.args {
				goArgs[i] = a.Go
			}
			res = caller.Call(cl.op, goArgs, nil)
		}
		after := numcall.Snapshot(cl.args)
		c.Evals(1)
		op := strings.TrimPrefix(cl.op, "math:")
		witness := func() map[string]any {
			w := map[string]any{"command": cl.op, "args": before, "args_shown": numcall.ShowAll(goVals(cl.args)), "rule": cl.want.Rule, "call_in_case": k}
			if viaSource {
				w["source"] = src
			}
			if res.Panic != nil {
				w["stack"] = res.Stack
			}
			return w
		}
		if v := numcall.Judge(cl.want, res); v.Class != "" {
			c.Violation(op+":"+v.Class, fmt.Sprintf("%s %v: %s", cl.op, numcall.ShowAll(goVals(cl.args)), v.What), witness())
		}
		for i := range before {
			if before[i] != after[i] {
				c.Violation(op+":argument-mutated", fmt.Sprintf("%s changed its argument #%d from %s to %s", cl.op, i, before[i], after[i]), witness())
			}
		}
		account(c, cl, res, viaSource)
	}
}

func goVals(args []numcall.Arg) []any {
	out := make([]any, len(args))
	for i, a := range args {
		out[i] = a.Go
	}
	return out
}

func account(c *mon.Case, cl call, res numcall.Result, viaSource bool) {
	op := strings.TrimPrefix(cl.op, "math:")
	c.Count("calls_"+op, 1)
	nontrivial := false
	nExact, nFloat, strs := 0, 0, 0
	allNegZero, allZero := true, true
	for _, a := range cl.args {
		c.Distinct("arg_classes", a.Class)
		if _, ok := a.Go.(string); ok {
			strs++
		}
		if a.V.Exact {
			nExact++
			allNegZero, allZero = false, false
			abs := new(big.Rat).Abs(a.V.R)
			if !a.V.R.IsInt() || abs.Cmp(two53) > 0 {
				nontrivial = true
			}
			if a.V.R.IsInt() && !refnum.FitsInt64(a.V.R.Num()) {
				c.Count("exact_args_outside_int64_become_inf", 1)
			} else if f := refnum.NearestDouble(a.V.R); !refnum.Finite(f) {
				c.Count("rational_args_rounding_to_inf", 1)
			} else if f == 0 && a.V.R.Sign() != 0 {
				c.Count("rational_args_rounding_to_zero", 1)
			} else if refnum.ExactOfDouble(f).Cmp(a.V.R) != 0 {
				c.Count("exact_args_needing_rounding", 1)
				if special(f) {
					c.Count("exact_args_rounding_to_subnormal", 1)
				}
			}
			continue
		}
		nFloat++
		if special(a.V.F) {
			nontrivial = true
		}
		if a.V.F != 0 {
			allZero, allNegZero = false, false
		} else if !math.Signbit(a.V.F) {
			allNegZero = false
		}
	}
	c.Count("string_args", strs)
	if nExact > 0 && nFloat > 0 {
		c.Count("calls_mixing_exact_and_inexact", 1)
	}
	if cl.want.Raise {
		c.Count("expected_exceptions", 1)
		c.Count("expected_exception_"+cl.want.Rule, 1)
		nontrivial = true
	} else if cl.want.Rule != "" {
		c.Count("exact_zero_rule_applies_"+cl.want.Rule, 1)
	}
	for _, w := range cl.want.Vals {
		if w.Exact {
			c.Count("expected_exact_results", 1)
			continue
		}
		switch {
		case w.F != w.F:
			c.Count("expected_nan_results", 1)
			nontrivial = true
		case !refnum.Finite(w.F):
			c.Count("expected_inf_results", 1)
			nontrivial = true
		case w.F == 0 && math.Signbit(w.F):
			c.Count("expected_negative_zero_results", 1)
			nontrivial = true
		case w.F == 0:
			c.Count("expected_positive_zero_results", 1)
			nontrivial = true
		case special(w.F):
			c.Count("expected_subnormal_results", 1)
			nontrivial = true
		}
	}
	if nFloat == len(cl.args) && allZero {
		switch {
		case cl.op == "+" && allNegZero:
			c.Count("sum_of_only_negative_zeros", 1)
		case cl.op == "*" && len(cl.args) == 1:
			c.Count("product_of_single_zero", 1)
		case cl.op == "-" && len(cl.args) == 1:
			c.Count("negation_of_zero", 1)
		case cl.op == "/" && len(cl.args) == 1:
			c.Count("reciprocal_of_zero", 1)
		}
	}
	if viaSource {
		c.Count("calls_via_source", 1)
	}
	if nontrivial {
		key := []any{cl.op}
		for _, a := range cl.args {
			key = append(key, numcall.Full(a.Go))
		}
		c.Nontrivial(key...)
		if !sampled[op] {
			sampled[op] = true
			c.Sample(op, map[string]any{"command": cl.op, "args": numcall.ShowAll(goVals(cl.args)), "got": numcall.ShowAll(res.Out), "raised": res.Err != nil})
		}
	}
}

func Spec() *mon.Spec {
	return &mon.Spec{
		ID:            "C12",
		SpinViolation: true, Level: "exploration",
		Rule: "case = 40 calls; command family fixed by the case index (+ - * / 1/2, math:abs/ceil/floor/round/round-to-even/trunc 1/4, inexact-num / exact-num 1/4). " +
			"Doubles are drawn from bit patterns: ±0, ±Inf, NaNs with random payloads, subnormals, the limits of the range, powers of two, neighbours of 2^31/2^32/2^52/2^53/2^62/2^63/2^64, k+0.5 and its two neighbours (0.49999999999999994 …), small integers, decimal classics, random mantissas with moderate exponents, few-bit mantissas, fully random bits; pairs of related doubles (x,x), (x,-x), (x, neighbour of x), (x, the exact value of x as an exact argument). " +
			"Exact arguments come from all three representations incl. integers in (2^63,2^70), rationals whose numerator and denominator need 54..63 bits, rationals around the overflow threshold 2^1024-2^970, around half the smallest subnormal, and exact midpoints between adjacent doubles ± 2^-1200; arguments are passed typed or as documented strings. + - * / get 1..6 arguments with at least one double (6 % only signed zeros, 6 % only special values). " +
			"Oracle: exact arguments are converted by the documented rule (nearest double, ties to even, computed in integer arithmetic; integers outside int64 -> ±Inf), then + folds from 0, * from 1, - and / from the first argument (alone: sign flip / 1/x) in Go float64 arithmetic; rounding functions and exact-num are derived from the bit representation; results are compared bit for bit (all NaNs identified); the documented exact-zero rules of * and / and the exact-zero-divisor exception take precedence. " +
			"Non-trivial = call with a special double (±0, ±Inf, NaN, subnormal) among arguments or expected results, an exact argument that is not an integer of magnitude <= 2^53, or an expected exception; distinct by command + arguments as passed.",
		Assumptions: []string{
			"Go's float64 + - * / on amd64 are single IEEE-754 binary64 operations (no fused multiply-add); the model relies on them for the four basic operations only",
			"all NaNs are identified (payload and sign of a NaN are not compared)",
			"`/ 0` (a single exact zero) is contradictory in the documentation; both outcomes are accepted (see C11)",
			"math:min, math:max, math:pow and range with inexact arguments are not part of this property and are not generated",
			"string arguments use only the documented floating-point syntax (decimal point or exponent, +Inf, -Inf, NaN, any case)",
			"int is 64 bits wide on the platform running the check (asserted at start-up)",
		},
		ChildSetup: func(e *mon.Env) { caller = numcall.New() },
		Phases: []mon.Phase{
			{Name: "direct", Quick: 20000, Thorough: 120000, Batch: 250, Run: func(c *mon.Case) { runCalls(c, false) }},
			{Name: "source", Quick: 1500, Thorough: 10000, Batch: 32, Run: func(c *mon.Case) { runCalls(c, true) }},
		},
		Floors: map[string]int{
			"distinct_nontrivial": 30000, "calls_+": 8000, "calls_-": 8000, "calls_*": 8000, "calls_/": 8000,
			"calls_abs": 2500, "calls_ceil": 2500, "calls_floor": 2500, "calls_round": 2500, "calls_round-to-even": 2500, "calls_trunc": 2500,
			"calls_exact-num": 8000, "calls_inexact-num": 8000, "calls_mixing_exact_and_inexact": 15000,
			"exact_args_outside_int64_become_inf": 8000, "exact_args_needing_rounding": 15000, "exact_args_rounding_to_subnormal": 1000,
			"rational_args_rounding_to_inf": 800, "rational_args_rounding_to_zero": 300,
			"expected_negative_zero_results": 4000, "expected_subnormal_results": 1200, "expected_nan_results": 8000, "expected_inf_results": 10000,
			"sum_of_only_negative_zeros": 100, "negation_of_zero": 150, "reciprocal_of_zero": 150, "product_of_single_zero": 150,
			"expected_exception_exact-num-nonfinite": 800, "calls_via_source": 6000, "string_args": 40000,
		},
	}
}
