// Package c11 monitors Elvish's exact arithmetic (property C11): + - * / %
// range and math:{abs,ceil,floor,round,round-to-even,trunc,min,max,pow} on
// exact arguments are compared, value and dynamic Go type, with a reference
// model over math/big.Rat written from the documentation
// (internal/model/refnum).
package c11

import (
	"fmt"
	"math/big"
	"math/rand"
	"strings"

	"verifharness/internal/model/refnum"
	"verifharness/internal/mon"
	"verifharness/internal/numcall"
)

var caller *numcall.Caller
var sampled = map[string]bool{} // per process; cases run one after the other

const (
	callsPerCase = 30
	rangeCap     = 2000 // outputs of one range call the generator aims at, at most
	modelLimit   = 2600
)

type call struct {
	op   string // command name as in numcall.Names
	args []numcall.Arg
	step *numcall.Arg // range only
	want refnum.Outcome
}

func vals(args []numcall.Arg) []refnum.Val {
	vs := make([]refnum.Val, len(args))
	for i, a := range args {
		vs[i] = a.V
	}
	return vs
}

func exactArgs(r *rand.Rand, n int) []numcall.Arg {
	var xs []*big.Rat
	args := make([]numcall.Arg, 0, n)
	for i := 0; i < n; i++ {
		var x *big.Rat
		var class string
		if i > 0 && r.Intn(10) < 3 {
			x, class = numcall.Related(r, xs[r.Intn(len(xs))])
		} else {
			x, class = numcall.Exact(r, false)
		}
		xs = append(xs, x)
		args = append(args, numcall.ExactArg(r, x, class, 35))
	}
	return args
}

func zeroArg(r *rand.Rand) numcall.Arg {
	return numcall.ExactArg(r, new(big.Rat), "exact-zero", 35)
}

// machine integers whose sums, differences, products, quotients and negations
// leave the machine range (or land exactly on its ends): whatever shortcut an
// implementation takes for machine integers must not wrap around.
var trapInts = []int64{-1 << 63, -1 << 63, -1 << 63, -1, -1, -1, -1<<63 + 1, 1<<63 - 1, 1<<63 - 1, 1<<63 - 2, 1, 2, -2, 3,
	1 << 31, 1 << 32, -(1 << 32), 1 << 62, -(1 << 62), 3037000500, 3037000499, -3037000500, 1 << 33, 6, -6}

func trapArgs(r *rand.Rand, n int) []numcall.Arg {
	args := make([]numcall.Arg, n)
	for i := range args {
		v := trapInts[r.Intn(len(trapInts))]
		if r.Intn(8) == 0 {
			v = r.Int63() - r.Int63()
		}
		args[i] = numcall.ExactArg(r, big.NewRat(v, 1), "machine-int-trap", 20)
	}
	return args
}

func genArith(r *rand.Rand) call {
	op := []string{"+", "-", "*", "/"}[r.Intn(4)]
	n := r.Intn(7)
	if op == "/" && n == 0 {
		n = 1 + r.Intn(6) // "/" without arguments is the implicit cd
	}
	if r.Intn(100) < 14 {
		args := trapArgs(r, []int{1, 2, 2, 2, 2, 3}[r.Intn(6)])
		return call{op: op, args: args, want: refnum.Arith(op, vals(args))}
	}
	args := exactArgs(r, n)
	if (op == "*" || op == "/") && n > 0 {
		switch k := r.Intn(100); {
		case k < 15: // the documented exact-zero rules, also among inexact arguments
			for i := range args {
				if r.Intn(2) == 0 {
					f, class := numcall.Float(r)
					args[i] = numcall.FloatArg(r, f, class, 25)
				}
			}
			pos := r.Intn(n)
			if op == "/" && r.Intn(3) > 0 {
				pos = 0
			}
			args[pos] = zeroArg(r)
		case k < 25: // an exact zero somewhere among exact arguments
			args[r.Intn(n)] = zeroArg(r)
		}
	}
	return call{op: op, args: args, want: refnum.Arith(op, vals(args))}
}

func intArg(r *rand.Rand) (*big.Rat, string) {
	for {
		x, class := numcall.Exact(r, false)
		if x.IsInt() {
			return x, class
		}
	}
}

func genRem(r *rand.Rand) call {
	if r.Intn(100) < 10 {
		args := trapArgs(r, 2)
		return call{op: "%", args: args, want: refnum.Rem(args[0].V, args[1].V)}
	}
	x, xc := intArg(r)
	var y *big.Rat
	var yc string
	switch k := r.Intn(100); {
	case k < 8:
		y, yc = new(big.Rat), "exact-zero"
	case k < 30:
		y, yc = big.NewRat([]int64{1, -1, 2, -2, 3, -3, 7, 10, -10}[r.Intn(9)], 1), "tiny-int"
	case k < 45:
		y, yc = numcall.Related(r, x)
		if !y.IsInt() {
			y, yc = new(big.Rat).Neg(x), "negation"
		}
	default:
		y, yc = intArg(r)
	}
	args := []numcall.Arg{numcall.ExactArg(r, x, xc, 35), numcall.ExactArg(r, y, yc, 35)}
	if r.Intn(100) < 10 { // "Both arguments must be exact integers."
		i := r.Intn(2)
		if r.Intn(2) == 0 {
			for {
				q, class := numcall.Exact(r, false)
				if !q.IsInt() {
					args[i] = numcall.ExactArg(r, q, class, 35)
					break
				}
			}
		} else {
			f, class := numcall.Float(r)
			args[i] = numcall.FloatArg(r, f, class, 25)
		}
	}
	return call{op: "%", args: args, want: refnum.Rem(args[0].V, args[1].V)}
}

var maxInt = new(big.Rat).SetInt(new(big.Int).Sub(new(big.Int).Lsh(big.NewInt(1), 63), big.NewInt(1)))
var minInt = new(big.Rat).SetInt(new(big.Int).Lsh(big.NewInt(-1), 63))

func genRange(r *rand.Rand) call {
	var start, end, step *big.Rat
	var sc string
	count := int64(r.Intn(12))
	switch k := r.Intn(40); {
	case k == 0:
		count = int64(r.Intn(rangeCap + 1))
	case k < 9:
		count = int64(r.Intn(80))
	}
	hasStep := r.Intn(100) < 60
	oneArg := r.Intn(100) < 25
	switch k := r.Intn(100); {
	case k < 12 && !oneArg: // machine-integer overflow while stepping towards the end of the int range
		step = big.NewRat(int64(1+r.Intn(7)), 1)
		start = new(big.Rat).Sub(maxInt, big.NewRat(int64(r.Intn(40)), 1))
		end = new(big.Rat).Sub(maxInt, big.NewRat(int64(r.Intn(3)), 1))
		if r.Intn(2) == 0 {
			step.Neg(step)
			start = new(big.Rat).Add(minInt, big.NewRat(int64(r.Intn(40)), 1))
			end = new(big.Rat).Add(minInt, big.NewRat(int64(r.Intn(3)), 1))
		}
		hasStep, sc = true, "int-range-limit"
	default:
		if oneArg {
			start, sc = new(big.Rat), "implicit-zero"
		} else {
			start, sc = numcall.Exact(r, false)
		}
		switch {
		case !hasStep:
			step = big.NewRat(1, 1)
		case r.Intn(3) == 0:
			step = big.NewRat(int64(1+r.Intn(9)), int64(1+r.Intn(9)))
		case r.Intn(3) == 0:
			step, _ = numcall.Exact(r, false)
			step.Abs(step)
			if step.Sign() == 0 {
				step.SetInt64(1)
			}
		default:
			step = big.NewRat(int64(1+r.Intn(5)), 1)
		}
		down := r.Intn(2) == 0
		if down {
			step.Neg(step)
		}
		// end = start + step*(count - frac), frac in [0,1): exactly count outputs
		frac := big.NewRat(int64(r.Intn(4)), 4)
		if count == 0 {
			frac.SetInt64(0)
		}
		k := new(big.Rat).Sub(big.NewRat(count, 1), frac)
		end = new(big.Rat).Add(start, k.Mul(k, step))
	}
	c := call{op: "range"}
	stepArg := numcall.ExactArg(r, step, "step", 35)
	if hasStep {
		switch k := r.Intn(100); {
		case k < 8: // wrong sign
			stepArg = numcall.ExactArg(r, new(big.Rat).Neg(step), "step-wrong-sign", 35)
		case k < 11:
			stepArg = zeroArg(r)
		}
		c.step = &stepArg
	}
	if oneArg {
		c.args = []numcall.Arg{numcall.ExactArg(r, end, "end", 35)}
	} else {
		c.args = []numcall.Arg{numcall.ExactArg(r, start, sc, 35), numcall.ExactArg(r, end, "end", 35)}
	}
	var sv *refnum.Val
	if c.step != nil {
		sv = &c.step.V
	}
	startV := refnum.ExInt(0)
	if !oneArg {
		startV = c.args[0].V
	}
	want, ok := refnum.Range(startV, c.args[len(c.args)-1].V, sv, modelLimit)
	if !ok {
		want = refnum.Outcome{Unspecified: true, Rule: "model-limit"}
	}
	c.want = want
	return c
}

var unaryOps = []string{"abs", "ceil", "floor", "round", "round-to-even", "trunc"}

func genUnary(r *rand.Rand) call {
	op := unaryOps[r.Intn(len(unaryOps))]
	x, class := numcall.Exact(r, false)
	arg := numcall.ExactArg(r, x, class, 35)
	if r.Intn(100) < 6 {
		arg = trapArgs(r, 1)[0]
	}
	return call{op: "math:" + op, args: []numcall.Arg{arg}, want: refnum.Unary(op, arg.V)}
}

func genMinMax(r *rand.Rand) call {
	op := []string{"min", "max"}[r.Intn(2)]
	args := exactArgs(r, r.Intn(7))
	if r.Intn(100) < 8 {
		args = trapArgs(r, 1+r.Intn(4))
	}
	return call{op: "math:" + op, args: args, want: refnum.MinMax(op, vals(args))}
}

func genPow(r *rand.Rand) call {
	base, bc := numcall.Exact(r, false)
	switch k := r.Intn(100); {
	case k < 6:
		base, bc = new(big.Rat), "exact-zero"
	case k < 14:
		base, bc = big.NewRat([]int64{1, -1, 2, -2, 10}[r.Intn(5)], 1), "tiny-int"
	}
	var e *big.Rat
	ec := "small-exponent"
	switch k := r.Intn(100); {
	case k < 30:
		e = big.NewRat(int64(r.Intn(7)-3), 1)
	case k < 40: // exponents that bring 2 and -2 to the machine-integer boundary
		e = big.NewRat([]int64{62, 63, 64, -62, -63, -64, 31, 32}[r.Intn(8)], 1)
	default:
		e = big.NewRat(int64(r.Intn(81)-40), 1)
	}
	if one := new(big.Rat).Abs(base); (base.Sign() == 0 || one.Cmp(big.NewRat(1, 1)) == 0) && r.Intn(3) == 0 {
		// huge exponents only where they do not test memory: bases 0, 1, -1
		e, ec = intArg(r)
		if r.Intn(2) == 0 { // exponents beyond the machine range, both signs
			z := new(big.Int).Lsh(big.NewInt(1), uint(63+r.Intn(10)))
			z.Add(z, big.NewInt(int64(r.Intn(3))))
			if r.Intn(2) == 0 {
				z.Neg(z)
			}
			e, ec = new(big.Rat).SetInt(z), "big-exponent"
		}
	}
	args := []numcall.Arg{numcall.ExactArg(r, base, bc, 35), numcall.ExactArg(r, e, ec, 35)}
	if r.Intn(100) < 6 { // squares and cubes of machine integers that leave the machine range
		args = []numcall.Arg{trapArgs(r, 1)[0], numcall.ExactArg(r, big.NewRat([]int64{2, 3, -1, -2, 2}[r.Intn(5)], 1), "small-exponent", 20)}
	}
	return call{op: "math:pow", args: args, want: refnum.Pow(args[0].V, args[1].V)}
}

func gen(r *rand.Rand, family int) call {
	switch family % 8 {
	case 0, 1, 2:
		return genArith(r)
	case 3:
		return genRem(r)
	case 4:
		return genRange(r)
	case 5:
		return genUnary(r)
	case 6:
		return genMinMax(r)
	default:
		return genPow(r)
	}
}

func quote(s string) string { return "'" + strings.ReplaceAll(s, "'", "''") + "'" }

// source renders the call as Elvish source text; arguments are passed through
// variables or written as literals ("(num …)" for typed numbers).
func source(r *rand.Rand, cl call) (string, map[string]any) {
	vars := map[string]any{}
	word := func(i int, a numcall.Arg) string {
		if r.Intn(2) == 0 {
			name := fmt.Sprintf("a%d", i)
			vars[name] = a.Go
			return "$" + name
		}
		if s, ok := a.Go.(string); ok {
			if r.Intn(2) == 0 && !strings.ContainsAny(s, "'") {
				return s // bareword
			}
			return quote(s)
		}
		if a.V.Exact {
			return "(num " + numcall.ExactString(r, a.V.R) + ")"
		}
		return "(num " + numcall.FloatString(r, a.V.F) + ")"
	}
	var sb strings.Builder
	sb.WriteString(cl.op)
	if cl.step != nil {
		sb.WriteString(" &step=" + word(99, *cl.step))
	}
	for i, a := range cl.args {
		sb.WriteString(" " + word(i, a))
	}
	return sb.String(), vars
}

func isSmallInt(v refnum.Val) bool {
	if !v.IsInt() {
		return false
	}
	n := v.R.Num()
	return n.IsInt64() && n.Int64() > -(1<<31) && n.Int64() < 1<<31
}

func runCalls(c *mon.Case, viaSource bool) {
	r := c.Rand
	for k := 0; k < callsPerCase; k++ {
		cl := gen(r, c.I+k)
		all := cl.args
		if cl.step != nil {
			all = append(append([]numcall.Arg{}, cl.args...), *cl.step)
		}
		before := numcall.Snapshot(all)
		var res numcall.Result
		var src string
		if viaSource {
			var vars map[string]any
			src, vars = source(r, cl)
			res = caller.Eval(src, vars)
		} else {
			goArgs := make([]any, len(cl.args))
			for i, a := range cl.args {
				goArgs[i] = a.Go
			}
			var opts map[string]any
			if cl.step != nil {
				opts = map[string]any{"step": cl.step.Go}
			}
			res = caller.Call(cl.op, goArgs, opts)
		}
		after := numcall.Snapshot(all)
		c.Evals(1)
		op := strings.TrimPrefix(cl.op, "math:")
		witness := func() map[string]any {
			w := map[string]any{"command": cl.op, "args": before, "rule": cl.want.Rule, "call_in_case": k}
			if viaSource {
				w["source"] = src
			}
			if res.Panic != nil {
				w["stack"] = res.Stack
			}
			return w
		}
		v := numcall.Judge(cl.want, res)
		if v.Class != "" {
			sig := op + ":" + v.Class
			if res.Panic != nil && cl.want.Rule == "pow-zero-negative" {
				// narrow class of its own: zero raised to a negative integer power
				sig = "pow:zero-negative-exponent:panic"
			}
			c.Violation(sig, fmt.Sprintf("%s %v: %s", cl.op, before, v.What), witness())
		}
		for i := range before {
			if before[i] != after[i] {
				c.Violation(op+":argument-mutated", fmt.Sprintf("%s changed its argument #%d from %s to %s", cl.op, i, before[i], after[i]), witness())
			}
		}
		account(c, cl, res, viaSource)
	}
}

func account(c *mon.Case, cl call, res numcall.Result, viaSource bool) {
	op := strings.TrimPrefix(cl.op, "math:")
	c.Count("calls_"+op, 1)
	if cl.want.Unspecified {
		c.Count("unspecified_skipped", 1)
		return
	}
	trivial := true
	all := cl.args
	if cl.step != nil {
		all = append(append([]numcall.Arg{}, cl.args...), *cl.step)
	}
	strs, inexact := 0, 0
	for _, a := range all {
		if !isSmallInt(a.V) {
			trivial = false
		}
		if _, ok := a.Go.(string); ok {
			strs++
		}
		if !a.V.Exact {
			inexact++
		}
		c.Distinct("arg_classes", a.Class)
	}
	c.Count("string_args", strs)
	if cl.want.Raise {
		trivial = false
		c.Count("expected_exceptions", 1)
		c.Count("expected_exception_"+cl.want.Rule, 1)
	}
	if cl.want.Either {
		c.Count("either_accepted_"+cl.want.Rule, 1)
	}
	if inexact > 0 && (cl.want.Rule == "mul-exact-zero" || cl.want.Rule == "div-zero-dividend") {
		c.Count("exact_zero_rule_with_inexact_args", 1)
	}
	if inexact > 0 && cl.want.Rule == "div-exact-zero" {
		c.Count("exact_zero_divisor_with_inexact_args", 1)
	}
	argsAllInt := true
	for _, a := range all {
		if !a.V.IsInt() || !refnum.FitsInt64(a.V.R.Num()) {
			argsAllInt = false
		}
	}
	for _, w := range cl.want.Vals {
		if !w.Exact {
			continue
		}
		switch {
		case !w.R.IsInt():
			c.Count("expected_rational_results", 1)
			trivial = false
		case !refnum.FitsInt64(w.R.Num()):
			c.Count("expected_bigint_results", 1)
			if argsAllInt {
				c.Count("bigint_result_from_machine_int_args", 1)
			}
			trivial = false
		default:
			if !argsAllInt {
				c.Count("machine_int_result_from_big_or_rational_args", 1)
			}
			if n := w.R.Num().Int64(); n == -1<<63 || n == 1<<63-1 {
				c.Count("result_exactly_at_int_limit", 1)
			}
		}
	}
	if cl.op == "range" {
		c.Count("range_outputs", len(cl.want.Vals))
		c.Max("range_outputs_one_call", len(cl.want.Vals))
	}
	if viaSource {
		c.Count("calls_via_source", 1)
	}
	if !trivial {
		key := []any{cl.op}
		for _, a := range all {
			key = append(key, numcall.Full(a.Go))
		}
		c.Nontrivial(key...)
		if sampled[op] {
			return
		}
		sampled[op] = true
		c.Sample(op, map[string]any{"command": cl.op, "args": numcall.Snapshot(all), "got": numcall.ShowAll(res.Out), "raised": res.Err != nil})
	}
}

func Spec() *mon.Spec {
	return &mon.Spec{
		ID:            "C11",
		SpinViolation: true, Level: "exploration",
		Rule: "case = 30 calls; command family fixed by the case index (+ - * / 3/8, % 1/8, range 1/8, math:abs/ceil/floor/round/round-to-even/trunc 1/8, math:min/max 1/8, math:pow 1/8). " +
			"Arguments: 0..6 exact numbers drawn from classes {0, ±1, small ints, neighbours of ±2^63 / ±2^64 / 2^31 / 2^32 / 2^53 / sqrt(2^63), random ints up to 64 bits, big ints up to 200 bits, small rationals, rationals with 54..63-bit numerator and denominator, exact halves (also at the ±2^63 boundary), boundary±fraction, 200-bit rationals, reciprocals of boundaries, multiples of boundaries}, 30 % of the arguments derived from an earlier one (copy, negation, reciprocal, boundary−prev, boundary/prev) so that results cancel or land exactly on a boundary; each argument is passed as a canonical typed number or (35 %) as a documented string form (decimal, 0x/0o/0b, underscores, p/q not in lowest terms). " +
			"14 % of + - * / calls (and some %, min/max, unary, pow calls) use 1..3 machine integers from {±2^63∓{0,1,2}, ±1, ±2, 2^31, 2^32, 2^62, 3037000499/500, random 63-bit} whose exact result leaves the machine range or lands on its ends (MinInt / -1, MinInt * -1, - MinInt, MaxInt + 1 …). 15 % of * and / calls mix in doubles (incl. ±Inf, NaN) around an exact 0 to test the documented exact-zero rules. pow: exponents in [-40,40] (huge exponents only for bases 0, ±1); range: 0..2000 outputs per call, with/without &step, one- and two-argument forms, wrong-signed and zero steps, machine-int overflow at the end of the int range. " +
			"Phase direct calls the builtin Go callables through Evaler.Call; phase source evaluates the same calls as Elvish source text (variables or literals). The oracle compares every output's value and dynamic Go type (int iff in [-2^63,2^63), *big.Int iff integer outside, *big.Rat iff non-integer in lowest terms) with a math/big.Rat model, demands an exception exactly where documented, and checks that no argument object was mutated. " +
			"Non-trivial = call with an expected exception, or with an argument or expected result that is not a machine integer below 2^31 in magnitude; distinct by command + arguments as passed.",
		Assumptions: []string{
			"`/ 0` (a single exact zero): the documentation says both that `/ $y` is `/ 1 $y` (raise) and that an exact-zero dividend with no exact-zero divisor gives exact 0; both outcomes are accepted",
			"`range` with a zero &step: the documentation only speaks of steps of the wrong sign; raising or an empty output are both accepted",
			"0 raised to the exact power 0 is 1 (empty product), as for every other exact base",
			"int is 64 bits wide on the platform running the check (asserted at start-up)",
			"string arguments use only the documented number syntax (language.md § Number); the conversion of strings itself is property C05",
			"range calls whose expected output exceeds 2600 values are not generated; pow exponents beyond ±40 are only used with bases 0, 1, -1",
		},
		ChildSetup: func(e *mon.Env) { caller = numcall.New() },
		Phases: []mon.Phase{
			{Name: "direct", Quick: 20000, Thorough: 120000, Batch: 250, Run: func(c *mon.Case) { runCalls(c, false) }},
			{Name: "source", Quick: 2000, Thorough: 14000, Batch: 44, Run: func(c *mon.Case) { runCalls(c, true) }},
		},
		Floors: map[string]int{
			"distinct_nontrivial": 40000, "calls_+": 5000, "calls_-": 5000, "calls_*": 5000, "calls_/": 5000, "calls_%": 7000,
			"calls_range": 7000, "calls_pow": 7000, "calls_min": 3000, "calls_max": 3000,
			"calls_abs": 1000, "calls_ceil": 1000, "calls_floor": 1000, "calls_round": 1000, "calls_round-to-even": 1000, "calls_trunc": 1000,
			"expected_bigint_results": 30000, "expected_rational_results": 90000, "machine_int_result_from_big_or_rational_args": 80000,
			"bigint_result_from_machine_int_args": 1000, "result_exactly_at_int_limit": 400, "exact_zero_rule_with_inexact_args": 800,
			"expected_exception_div-exact-zero": 700, "expected_exception_rem-exact-zero": 700, "expected_exception_rem-non-integer": 700,
			"expected_exception_pow-zero-negative": 250, "expected_exception_range-step-sign": 450,
			"calls_via_source": 7000, "string_args": 45000, "range_outputs_one_call": 500,
		},
	}
}
