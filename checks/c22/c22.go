// Package c22 monitors the module system (property C22): within one
// interpreter a module is evaluated at most once and shared by all importers,
// relative imports resolve against the importing file (or the working
// directory for non-file code), and a module whose evaluation failed is not
// remembered.
//
// A case is a generated module graph written to disk plus a script of
// evaluation steps. A small reference model of the documented module
// semantics (language.md, "Modules": cache keyed by path, circular imports
// see variables defined so far and $nil otherwise, relative imports) predicts
// the complete observation log, the result class of every step and the number
// of evaluations of every module; the real interpreter must agree.
package c22

import (
	"fmt"
	"math/rand"
	"os"
	"path/filepath"
	"sort"
	"strconv"
	"strings"
	"sync"

	"src.elv.sh/pkg/eval"
	"src.elv.sh/pkg/eval/vals"
	"src.elv.sh/pkg/parse"
	"verifharness/internal/elv"
	"verifharness/internal/mon"
)

// ---------------------------------------------------------------------------
// The generated world

type imp struct {
	spec   string
	alias  string // namespace name the import is bound to (explicit or derived)
	explic bool   // alias written explicitly
}

const (
	stUse    = iota // use SPEC [ALIAS]
	stSee           // v-obs ID-see-A $A:early $A:late
	stSetVia        // set A:early = tok
	stFail          // if (<= $gen N) { fail ID-boom }
	stLate          // var late = ID-l
)

type stmt struct {
	kind int
	imp  *imp
	tok  string
}

type module struct {
	id    string // unique, used for v-loaded and tokens
	dir   string // absolute directory
	base  string // file name without .elv
	failN int    // evaluation number g fails iff g <= failN
	body  []stmt // between `var early` and the function definitions
	tops  []*imp // top-level imports in order
	lazy  []*imp // imports made inside function lazy-<k>
}

func (m *module) path() string { return filepath.Join(m.dir, m.base) }

func (i *imp) text() string {
	if i.explic {
		return "use " + i.spec + " " + i.alias
	}
	return "use " + i.spec
}

func (m *module) source() string {
	var b strings.Builder
	fmt.Fprintf(&b, "var gen = (v-loaded %s)\nvar early = %s-e\n", m.id, m.id)
	for _, s := range m.body {
		switch s.kind {
		case stUse:
			b.WriteString(s.imp.text() + "\n")
		case stSee:
			fmt.Fprintf(&b, "v-obs %s-see-%s $%s:early $%s:late\n", m.id, s.imp.alias, s.imp.alias, s.imp.alias)
		case stSetVia:
			fmt.Fprintf(&b, "set %s:early = %s\n", s.imp.alias, s.tok)
		case stFail:
			fmt.Fprintf(&b, "if (<= $gen %d) { fail %s-boom }\n", m.failN, m.id)
		case stLate:
			fmt.Fprintf(&b, "var late = %s-l\n", m.id)
		}
	}
	b.WriteString("fn get-early { put $early }\nfn set-early {|v| set early = $v }\n")
	b.WriteString("fn get-late { put $late }\nfn set-late {|v| set late = $v }\n")
	for _, i := range m.tops {
		fmt.Fprintf(&b, "fn via-%s { put $%s:early $%s:late }\n", i.alias, i.alias, i.alias)
		fmt.Fprintf(&b, "fn setvia-%s {|v| set %s:late = $v }\n", i.alias, i.alias)
	}
	for k := 0; k+1 < len(m.tops); k++ {
		a, c := m.tops[k].alias, m.tops[k+1].alias
		fmt.Fprintf(&b, "fn same-%s-%s { is $%s: $%s: }\n", a, c, a, c)
	}
	for k, i := range m.lazy {
		fmt.Fprintf(&b, "fn lazy-%d { %s; put $%s:gen $%s:early }\n", k, i.text(), i.alias, i.alias)
	}
	return b.String()
}

// ---------------------------------------------------------------------------
// Reference model (written from website/ref/language.md, section Modules)

const wild = "*" // value not demanded (read through a namespace whose evaluation failed)

type inst struct {
	m      *module
	gen    int
	vars   map[string]string
	alias  map[string]*inst
	failed bool
	done   bool
}

func (in *inst) get(name string) string {
	if in.failed {
		return wild
	}
	if v, ok := in.vars[name]; ok {
		return v
	}
	return "$nil"
}

type obs struct {
	tag  string
	vals []string
}

type world struct {
	root   string
	libs   []string
	mods   map[string]*module // by path
	cache  map[string]*inst
	count  map[string]int // by module id
	log    []obs
	cwd    string
	global map[string]*inst // script-level aliases bound so far

	// features of the history, for counters
	cycleHits, failedEvals, reEvalAfterFail, cacheHits, wildReads int
	relFile, relCwd, libImports, shadowSkips, lazyCalls, missing  int
	pathsBySpecs                                                  map[string]map[string]bool
}

// resolve computes the module path a spec denotes when used from code whose
// base directory is dir (the directory of the file, or the cwd).
func (w *world) resolve(dir, spec string) (string, bool) {
	if strings.HasPrefix(spec, "./") || strings.HasPrefix(spec, "../") {
		p := filepath.Clean(filepath.Join(dir, spec))
		_, ok := w.mods[p]
		return p, ok
	}
	for k, l := range w.libs {
		p := filepath.Join(l, spec)
		if _, ok := w.mods[p]; ok {
			if k+1 < len(w.libs) {
				if _, also := w.mods[filepath.Join(w.libs[k+1], spec)]; also {
					w.shadowSkips++
				}
			}
			return p, true
		}
	}
	return "", false
}

// use models `use spec` executed by code whose relative base is dir.
func (w *world) use(dir, spec string) (*inst, string) {
	p, ok := w.resolve(dir, spec)
	if !ok {
		w.missing++
		return nil, "nosuchmodule"
	}
	if w.pathsBySpecs[p] == nil {
		w.pathsBySpecs[p] = map[string]bool{}
	}
	w.pathsBySpecs[p][spec] = true
	if in, ok := w.cache[p]; ok {
		if !in.done {
			w.cycleHits++
		} else {
			w.cacheHits++
		}
		return in, ""
	}
	return w.evalModule(w.mods[p])
}

func (w *world) evalModule(m *module) (*inst, string) {
	w.count[m.id]++
	in := &inst{m: m, gen: w.count[m.id], vars: map[string]string{}, alias: map[string]*inst{}}
	if in.gen > 1 {
		w.reEvalAfterFail++
	}
	p := m.path()
	w.cache[p] = in // visible to circular imports while being evaluated
	fail := func(class string) (*inst, string) {
		in.failed = true
		in.done = true
		delete(w.cache, p) // "not remembered"
		w.failedEvals++
		return nil, class
	}
	in.vars["gen"] = strconv.Itoa(in.gen)
	in.vars["early"] = m.id + "-e"
	for _, s := range m.body {
		switch s.kind {
		case stUse:
			t, errc := w.use(m.dir, s.imp.spec)
			if errc != "" {
				return fail(errc)
			}
			in.alias[s.imp.alias] = t
		case stSee:
			t := in.alias[s.imp.alias]
			w.observe(m.id+"-see-"+s.imp.alias, t.get("early"), t.get("late"))
		case stSetVia:
			in.alias[s.imp.alias].vars["early"] = s.tok
		case stFail:
			if in.gen <= m.failN {
				return fail("fail:" + m.id + "-boom")
			}
		case stLate:
			in.vars["late"] = m.id + "-l"
		}
	}
	in.done = true
	return in, ""
}

func (w *world) observe(tag string, vs ...string) {
	for _, v := range vs {
		if v == wild {
			w.wildReads++
		}
	}
	w.log = append(w.log, obs{tag, vs})
}

// ---------------------------------------------------------------------------
// Script steps

type step struct {
	Kind   string `json:"kind"`
	Chdir  string `json:"chdir,omitempty"`
	File   string `json:"file,omitempty"` // source name when evaluated as a file; "" = not from a file
	Code   string `json:"code,omitempty"`
	Expect string `json:"expect"` // "", "nosuchmodule", "fail:<content>"
}

func boolRepr(b bool) string {
	if b {
		return "$true"
	}
	return "$false"
}

type gen struct {
	r    *rand.Rand
	w    *world
	dirs []string
	mods []*module
	n    int
}

// specsFor lists the specs by which code based in dir can name module t.
func (g *gen) specsFor(dir string, t *module) (rel string, lib string) {
	rp, err := filepath.Rel(dir, t.path())
	if err != nil {
		panic(err)
	}
	if !strings.HasPrefix(rp, "../") {
		rp = "./" + rp
	}
	for k, l := range g.w.libs {
		if strings.HasPrefix(t.path(), l+"/") {
			s := strings.TrimPrefix(t.path(), l+"/")
			shadowed := false
			for _, l0 := range g.w.libs[:k] {
				if _, ok := g.w.mods[filepath.Join(l0, s)]; ok {
					shadowed = true
				}
			}
			if !shadowed {
				lib = s
			}
		}
	}
	return rp, lib
}

func (g *gen) pickSpec(dir string, t *module) string {
	rel, lib := g.specsFor(dir, t)
	if lib != "" && g.r.Intn(2) == 0 {
		return lib
	}
	return rel
}

func lastComp(spec string) string { return spec[strings.LastIndexByte(spec, '/')+1:] }

func (g *gen) build(root string) {
	r := g.r
	w := &world{root: root, mods: map[string]*module{}, cache: map[string]*inst{}, count: map[string]int{},
		global: map[string]*inst{}, pathsBySpecs: map[string]map[string]bool{}}
	g.w = w
	lib1, lib2 := filepath.Join(root, "lib1"), filepath.Join(root, "lib2")
	w.libs = []string{lib1, lib2}
	g.dirs = []string{lib1, lib1 + "/p", lib1 + "/p/q", lib2, lib2 + "/p",
		root + "/proj", root + "/proj/sub", root + "/proj/sub/deep"}
	n := 1 + r.Intn(6)
	for k := 0; k < n; k++ {
		m := &module{id: fmt.Sprintf("m%d", k)}
		m.base = m.id
		m.dir = g.dirs[r.Intn(len(g.dirs))]
		// sometimes shadow an earlier lib1 module from lib2
		if k > 0 && r.Intn(6) == 0 {
			for _, o := range g.mods {
				if strings.HasPrefix(o.dir, lib1) && (o.dir == lib1 || o.dir == lib1+"/p") {
					d := lib2 + strings.TrimPrefix(o.dir, lib1)
					if _, taken := w.mods[filepath.Join(d, o.base)]; !taken {
						m.dir, m.base = d, o.base
					}
					break
				}
			}
		}
		if r.Intn(10) < 3 {
			m.failN = 1 + r.Intn(2)
		}
		g.mods = append(g.mods, m)
		w.mods[m.path()] = m
	}
	// edges
	for _, m := range g.mods {
		used := map[string]bool{}
		newImp := func(spec string) *imp {
			i := &imp{spec: spec, alias: lastComp(spec)}
			if used[i.alias] || r.Intn(2) == 0 {
				i.explic = true
				for k := 0; ; k++ {
					i.alias = fmt.Sprintf("x%d", k)
					if !used[i.alias] {
						break
					}
				}
			}
			used[i.alias] = true
			return i
		}
		k := r.Intn(4)
		if n == 1 {
			k = r.Intn(2)
		}
		var stmts []stmt
		for j := 0; j < k; j++ {
			var spec string
			if r.Intn(25) == 0 {
				spec = []string{"./nope", "../nope", "nope/nope"}[r.Intn(3)]
			} else {
				t := g.mods[r.Intn(n)]
				spec = g.pickSpec(m.dir, t)
			}
			i := newImp(spec)
			m.tops = append(m.tops, i)
			stmts = append(stmts, stmt{kind: stUse, imp: i})
		}
		// place `var late` and the failure point among the imports
		ins := func(s stmt) {
			at := r.Intn(len(stmts) + 1)
			stmts = append(stmts[:at], append([]stmt{s}, stmts[at:]...)...)
		}
		ins(stmt{kind: stLate})
		if m.failN > 0 {
			ins(stmt{kind: stFail})
		}
		// observations and mutations after the corresponding use
		var body []stmt
		for _, s := range stmts {
			body = append(body, s)
			if s.kind == stUse {
				if r.Intn(3) != 0 {
					body = append(body, stmt{kind: stSee, imp: s.imp})
				}
				if r.Intn(4) == 0 {
					body = append(body, stmt{kind: stSetVia, imp: s.imp, tok: m.id + "-mut-" + s.imp.alias})
					body = append(body, stmt{kind: stSee, imp: s.imp})
				}
			}
		}
		m.body = body
		if r.Intn(3) == 0 {
			t := g.mods[r.Intn(n)]
			i := &imp{spec: g.pickSpec(m.dir, t), alias: "z", explic: true}
			m.lazy = append(m.lazy, i)
		}
	}
}

func (g *gen) writeFiles() error {
	for _, d := range g.dirs {
		if err := os.MkdirAll(d, 0o755); err != nil {
			return err
		}
	}
	for _, m := range g.mods {
		if err := os.WriteFile(m.path()+".elv", []byte(m.source()), 0o644); err != nil {
			return err
		}
	}
	return nil
}

// boundAliases returns the script-level aliases in deterministic order.
func (g *gen) boundAliases() []string {
	var as []string
	for a := range g.w.global {
		as = append(as, a)
	}
	sort.Strings(as)
	return as
}

// nextStep generates step number k and applies it to the model.
func (g *gen) nextStep(k int) step {
	r, w := g.r, g.w
	st := step{}
	// where does the code come from
	base := w.cwd
	if r.Intn(2) == 0 {
		d := g.dirs[r.Intn(len(g.dirs))]
		st.File = filepath.Join(d, fmt.Sprintf("script%d.elv", k))
		base = d
	}
	as := g.boundAliases()
	choice := r.Intn(10)
	if len(as) == 0 && choice >= 4 {
		choice = r.Intn(4)
	}
	tag := fmt.Sprintf("s%d", k)
	countRel := func(spec string) {
		if strings.HasPrefix(spec, ".") {
			if st.File != "" {
				w.relFile++
			} else {
				w.relCwd++
			}
		} else {
			w.libImports++
		}
	}
	pickTargetSpec := func() string {
		if r.Intn(15) == 0 {
			return []string{"./nope", "../m0", "nope/m0", "./lib1/nope"}[r.Intn(4)]
		}
		return g.pickSpec(base, g.mods[r.Intn(len(g.mods))])
	}
	switch {
	case choice == 0:
		st.Kind = "chdir"
		st.Chdir = g.dirs[r.Intn(len(g.dirs))]
		st.File = ""
		w.cwd = st.Chdir
	case choice <= 2: // import binding a global alias
		st.Kind = "import"
		spec := pickTargetSpec()
		countRel(spec)
		a := fmt.Sprintf("i%d", k)
		st.Code = fmt.Sprintf("use %s %s\nv-obs %s $%s:gen $%s:early $%s:late", spec, a, tag, a, a, a)
		in, errc := w.use(base, spec)
		st.Expect = errc
		if errc == "" {
			w.global[a] = in
			w.observe(tag, in.get("gen"), in.get("early"), in.get("late"))
		}
	case choice == 3: // two imports in a local scope, compared for identity
		st.Kind = "import2"
		s1, s2 := pickTargetSpec(), pickTargetSpec()
		if r.Intn(2) == 0 { // same module through (possibly) another spec
			t := g.mods[r.Intn(len(g.mods))]
			rel, lib := g.specsFor(base, t)
			s1, s2 = rel, rel
			if lib != "" {
				s2 = lib
			}
		}
		countRel(s1)
		countRel(s2)
		st.Code = fmt.Sprintf("{ use %s a; use %s b; v-obs %s (is $a: $b:) $a:gen $b:gen }", s1, s2, tag)
		a, errc := w.use(base, s1)
		if errc == "" {
			var b *inst
			b, errc = w.use(base, s2)
			if errc == "" {
				w.observe(tag, boolRepr(a == b), a.get("gen"), b.get("gen"))
			}
		}
		st.Expect = errc
	case choice == 4: // mutate through an alias
		st.Kind = "set"
		a := as[r.Intn(len(as))]
		in := w.global[a]
		tok := fmt.Sprintf("t%d", k)
		switch r.Intn(3) {
		case 0:
			st.Code = fmt.Sprintf("set %s:early = %s", a, tok)
			in.vars["early"] = tok
		case 1:
			st.Code = fmt.Sprintf("%s:set-late %s", a, tok)
			in.vars["late"] = tok
		default:
			st.Code = fmt.Sprintf("%s:set-early %s", a, tok)
			in.vars["early"] = tok
		}
	case choice == 5: // read through an alias, directly and through the module's own functions
		st.Kind = "read"
		a := as[r.Intn(len(as))]
		in := w.global[a]
		st.Code = fmt.Sprintf("v-obs %s $%s:early $%s:late (%s:get-early) (%s:get-late)", tag, a, a, a, a)
		w.observe(tag, in.get("early"), in.get("late"), in.get("early"), in.get("late"))
	case choice == 6: // identity of two aliases
		st.Kind = "same"
		a, b := as[r.Intn(len(as))], as[r.Intn(len(as))]
		st.Code = fmt.Sprintf("v-obs %s (is $%s: $%s:)", tag, a, b)
		w.observe(tag, boolRepr(w.global[a] == w.global[b]))
	case choice == 7 || choice == 8: // through a module's own imports
		a := as[r.Intn(len(as))]
		in := w.global[a]
		if len(in.m.tops) == 0 {
			st.Kind = "read"
			st.Code = fmt.Sprintf("v-obs %s $%s:gen", tag, a)
			w.observe(tag, in.get("gen"))
			break
		}
		j := r.Intn(len(in.m.tops))
		ia := in.m.tops[j].alias
		t := in.alias[ia]
		switch r.Intn(3) {
		case 0:
			st.Kind = "via"
			st.Code = fmt.Sprintf("v-obs %s (%s:via-%s)", tag, a, ia)
			w.observe(tag, t.get("early"), t.get("late"))
		case 1:
			st.Kind = "setvia"
			tok := fmt.Sprintf("t%d", k)
			st.Code = fmt.Sprintf("%s:setvia-%s %s", a, ia, tok)
			t.vars["late"] = tok
		default:
			if j+1 < len(in.m.tops) {
				ib := in.m.tops[j+1].alias
				st.Kind = "same-in-module"
				st.Code = fmt.Sprintf("v-obs %s (%s:same-%s-%s)", tag, a, ia, ib)
				w.observe(tag, boolRepr(t == in.alias[ib]))
			} else {
				st.Kind = "via"
				st.Code = fmt.Sprintf("v-obs %s (%s:via-%s)", tag, a, ia)
				w.observe(tag, t.get("early"), t.get("late"))
			}
		}
	default: // import made inside a module function: relative to the module's file
		a := as[r.Intn(len(as))]
		in := w.global[a]
		if len(in.m.lazy) == 0 {
			st.Kind = "same"
			st.Code = fmt.Sprintf("v-obs %s (is $%s: $%s:)", tag, a, a)
			w.observe(tag, "$true")
			break
		}
		st.Kind = "lazy"
		w.lazyCalls++
		st.Code = fmt.Sprintf("v-obs %s (%s:lazy-0)", tag, a)
		t, errc := w.use(in.m.dir, in.m.lazy[0].spec)
		st.Expect = errc
		if errc == "" {
			w.observe(tag, t.get("gen"), t.get("early"))
		}
	}
	return st
}

// ---------------------------------------------------------------------------
// The real thing

type recorder struct {
	mu      sync.Mutex
	log     []obs
	count   map[string]int
	runaway string // module whose evaluation count exceeded every possible model value
}

// A correct interpreter evaluates a module at most once per `use` executed by
// the script (a failure aborts the step), and a script has < 30 steps with at
// most two `use` each. Beyond this bound v-loaded raises an error so that a
// runaway recursion (cycle not broken) unwinds instead of exhausting the stack.
const runawayBound = 80

func (rc *recorder) install(ev *eval.Evaler) {
	ev.ExtendBuiltin(eval.BuildNs().
		AddGoFn("v-loaded", func(name string) (string, error) {
			rc.mu.Lock()
			defer rc.mu.Unlock()
			rc.count[name]++
			if rc.count[name] > runawayBound {
				rc.runaway = name
				return "", fmt.Errorf("v-loaded: runaway evaluation of %s", name)
			}
			return strconv.Itoa(rc.count[name]), nil
		}).
		AddGoFn("v-obs", func(tag string, vs ...any) {
			o := obs{tag: tag}
			for _, v := range vs {
				o.vals = append(o.vals, vals.ReprPlain(v))
			}
			rc.mu.Lock()
			rc.log = append(rc.log, o)
			rc.mu.Unlock()
		}))
}

func errClass(err error) string {
	if err == nil {
		return ""
	}
	switch r := elv.Reason(err).(type) {
	case eval.FailError:
		return "fail:" + vals.ToString(r.Content)
	case eval.NoSuchModule:
		return "nosuchmodule"
	}
	if elv.IsCompileError(err) {
		return "compile-error"
	}
	if elv.IsParseError(err) {
		return "parse-error"
	}
	return "other:" + strings.SplitN(err.Error(), "\n", 2)[0]
}

func classOf(s string) string {
	if k := strings.IndexByte(s, ':'); k >= 0 {
		return s[:k]
	}
	if s == "" {
		return "ok"
	}
	return s
}

func obsEqual(exp, got obs) bool {
	if exp.tag != got.tag || len(exp.vals) != len(got.vals) {
		return false
	}
	for i := range exp.vals {
		if exp.vals[i] != wild && exp.vals[i] != got.vals[i] {
			return false
		}
	}
	return true
}

func obsKind(tag string) string {
	switch {
	case strings.Contains(tag, "-see-"):
		return "module-toplevel"
	default:
		return "script"
	}
}

func fmtObs(os []obs) []string {
	out := make([]string, len(os))
	for i, o := range os {
		out[i] = o.tag + " " + strings.Join(o.vals, " ")
	}
	return out
}

func runGraph(c *mon.Case) {
	root := filepath.Join(c.Dir, fmt.Sprintf("c22-%d", c.I))
	os.RemoveAll(root)
	defer os.RemoveAll(root)
	oldwd, _ := os.Getwd()
	defer os.Chdir(oldwd)

	g := &gen{r: c.Rand}
	g.build(root)
	if err := g.writeFiles(); err != nil {
		c.Inconclusive("writefiles")
		return
	}
	w := g.w
	w.cwd = g.dirs[c.Rand.Intn(len(g.dirs))]

	ev := eval.NewEvaler()
	ev.LibDirs = append([]string(nil), w.libs...)
	rc := &recorder{count: map[string]int{}}
	rc.install(ev)
	if err := ev.Chdir(w.cwd); err != nil {
		c.Inconclusive("chdir")
		return
	}

	nsteps := 6 + c.Rand.Intn(20)
	var steps []step
	witness := func() map[string]any {
		files := map[string]string{}
		for _, m := range g.mods {
			files[strings.TrimPrefix(m.path(), root+"/")+".elv"] = m.source()
		}
		return map[string]any{"root": root, "libdirs": []string{"lib1", "lib2"}, "modules": files, "steps": steps,
			"expected_log": fmtObs(w.log), "got_log": fmtObs(rc.log), "expected_counts": w.count, "got_counts": rc.count}
	}
	for k := 0; k < nsteps; k++ {
		st := g.nextStep(k)
		steps = append(steps, st)
		var got string
		if st.Kind == "chdir" {
			if err := ev.Chdir(st.Chdir); err != nil {
				c.Inconclusive("chdir")
				return
			}
		} else {
			src := parse.Source{Name: fmt.Sprintf("[script %d]", k), Code: st.Code}
			if st.File != "" {
				src = parse.Source{Name: st.File, Code: st.Code, IsFile: true}
			}
			err := ev.Eval(src, eval.EvalCfg{})
			got = errClass(err)
			c.Evals(1)
		}
		if rc.runaway != "" {
			c.Violation("evalcount:runaway", fmt.Sprintf("step %d (%s) %s: module %s was evaluated more than %d times (unbounded re-evaluation)",
				k, st.Kind, mon.Q(st.Code), rc.runaway, runawayBound), witness())
			return
		}
		if got != st.Expect {
			c.Violation("step-result:"+st.Kind+":"+classOf(st.Expect)+"->"+classOf(got),
				fmt.Sprintf("step %d (%s) %s: expected result %q, got %q", k, st.Kind, mon.Q(st.Code), st.Expect, got), witness())
			return
		}
	}
	// the observation log
	for i := 0; i < len(w.log) || i < len(rc.log); i++ {
		if i >= len(w.log) || i >= len(rc.log) || !obsEqual(w.log[i], rc.log[i]) {
			var e, gt obs
			if i < len(w.log) {
				e = w.log[i]
			}
			if i < len(rc.log) {
				gt = rc.log[i]
			}
			kind := obsKind(e.tag + gt.tag)
			c.Violation("obs-mismatch:"+kind,
				fmt.Sprintf("observation %d differs: expected %q %v, got %q %v", i, e.tag, e.vals, gt.tag, gt.vals), witness())
			return
		}
	}
	// evaluation counts
	for _, m := range g.mods {
		e, gt := w.count[m.id], rc.count[m.id]
		if e != gt {
			dir := "more"
			if gt < e {
				dir = "fewer"
			}
			c.Violation("evalcount:"+dir, fmt.Sprintf("module %s evaluated %d times, the documented caching rules give %d", m.id, gt, e), witness())
			return
		}
	}

	// coverage accounting
	multi, multiSpec := 0, 0
	for p, specs := range w.pathsBySpecs {
		_ = p
		if len(specs) >= 2 {
			multiSpec++
		}
	}
	imports := w.cacheHits + w.cycleHits
	if imports > 0 {
		multi = 1
	}
	c.Count("modules", len(g.mods))
	c.Count("module_evaluations", func() int {
		n := 0
		for _, v := range w.count {
			n += v
		}
		return n
	}())
	c.Count("observations", len(w.log))
	c.Count("cache_hits", w.cacheHits)
	c.Count("cycle_hits", w.cycleHits)
	c.Count("failed_evaluations", w.failedEvals)
	c.Count("reevaluations_after_failure", w.reEvalAfterFail)
	c.Count("modules_reached_by_2plus_specs", multiSpec)
	c.Count("relative_from_file", w.relFile)
	c.Count("relative_from_cwd", w.relCwd)
	c.Count("lib_imports", w.libImports)
	c.Count("shadowed_lib_lookups", w.shadowSkips)
	c.Count("lazy_imports_in_functions", w.lazyCalls)
	c.Count("missing_module_imports", w.missing)
	c.Count("tolerated_reads_through_failed_ns", w.wildReads)
	if multi > 0 && multiSpec > 0 {
		var shape []string
		for _, m := range g.mods {
			shape = append(shape, strings.TrimPrefix(m.path(), root)+"|"+m.source())
		}
		var codes []string
		for _, s := range steps {
			codes = append(codes, strings.TrimPrefix(s.File, root)+"|"+strings.TrimPrefix(s.Chdir, root)+"|"+s.Code)
		}
		c.Nontrivial(shape, codes)
	}
	if c.I < 40 {
		kind := "graph"
		if w.cycleHits > 0 && w.failedEvals > 0 {
			kind = "graph-with-cycle-and-failure"
		} else if w.cycleHits > 0 {
			kind = "graph-with-cycle"
		} else if w.failedEvals > 0 {
			kind = "graph-with-failure"
		}
		wit := witness()
		delete(wit, "got_log")
		delete(wit, "got_counts")
		wit["root"] = "<scratch>"
		for i := range steps {
			steps[i].File = strings.TrimPrefix(steps[i].File, root+"/")
			steps[i].Chdir = strings.TrimPrefix(steps[i].Chdir, root+"/")
		}
		c.Sample(kind, wit)
	}
}

// Spec returns the check for C22.
func Spec() *mon.Spec {
	return &mon.Spec{
		ID: "C22", Level: "exploration",
		Rule: "case = generated graph of 1..6 module files in two library directories and a project tree (random directories, imports by library spec or by ./ ../ relative spec, explicit and derived aliases, self/mutual cycles, a module shadowed in the second library directory, modules that `fail` on their first 1..2 evaluations at a random top-level position, missing modules, imports inside module functions) plus a script of 6..25 evaluation steps on ONE interpreter (chdir; `use` from file sources in random directories and from non-file code; reads/writes of module variables through aliases, through module functions and through the modules' own imports; `is` on namespaces). A reference model of the documented rules predicts every step's result class, the complete log of `v-obs` observations (incl. module top-level reads in cycles: defined-so-far or $nil) and each module's evaluation count (`v-loaded`). Non-trivial = a case in which some module was imported again after being cached or during its own evaluation AND some module was named by >= 2 different specs; distinct by module texts + step texts.",
		Assumptions: []string{
			"values read through a namespace whose evaluation failed (only reachable when a successfully cached module imported it circularly) are not demanded: the documentation does not say what such an importer sees",
			"only leading ../ components are generated in relative specs (no a/../b), library directories are clean absolute paths, no symlinks",
			"top-level code never writes or calls names of a circularly imported module that are not yet defined (documented only for reads: $nil)",
			"`use` inside `eval`-ed strings is not generated (neither file nor prompt: undocumented base)",
			"library directories are searched in list order (command.md lists them in order)",
		},
		Phases: []mon.Phase{{Name: "graph", Quick: 8000, Thorough: 80000, Run: runGraph}},
		Floors: map[string]int{"distinct_nontrivial": 800, "cycle_hits": 500, "failed_evaluations": 500,
			"reevaluations_after_failure": 200, "modules_reached_by_2plus_specs": 800, "relative_from_file": 1000,
			"relative_from_cwd": 1000, "lib_imports": 1000, "lazy_imports_in_functions": 100, "shadowed_lib_lookups": 30,
			"cache_hits": 2000},
	}
}
