// Package c10 monitors the order builtin (property C10): its output is a
// stable sorted permutation of the input under the documented comparator,
// and failures are atomic (exception, nothing output).
package c10

import (
	"fmt"
	"math"
	"math/big"
	"math/rand"
	"strings"

	"src.elv.sh/pkg/eval"
	"src.elv.sh/pkg/eval/vals"
	"verifharness/internal/elv"
	"verifharness/internal/gen"
	"verifharness/internal/mon"
)

var (
	ev    *eval.Evaler
	ranks map[string]int
)

func setup(e *mon.Env) {
	ev = elv.New()
	reps := []*gen.Model{gen.Nil(), gen.Bool(true), gen.Str("s"), gen.Int(1), gen.List(), gen.Map(nil, nil)}
	ranks = map[string]int{}
	for _, a := range reps {
		n := 0
		for _, b := range reps {
			if vals.CmpTotal(a.Value(), b.Value()) == vals.CmpMore {
				n++
			}
		}
		ranks[gen.TypeName(a)] = n
	}
}

func rank(t string) int { return ranks[t] }

// ---------------------------------------------------------------------------
// key domains: small sets of mutually comparable values

func dyadic(r *rand.Rand) *gen.Model { // exactly representable both as an exact number and as a float
	n := int64(r.Intn(41) - 20)
	d := int64(1) << uint(r.Intn(4))
	if r.Intn(2) == 0 {
		return gen.Rat(big.NewRat(n, d))
	}
	return gen.Float(float64(n) / float64(d))
}

func domain(r *rand.Rand, kind string, size int) []*gen.Model {
	var out []*gen.Model
	strs := []string{"", "a", "ab", "abc", "b", "B", "10", "9", "1", "a好", "a\xff", "\xff", "~", "-", "é", "z", "a b", "\x00"}
	for len(out) < size {
		switch kind {
		case "string":
			if r.Intn(4) == 0 {
				out = append(out, gen.Str(gen.GenStr(r)))
			} else {
				out = append(out, gen.Str(strs[r.Intn(len(strs))]))
			}
		case "exact":
			out = append(out, gen.GenExact(r))
		case "smallint":
			out = append(out, gen.Int(r.Intn(7)-3))
		case "float":
			switch r.Intn(6) {
			case 0:
				out = append(out, []*gen.Model{gen.Float(math.NaN()), gen.Float(math.Float64frombits(0x7ff8000000000123)), gen.Float(math.Inf(1)), gen.Float(math.Inf(-1)), gen.Float(0), gen.Float(math.Copysign(0, -1))}[r.Intn(6)])
			default:
				out = append(out, gen.GenFloat(r))
			}
		case "mixednum": // exact and inexact, away from the float-unification finding of C09
			out = append(out, dyadic(r))
		case "bool":
			out = append(out, gen.Bool(r.Intn(2) == 0))
		case "list":
			sub := domain(r, []string{"string", "smallint", "mixednum", "float", "bool"}[r.Intn(5)], 3)
			for len(out) < size {
				l := &gen.Model{Kind: gen.KList}
				for i := r.Intn(4); i > 0; i-- {
					l.Elems = append(l.Elems, sub[r.Intn(len(sub))])
				}
				out = append(out, l)
			}
		case "listlist":
			inner := domain(r, "list", 4)
			for len(out) < size {
				l := &gen.Model{Kind: gen.KList}
				for i := r.Intn(3); i > 0; i-- {
					l.Elems = append(l.Elems, inner[r.Intn(len(inner))])
				}
				out = append(out, l)
			}
		}
	}
	return out
}

var comparableKinds = []string{"string", "string", "exact", "smallint", "float", "mixednum", "bool", "list", "list", "listlist"}

func genLen(r *rand.Rand) int {
	switch r.Intn(10) {
	case 0, 1, 2:
		return r.Intn(14)
	case 3, 4:
		return 11 + r.Intn(32)
	case 5:
		return []int{0, 1, 2, 12, 13, 19, 20, 21, 39, 40, 41, 60, 300}[r.Intn(13)]
	case 6:
		return 100 + r.Intn(201)
	default:
		return r.Intn(100)
	}
}

// ---------------------------------------------------------------------------

type item struct {
	m   *gen.Model // the element
	key *gen.Model // what the comparator sees
	v   any
}

func sameObject(a, b any) bool {
	switch a := a.(type) {
	case nil:
		return b == nil
	case bool, string, int:
		return a == b
	case float64:
		bf, ok := b.(float64)
		return ok && (math.Float64bits(a) == math.Float64bits(bf))
	case *big.Int:
		bb, ok := b.(*big.Int)
		return ok && a == bb
	case *big.Rat:
		bb, ok := b.(*big.Rat)
		return ok && a == bb
	case vals.List:
		bb, ok := b.(vals.List)
		return ok && a == bb
	case vals.Map:
		bb, ok := b.(vals.Map)
		return ok && a == bb
	}
	return false
}

type scenario struct {
	name    string
	setup   string // Elvish code run before (defines callbacks)
	options string
	items   []item
	less    func(a, b *gen.Model) bool // strict weak order on keys (nil: error scenario)
	reverse bool
	wantErr string // "" = success expected; otherwise substring expected in the exception's reason
	anyErr  bool   // any exception is fine
	pipe    bool
}

func cmpLess(a, b *gen.Model) bool { c := gen.RefCmp(a, b); return c.OK && c.Ord < 0 }
func totalLess(a, b *gen.Model) bool {
	return gen.RefCmpTotal(a, b, rank).Ord < 0
}

func mkItems(r *rand.Rand, n int, dom []*gen.Model, wrap string) []item {
	items := make([]item, n)
	for i := range items {
		k := dom[r.Intn(len(dom))]
		var m *gen.Model
		switch wrap {
		case "pair": // [key tag]
			m = gen.List(k, gen.Str(fmt.Sprintf("t%03d", i)))
		case "pair-rev": // [tag key]
			m = gen.List(gen.Str(fmt.Sprintf("t%03d", i)), k)
		default:
			m = k
		}
		items[i] = item{m: m, key: k, v: m.Value()}
	}
	return items
}

func genScenario(c *mon.Case) *scenario {
	r := c.Rand
	n := genLen(r)
	kind := comparableKinds[r.Intn(len(comparableKinds))]
	dsize := 1 + r.Intn(6)
	if r.Intn(4) == 0 {
		dsize = 1 + r.Intn(n/2+1)
	}
	dom := domain(r, kind, dsize)
	sc := &scenario{reverse: r.Intn(3) == 0, pipe: r.Intn(5) == 0}
	mode := r.Intn(20)
	switch {
	case mode < 5: // default comparator
		sc.name = "default:" + kind
		sc.items = mkItems(r, n, dom, "")
		sc.less = cmpLess
	case mode < 9: // &key
		sc.less = cmpLess
		switch r.Intn(4) {
		case 0:
			sc.name = "key-first:" + kind
			sc.setup = `var f = {|x| put $x[0] }`
			sc.items = mkItems(r, n, dom, "pair")
		case 1:
			sc.name = "key-second:" + kind
			sc.setup = `var f = {|x| put $x[1] }`
			sc.items = mkItems(r, n, dom, "pair-rev")
		case 2: // key = number of elements
			sc.name = "key-count"
			sc.setup = `var f = {|x| count $x }`
			ld := domain(r, "list", 1+r.Intn(8))
			sc.items = mkItems(r, n, ld, "")
			for i := range sc.items {
				sc.items[i].key = gen.Int(len(sc.items[i].m.Elems))
			}
		default: // strings sorted as numbers
			sc.name = "key-num"
			sc.setup = `var f = $num~`
			nd := domain(r, []string{"smallint", "exact", "mixednum"}[r.Intn(3)], dsize)
			sc.items = make([]item, n)
			for i := range sc.items {
				k := nd[r.Intn(len(nd))]
				m := gen.Str(k.NumText())
				sc.items[i] = item{m: m, key: k, v: m.Value()}
			}
		}
		sc.options = "&key=$f"
	case mode < 12: // &less-than
		sc.options = "&less-than=$f"
		switch r.Intn(5) {
		case 0:
			sc.name = "less-than-compare:" + kind
			sc.setup = `var f = {|a b| == -1 (compare $a $b) }`
			sc.items = mkItems(r, n, dom, "")
			sc.less = cmpLess
		case 1:
			sc.name = "less-than-num-lt"
			sc.setup = `var f = {|a b| < $a $b }`
			sc.items = mkItems(r, n, domain(r, []string{"smallint", "exact", "mixednum"}[r.Intn(3)], dsize), "")
			sc.less = cmpLess
		case 2:
			sc.name = "less-than-num-gt"
			sc.setup = `var f = {|a b| > $a $b }`
			sc.items = mkItems(r, n, domain(r, []string{"smallint", "exact", "mixednum"}[r.Intn(3)], dsize), "")
			sc.less = func(a, b *gen.Model) bool { return cmpLess(b, a) }
		case 3:
			sc.name = "less-than-str"
			sc.setup = `var f = {|a b| <s $a $b }`
			sc.items = mkItems(r, n, domain(r, "string", dsize), "")
			sc.less = cmpLess
		default: // together with &key
			sc.name = "less-than+key:" + kind
			sc.setup = `var f = {|a b| == 1 (compare $a $b) }; var g = {|x| put $x[0] }`
			sc.options = "&less-than=$f &key=$g"
			sc.items = mkItems(r, n, dom, "pair")
			sc.less = func(a, b *gen.Model) bool { return cmpLess(b, a) }
		}
	case mode < 15: // &total over mixed types
		sc.name = "total"
		sc.options = "&total"
		sc.less = totalLess
		var md []*gen.Model
		for i := 0; i < 2+r.Intn(8); i++ {
			switch r.Intn(8) {
			case 0:
				md = append(md, gen.Nil())
			case 1:
				md = append(md, gen.Bool(r.Intn(2) == 0))
			case 2:
				md = append(md, domain(r, "string", 1)[0])
			case 3:
				md = append(md, domain(r, "mixednum", 1)[0])
			case 4:
				md = append(md, domain(r, "float", 1)[0])
			case 5: // maps: unordered type, all tie
				md = append(md, gen.Map([]*gen.Model{gen.Str("k")}, []*gen.Model{gen.Int(r.Intn(3))}))
			case 6: // lists over mixed scalars (compared recursively with &total)
				l := &gen.Model{Kind: gen.KList}
				for j := r.Intn(3); j > 0; j-- {
					l.Elems = append(l.Elems, []*gen.Model{gen.Str("a"), gen.Int(1), gen.Bool(true), gen.Nil(), gen.Str("b")}[r.Intn(5)])
				}
				md = append(md, l)
			default:
				md = append(md, domain(r, "smallint", 1)[0])
			}
		}
		sc.items = mkItems(r, n, md, "")
		if r.Intn(3) == 0 {
			sc.name = "total+key"
			sc.setup = `var g = {|x| put $x[0] }`
			sc.options = "&total &key=$g"
			sc.items = mkItems(r, n, md, "pair")
		}
	default:
		genErrorScenario(c, sc, n, kind, dom)
	}
	if sc.reverse {
		sc.options += " &reverse"
	}
	return sc
}

func genErrorScenario(c *mon.Case, sc *scenario, n int, kind string, dom []*gen.Model) {
	r := c.Rand
	if n < 2 {
		n = 2 + r.Intn(12)
	}
	switch r.Intn(9) {
	case 0: // values of two or more types, each pair across types uncomparable
		sc.name = "err-uncomparable-types"
		others := []*gen.Model{gen.Nil(), gen.Bool(true), gen.Str("x"), gen.Int(1), gen.Float(1.5), gen.List(gen.Str("x")), gen.Map(nil, nil)}
		var md []*gen.Model
		for {
			o := others[r.Intn(len(others))]
			if gen.TypeName(o) != gen.TypeName(dom[0]) {
				md = append(dom, o)
				break
			}
		}
		sc.items = mkItems(r, n, md, "")
		// make sure both types occur
		p1 := r.Intn(n)
		p2 := (p1 + 1 + r.Intn(n-1)) % n
		o := md[len(md)-1]
		sc.items[p1] = item{m: o, key: o, v: o.Value()}
		sc.items[p2] = item{m: dom[0], key: dom[0], v: dom[0].Value()}
		sc.wantErr = "must be comparable values"
	case 1: // two different maps
		sc.name = "err-uncomparable-maps"
		md := []*gen.Model{gen.Map([]*gen.Model{gen.Str("a")}, []*gen.Model{gen.Int(1)}), gen.Map([]*gen.Model{gen.Str("a")}, []*gen.Model{gen.Int(2)})}
		sc.items = mkItems(r, n, md, "")
		sc.items[0] = item{m: md[0], key: md[0], v: md[0].Value()}
		sc.items[n-1] = item{m: md[1], key: md[1], v: md[1].Value()}
		sc.wantErr = "must be comparable values"
	case 2: // lists that differ first at a position holding different types
		sc.name = "err-uncomparable-in-lists"
		a, b := gen.List(gen.Str("p"), gen.Str("x")), gen.List(gen.Str("p"), gen.Int(1))
		sc.items = mkItems(r, n, []*gen.Model{a, b}, "")
		sc.items[0] = item{m: a, key: a, v: a.Value()}
		sc.items[n-1] = item{m: b, key: b, v: b.Value()}
		sc.wantErr = "must be comparable values"
	case 3: // &key callback throws at its k-th call
		k := 1 + r.Intn(n)
		if r.Intn(3) == 0 {
			k = n
		}
		sc.name = "err-key-throws"
		sc.setup = fmt.Sprintf(`var cnt = 0; var f = {|x| set cnt = (+ $cnt 1); if (== $cnt %d) { %sfail key-boom }; put $x[0] }`, k, []string{"", "put $x[0]; "}[r.Intn(2)])
		sc.options = "&key=$f"
		sc.items = mkItems(r, n, dom, "pair")
		sc.wantErr = "key-boom"
	case 4: // &less-than callback throws at its k-th call (k found by a dry run)
		sc.name = "err-less-than-throws"
		sc.items = mkItems(r, n, dom, "")
		sc.options = "&less-than=$f"
		sc.setup = "DRYRUN"
		sc.wantErr = "lt-boom"
	case 5: // callback with a wrong number of outputs
		sc.name = "err-less-than-arity"
		sc.setup = []string{`var f = {|a b| put $true $false }`, `var f = {|a b| }`, `var f = {|a b| nop }`}[r.Intn(3)]
		sc.options = "&less-than=$f"
		sc.items = mkItems(r, n, dom, "")
		sc.wantErr = "arity mismatch"
	case 6:
		sc.name = "err-less-than-not-bool"
		sc.setup = []string{`var f = {|a b| put x }`, `var f = {|a b| put 1 }`, `var f = {|a b| put (num 1) }`, `var f = {|a b| put $nil }`, `var f = {|a b| put [] }`}[r.Intn(5)]
		sc.options = "&less-than=$f"
		sc.items = mkItems(r, n, dom, "")
		sc.wantErr = "bad value"
	case 7:
		sc.name = "err-key-arity"
		sc.setup = []string{`var f = {|x| put $x $x }`, `var f = {|x| }`}[r.Intn(2)]
		if r.Intn(2) == 0 { // only the k-th call misbehaves
			sc.setup = fmt.Sprintf(`var cnt = 0; var f = {|x| set cnt = (+ $cnt 1); if (== $cnt %d) { put a b } else { put $x } }`, 1+r.Intn(n))
		}
		sc.options = "&key=$f"
		sc.items = mkItems(r, n, dom, "")
		sc.wantErr = "arity mismatch"
	default: // &total together with &less-than: an error whatever the input
		sc.name = "err-total-and-less-than"
		sc.setup = `var f = {|a b| == -1 (compare $a $b) }`
		sc.options = "&total &less-than=$f"
		if r.Intn(3) == 0 {
			n = r.Intn(2)
		}
		sc.items = mkItems(r, n, dom, "")
		sc.anyErr = true
		sc.wantErr = "both"
	}
}

// refOrder returns the indices of the items in the expected output order:
// a stable insertion sort under less (reversed: descending, ties in input order).
func refOrder(sc *scenario) []int {
	idx := make([]int, 0, len(sc.items))
	before := func(i, j int) bool { // must item i come strictly before item j?
		if sc.reverse {
			return sc.less(sc.items[j].key, sc.items[i].key)
		}
		return sc.less(sc.items[i].key, sc.items[j].key)
	}
	for i := range sc.items {
		p := len(idx)
		for p > 0 && before(i, idx[p-1]) {
			p--
		}
		idx = append(idx, 0)
		copy(idx[p+1:], idx[p:])
		idx[p] = i
	}
	return idx
}

func runOrder(c *mon.Case) {
	sc := genScenario(c)
	n := len(sc.items)
	vs := make([]any, n)
	ms := make([]string, 0, 8)
	for i, it := range sc.items {
		vs[i] = it.v
		if i < 8 {
			ms = append(ms, gen.Describe(it.m))
		}
	}
	elv.SetVar(ev, "l", vals.MakeList(vs...))
	cmd := "order " + sc.options + " $l"
	if sc.pipe {
		cmd = "all $l | order " + sc.options
	}
	wit := map[string]any{"scenario": sc.name, "setup": sc.setup, "command": cmd, "length": n, "first_elements": ms}

	if sc.setup == "DRYRUN" {
		// count the comparator calls of a run that does not throw, then throw at call k
		res := elv.Eval(ev, `var cnt = 0; var f = {|a b| set cnt = (+ $cnt 1); == -1 (compare $a $b) }; `+cmd+` | nop (all); put $cnt`)
		c.Evals(1)
		total := 0
		if res.Err == nil && len(res.Values) == 1 {
			total, _ = res.Values[0].(int)
		}
		if total < 1 {
			c.Inconclusive("dry-run-failed")
			return
		}
		k := 1 + c.Rand.Intn(total)
		switch c.Rand.Intn(3) {
		case 0:
			k = total
		case 1:
			k = 1
		}
		// the callback may have written its (well-formed) answer before it fails;
		// the failure still has to be reported
		pre := []string{"", "", "put $true; ", "put $false; ", "put (== -1 (compare $a $b)); "}[c.Rand.Intn(5)]
		if pre != "" {
			c.Count("less_than_throws_after_output", 1)
		}
		sc.setup = fmt.Sprintf(`var cnt = 0; var f = {|a b| set cnt = (+ $cnt 1); if (== $cnt %d) { %sfail lt-boom }; == -1 (compare $a $b) }`, k, pre)
		wit["setup"] = sc.setup
		wit["comparator_calls_in_dry_run"] = total
		c.Max("less_than_calls", total)
		if k == total {
			c.Count("less_than_throws_at_last_call", 1)
		}
	}
	code := cmd
	if sc.setup != "" {
		code = sc.setup + "\n" + cmd
	}
	res := elv.Eval(ev, code)
	c.Evals(1)
	c.Count("scenario_"+strings.SplitN(sc.name, ":", 2)[0], 1)
	if sc.reverse {
		c.Count("reverse", 1)
	}
	if sc.pipe {
		c.Count("inputs_from_pipe", 1)
	}
	c.Max("length", n)
	switch {
	case n <= 12:
		c.Count("len_0_12", 1)
	case n <= 41:
		c.Count("len_13_41", 1)
	default:
		c.Count("len_42_300", 1)
	}

	// ----- failure expected
	if sc.wantErr != "" {
		c.Count("error_scenarios", 1)
		c.Nontrivial(sc.name, n, sc.setup, ms)
		if res.Err == nil {
			c.Violation("no-exception:"+sc.name, fmt.Sprintf("%s with %d values succeeds, an exception was expected (%s)", cmd, n, sc.name), wit)
			return
		}
		if !elv.IsException(res.Err) {
			c.Violation("not-an-exception:"+sc.name, fmt.Sprintf("%s fails with %v, which is not an exception", cmd, res.Err), wit)
			return
		}
		reason := fmt.Sprint(elv.Reason(res.Err))
		if !sc.anyErr && !strings.Contains(reason, sc.wantErr) {
			c.Violation("wrong-exception:"+sc.name, fmt.Sprintf("%s throws %s, expected an exception mentioning %s", cmd, mon.Q(reason), mon.Q(sc.wantErr)), wit)
		}
		if len(res.Values) != 0 || len(res.Bytes) != 0 {
			c.Violation("output-before-exception:"+sc.name, fmt.Sprintf("%s throws (%s) after writing %d values and %d bytes", cmd, reason, len(res.Values), len(res.Bytes)), wit)
		}
		c.Sample(sc.name, wit)
		return
	}

	// ----- success expected
	if res.Err != nil {
		c.Violation("unexpected-error:"+sc.name, fmt.Sprintf("%s with %d mutually comparable values fails: %v", cmd, n, res.Err), wit)
		return
	}
	out := res.Values
	exp := refOrder(sc)
	ties := 0
	for i := 1; i < len(exp); i++ {
		a, b := sc.items[exp[i-1]].key, sc.items[exp[i]].key
		if !sc.less(a, b) && !sc.less(b, a) {
			ties++
		}
	}
	c.Count("adjacent_ties_in_expected_output", ties)
	if n >= 2 && ties > 0 {
		c.Nontrivial(sc.name, sc.options, n, ms, ties)
	}
	if len(out) != n {
		c.Violation("not-a-permutation:"+sc.name, fmt.Sprintf("%s: %d values in, %d values out", cmd, n, len(out)), wit)
		return
	}
	good := true
	for i := range out {
		if !sameObject(out[i], sc.items[exp[i]].v) {
			good = false
			break
		}
	}
	if good {
		if n > 1 {
			c.Sample(sc.name, map[string]any{"scenario": sc.name, "command": cmd, "setup": sc.setup, "length": n, "first_elements": ms, "first_outputs": elv.Reprs(out[:min(n, 6)])})
		}
		return
	}
	// classify the difference: map outputs back to input positions
	used := make([]bool, n)
	pos := make([]int, n)
	perm := true
	for i, o := range out {
		pos[i] = -1
		for j := range sc.items {
			if !used[j] && sameObject(o, sc.items[j].v) {
				used[j], pos[i] = true, j
				break
			}
		}
		if pos[i] < 0 {
			perm = false
		}
	}
	kindOf := "differs-from-reference"
	if !perm {
		kindOf = "not-a-permutation"
	} else {
		for i := 1; i < n; i++ {
			a, b := sc.items[pos[i-1]].key, sc.items[pos[i]].key
			wrong := sc.less(b, a)
			if sc.reverse {
				wrong = sc.less(a, b)
			}
			if wrong {
				kindOf = "not-sorted"
				break
			}
			if !sc.less(a, b) && !sc.less(b, a) && pos[i-1] > pos[i] {
				kindOf = "unstable"
			}
		}
	}
	wit["outputs"] = elv.Reprs(out[:min(n, 40)])
	var expReprs []string
	for _, j := range exp[:min(n, 40)] {
		expReprs = append(expReprs, vals.ReprPlain(sc.items[j].v))
	}
	wit["expected"] = expReprs
	c.Violation(kindOf+":"+sc.name, fmt.Sprintf("%s on %d values: output is %s (outputs %v, expected %v)", cmd, n, kindOf, elv.Reprs(out[:min(n, 10)]), expReprs[:min(n, 10)]), wit)
}

func Spec() *mon.Spec {
	return &mon.Spec{
		ID:            "C10",
		SpinViolation: true, Level: "exploration",
		Rule: "case = one call of order on a list variable (1/5: fed through a pipe) of length 0..300 (dense at 0..13 and 11..42) whose keys come from a small domain (1..6 values, so ties are frequent) of mutually comparable values: strings, exact numbers, floats incl. NaN/±0/±Inf, exact+inexact mixes that are exactly representable, bools, lists and lists of lists of those; comparator variants: default, &key (element [key tag], count, num of strings), &less-than (compare, <, >, <s, with &key), &total over mixed types incl. maps, each with and without &reverse. The output must be, element by element and by object identity, the stable sort of the input under the documented comparator (own insertion sort over the reference compare), descending with input order among ties for &reverse. Error cases (6/20): uncomparable types / maps / list elements, &key or &less-than callback throwing at its k-th call (k up to the last call, found by a dry run), wrong arity, non-bool, &total with &less-than: an exception with the right reason and no output at all. Non-trivial = a success case with at least one tie between adjacent outputs, or any error case.",
		Assumptions: []string{
			"with &reverse, values that compare equal keep their input order (property statement)",
			"sequences mixing exact and inexact numbers only use values exactly representable in both (the float-unification finding of C09 is kept out)",
			"no list built by slicing is used (finding cmptotal-list-representation of C09)",
			"&less-than callbacks are strict weak orders; for arbitrary callbacks the documentation promises nothing",
		},
		ChildSetup: setup,
		Phases:     []mon.Phase{{Name: "order", Quick: 18000, Thorough: 100000, Run: runOrder}},
		Floors: map[string]int{"distinct_nontrivial": 1200, "adjacent_ties_in_expected_output": 20000, "error_scenarios": 500, "reverse": 600, "inputs_from_pipe": 300,
			"len_0_12": 500, "len_13_41": 500, "len_42_300": 500, "length": 300, "scenario_default": 400, "scenario_total": 150, "scenario_key-first": 80,
			"scenario_less-than-compare": 30, "scenario_err-less-than-throws": 30, "scenario_err-key-throws": 30, "less_than_throws_at_last_call": 8, "less_than_throws_after_output": 10},
	}
}
