package c36

import (
	"math/rand"
	"regexp"
	"strings"

	"src.elv.sh/pkg/md"
	"verifharness/internal/mon"
)

// Targeted workloads for the two places where FmtCodec has to choose an
// escaping: link/image titles (three delimiters, chosen by counting quote and
// parenthesis characters) and the start of a written line (anything that
// looks like a block marker has to be escaped, on paragraph continuation
// lines as well as at reflow break points). The oracles are the same as
// everywhere else in this check.

func pickS(r *rand.Rand, xs ...string) string { return xs[r.Intn(len(xs))] }

// titleAlphabet: both quote kinds, both parentheses, backslashes, escapes and
// character references that decode to those characters.
var titleAlphabet = []string{
	`"`, `"`, `'`, `'`, `(`, `)`, `)`, `(`, `\`, `\\`, `\"`, `\'`, `\(`, `\)`, `&quot;`, `&#39;`, `&#40;`, `&#41;`, `&apos;`,
	`&amp;`, `&`, `\&`, `&#92;`, `a`, `b`, ` `, `*`, `_`, "`", `<`, `>`, `&#10;`, `é`,
}

// rawTitle returns title source text that is valid inside the delimiter: the
// characters that would end (or, for parentheses, invalidate) the title are
// backslash-escaped.
func rawTitle(r *rand.Rand, open byte) string {
	n := 1 + r.Intn(8)
	var sb strings.Builder
	heavy := r.Intn(3) == 0 // many quotes of both kinds: parentheses become the rarest
	for i := 0; i < n; i++ {
		p := titleAlphabet[r.Intn(len(titleAlphabet))]
		if heavy && i%2 == 0 {
			p = pickS(r, `"'`, `'"`, `""''`, `'"'`, `&quot;'`)
		}
		switch {
		case open == '"' && p == `"`, open == '\'' && p == `'`, open == '(' && (p == "(" || p == ")"):
			p = `\` + p
		}
		sb.WriteString(p)
	}
	s := sb.String()
	// a trailing lone backslash would escape the closing delimiter
	if strings.HasSuffix(s, `\`) && !strings.HasSuffix(s, `\\`) {
		s += "a"
	}
	return s
}

func titleDoc(r *rand.Rand) string {
	open := []byte{'"', '\'', '('}[r.Intn(3)]
	closer := map[byte]string{'"': `"`, '\'': `'`, '(': `)`}[open]
	title := string(open) + rawTitle(r, open) + closer
	dest := pickS(r, "/u", "x", "<a b>", "", "u(v)", "<>", "http://a.b/c?d=e&f")
	if dest == "" {
		dest = "<>"
	}
	text := pickS(r, "a", "a b", "", "*a*", "`c`", "a\nb")
	body := pickS(r, "[", "![") + text + "](" + dest + pickS(r, " ", "  ", "\n") + title + pickS(r, "", " ") + ")"
	pre := pickS(r, "", "", "x ", "> ", "- ", "1. ", "# ", "see ")
	post := pickS(r, "", "", " y", "\nz", ".")
	return pre + body + post + "\n"
}

// lookalikes: text that is a block marker if it starts a line.
var lookalikes = []string{
	"1.", "01.", "001)", "0001.", "0.", "10.", "1)", "2.", "9)", "123456789.", "1234567890.", "00.", "010.",
	"-", "+", "*", "#", "##", "######", "#######", ">", ">>", "===", "=", "---", "--", "- - -", "***", "* * *", "___", "_ _ _",
	"```", "````", "~~~", "~~~~", "``", "~~", "<div>", "<!-- c -->", "</div>", "<a>", "<?x?>", "    ", "1.a", "-a", "#a", "+1",
}

func lookalike(r *rand.Rand) string {
	l := lookalikes[r.Intn(len(lookalikes))]
	switch r.Intn(8) {
	case 0: // backslash-escaped first punctuation
		for i := 0; i < len(l); i++ {
			if strings.IndexByte("-+*#>=_`~.)<", l[i]) >= 0 {
				return l[:i] + `\` + l[i:]
			}
		}
	case 1: // reference-escaped first character
		return "&#" + itoa(int(l[0])) + ";" + l[1:]
	}
	return l
}

func itoa(n int) string {
	if n == 0 {
		return "0"
	}
	var b []byte
	for ; n > 0; n /= 10 {
		b = append([]byte{byte('0' + n%10)}, b...)
	}
	return string(b)
}

var plainWords = []string{"a", "b", "foo", "bar", "x1", "é", "好", "it", "42", "I", "see", "word"}

// lineStartDoc: paragraphs whose continuation lines, or whose words (for
// reflow), are block-marker lookalikes; optionally inside containers.
func lineStartDoc(r *rand.Rand) string {
	nl := 2 + r.Intn(3)
	var lines []string
	for i := 0; i < nl; i++ {
		var ws []string
		nw := r.Intn(4)
		if i == 0 || r.Intn(3) > 0 {
			if i == 0 && r.Intn(3) > 0 {
				ws = append(ws, plainWords[r.Intn(len(plainWords))])
			} else {
				ws = append(ws, lookalike(r))
			}
		}
		for j := 0; j < nw; j++ {
			if r.Intn(3) == 0 {
				ws = append(ws, lookalike(r))
			} else {
				ws = append(ws, plainWords[r.Intn(len(plainWords))])
			}
		}
		if len(ws) == 0 {
			ws = []string{plainWords[r.Intn(len(plainWords))]}
		}
		l := strings.Join(ws, pickS(r, " ", " ", " ", "  "))
		if i > 0 {
			l = pickS(r, "", "", "", " ", "   ", "    ", "      ") + l
		}
		if i < nl-1 {
			l += pickS(r, "", "", "", "  ", `\`)
		}
		lines = append(lines, l)
	}
	first, rest := "", ""
	switch r.Intn(8) {
	case 0:
		first, rest = "> ", "> "
	case 1:
		first, rest = "- ", "  "
	case 2:
		first, rest = "1. ", "   "
	case 3:
		first, rest = "> - ", ">   "
	case 4:
		first, rest = "> ", "" // lazy continuation
	}
	for i := range lines {
		if i == 0 {
			lines[i] = first + lines[i]
		} else {
			lines[i] = rest + lines[i]
		}
	}
	return strings.Join(lines, "\n") + pickS(r, "\n", "\n", "")
}

// headingDoc: ATX headings whose text ends in (or is) a "{...}" group in all
// escaping variants; pkg/md's heading-attribute extension makes an unescaped
// trailing " {...}" an attribute, so the formatter has to keep text as text.
func headingDoc(r *rand.Rand) string {
	h := strings.Repeat("#", 1+r.Intn(6))
	var ws []string
	for n := r.Intn(3); n > 0; n-- {
		ws = append(ws, pickS(r, "title", "a", "*b*", "`c`", "é", "[l](u)", "x{y}", "\\{z}"))
	}
	inner := pickS(r, "d", "#id", "#id .c", "a b", "`c`", "*e*", "\\}", "&#125;", "{", "1")
	tail := pickS(r, "{"+inner+"}", "\\{"+inner+"}", "{"+inner+"\\}", "&#123;"+inner+"}", "{"+inner+"&#125;", "&#x7b;"+inner+"&#x7D;",
		"{"+inner+"}{x}", "{"+inner+"} {x}", "\\{"+inner+"} {#i}", "{}", "{ }", "}", "{", "{"+inner, "{"+inner+"}.", "`{"+inner+"}`")
	tail = strings.ReplaceAll(tail, "\\\\", "\\")
	sep := pickS(r, " ", " ", "  ", "&#32;", "\\ ", "")
	sep = strings.ReplaceAll(sep, "\\\\", "\\")
	line := h + " " + strings.Join(ws, " ")
	if len(ws) > 0 {
		line += sep
	}
	line += tail + pickS(r, "", "", "", " #", " ##  ", "  ")
	pre := pickS(r, "", "", "", "> ", "- ", "1. ", "para\n")
	return pre + line + pickS(r, "\n", "\n", "", "\ntext\n")
}

var (
	escapedLineStart = regexp.MustCompile(`(?m)^[ >]*(?:[-*] +|[0-9]+[.)] +)*(?:[0-9]{1,9}\\[.)]|\\[-+>#~=_*` + "`" + `<]|&#[0-9]+;|&NewLine;|    <)`)
	leadingZeroOne   = regexp.MustCompile(`(?m)(?:^|[ \n>])0+1\\?[.)](?: |$)`)
)

func runTargeted(c *mon.Case) {
	r := c.Rand
	per := c.Env.Pick(60, 400)
	for k := 0; k < per; k++ {
		if which := r.Intn(5); which == 4 {
			doc := headingDoc(r)
			var tc md.TraceCodec
			md.Render(doc, &tc)
			for _, op := range tc.Ops() {
				if op.Type != md.OpHeading {
					continue
				}
				if op.Info != "" {
					c.Count("heading_with_attribute", 1)
				} else if headingEndsInBraceGroup(op) {
					c.Count("heading_text_ends_in_brace_group", 1)
				}
			}
			judge(c, doc, pickWidth(r), "heading")
		} else if which < 2 {
			doc := titleDoc(r)
			w := pickWidth(r)
			// what the formatter has to choose between (as pkg/md parses it)
			var tc md.TraceCodec
			md.Render(doc, &tc)
			for _, op := range tc.Ops() {
				for _, in := range op.Content {
					if in.Type != md.OpLinkStart && in.Type != md.OpImage || in.Text == "" {
						continue
					}
					t := in.Text
					dq, sq := strings.Count(t, `"`), strings.Count(t, `'`)
					par := strings.Count(t, "(") + strings.Count(t, ")")
					c.Count("title_parsed", 1)
					switch {
					case dq > 0 && sq > 0 && par > 0 && par < dq && par < sq:
						c.Count("title_needs_paren_form_with_parens", 1)
						if strings.Contains(t, ")") {
							c.Count("title_paren_form_with_closing_paren", 1)
						}
					case dq > 0 && sq > 0 && par > 0:
						c.Count("title_all_three_kinds", 1)
					case dq > 0 && sq > 0:
						c.Count("title_both_quotes", 1)
					}
					if strings.Contains(t, `\`) {
						c.Count("title_with_backslash", 1)
					}
				}
			}
			judge(c, doc, w, "title")
		} else {
			doc := lineStartDoc(r)
			w := pickWidth(r)
			if r.Intn(2) == 0 {
				w = 1 + r.Intn(12) // force break points before almost every word
			}
			if leadingZeroOne.MatchString(doc) {
				c.Count("linestart_leading_zero_one", 1)
			}
			v := check(doc, w)
			if !strings.HasPrefix(v.oracle, "skip:") && escapedLineStart.MatchString(v.formatted) {
				c.Count("linestart_escaped_in_output", 1)
				if w > 0 {
					c.Count("linestart_escaped_in_reflow_output", 1)
				}
			}
			judge(c, doc, w, "linestart")
		}
	}
}

var braceGroupAtEnd = regexp.MustCompile(`(?:^| )\{[^}]+\}$`)

// headingEndsInBraceGroup: the heading has no attributes but its text content
// ends in " {...}" (so the source must have escaped it somehow).
func headingEndsInBraceGroup(op md.Op) bool {
	if op.Info != "" || len(op.Content) == 0 {
		return false
	}
	var sb strings.Builder
	for _, in := range op.Content {
		switch in.Type {
		case md.OpText:
			sb.WriteString(in.Text)
		case md.OpCodeSpan:
			sb.WriteString("`" + in.Text + "`")
		default:
			sb.WriteString("\x01")
		}
	}
	last := op.Content[len(op.Content)-1]
	return last.Type == md.OpText && braceGroupAtEnd.MatchString(sb.String())
}

var _ = mon.Q
