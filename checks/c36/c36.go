// Package c36 runs the maintainers' own fuzz oracles for the Markdown
// formatter (pkg/md FmtCodec) on every change, with many more inputs than the
// checked-in corpus: formatting preserves the HTML rendering (exactly without
// reflow, modulo whitespace inside paragraphs with reflow), the result is a
// fixed point of the formatter, and breakable lines fit the width
// (property C36).
package c36

import (
	"embed"
	"fmt"
	"html"
	"io/fs"
	"math/rand"
	"regexp"
	"sort"
	"strconv"
	"strings"
	"time"
	"unicode/utf8"

	"src.elv.sh/pkg/md"
	"src.elv.sh/pkg/wcwidth"
	"verifharness/checks/c35"
	"verifharness/internal/gen"
	"verifharness/internal/mon"
)

//go:embed corpus
var corpusFS embed.FS

type seed struct {
	md string
	w  int
	ok bool // w is meaningful
}

var seeds []seed

// The supplemental formatter cases of the package's own test file (inputs only).
var supplemental = []string{
	"~~~ ~`\n~~~", "*&#32;x*", "*x&#32;*", "&#65;*!*", "*!*&#65;", "*&#32;*", `\![a](b)`, `[a](b ('"))`,
	`[a](b "\"''()")`, `[a](b '\'""()')`, `[a](b (\(''""))`, `[a](<&NewLine;>)`, "&#32;foo", "foo&#32;",
	"# title {#id}", "- ```\n  a\n\n  ```\n", "> <pre>\n\na\n", "- <pre>\n a\n", "> a\n>> b\n", ">> a\n>\n> b\n", "- \n  \na\n", "a\n- -\n", "a\n- 2.\n",
	"a*$*", `[a](\&gt;)`, `[a](b (\&gt;))`, `[a](http://( "b")`, `[a](b (()))`, `[a](http://b?c&d)`, "![a\\\nb](c.png)\n", "![a <a></a>](b.png)", "<http://&gt;>", "a<", "a<!--", "a  \n",
}

var (
	fuzzString = regexp.MustCompile(`(?m)^string\((.*)\)$`)
	fuzzInt    = regexp.MustCompile(`(?m)^int\((-?[0-9]+)\)$`)
)

func loadSeeds() {
	seeds = nil
	for _, ex := range c35.AllExamples() {
		seeds = append(seeds, seed{md: ex.Markdown})
	}
	for _, s := range supplemental {
		seeds = append(seeds, seed{md: s})
	}
	var names []string
	_ = fs.WalkDir(corpusFS, "corpus", func(p string, d fs.DirEntry, err error) error {
		if err == nil && !d.IsDir() {
			names = append(names, p)
		}
		return nil
	})
	sort.Strings(names)
	for _, n := range names {
		b, _ := corpusFS.ReadFile(n)
		m := fuzzString.FindSubmatch(b)
		if m == nil {
			continue
		}
		s, err := strconv.Unquote(string(m[1]))
		if err != nil {
			continue
		}
		sd := seed{md: s}
		if mi := fuzzInt.FindSubmatch(b); mi != nil {
			sd.w, _ = strconv.Atoi(string(mi[1]))
			sd.ok = true
		}
		seeds = append(seeds, sd)
	}
}

// ---------------------------------------------------------------------------
// the oracles: the maintainers' own (pkg/md/fmt_test.go), with their skip
// conditions and normalisation

func renderHTML(s string) string { return md.RenderString(s, &md.HTMLCodec{}) }

var (
	paragraphRe        = regexp.MustCompile(`(?s)<p>.*?</p>`)
	whitespaceRunRe    = regexp.MustCompile(`[ \t\n]+`)
	brWithWhitespaceRe = regexp.MustCompile(`[ \t\n]*<br />[ \t\n]*`)
	markersRe          = regexp.MustCompile(`^ *(?:(?:[-*>]|[0-9]{1,9}[.)]) *)*`)
	linkRe             = regexp.MustCompile(`\[.*\]\(.*\)`)
	codeSpanRe         = regexp.MustCompile("`.*`")
)

// moduloParagraphWhitespace: "same HTML up to whitespace inside paragraphs".
func moduloParagraphWhitespace(h string) string {
	return paragraphRe.ReplaceAllStringFunc(h, func(p string) string {
		body := strings.Trim(p[3:len(p)-4], " \t\n")
		body = whitespaceRunRe.ReplaceAllLiteralString(body, " ")
		body = brWithWhitespaceRe.ReplaceAllLiteralString(body, "<br />")
		return "<p>" + body + "</p>"
	})
}

// verdict of one (input, width) pair: "" = all oracles hold, "skip:..." =
// outside the property's quantifier, otherwise the violated oracle.
type verdict struct {
	oracle    string
	formatted string
	detail    string
}

func check(original string, w int) verdict {
	if !utf8.ValidString(original) {
		return verdict{oracle: "skip:invalid-utf8"}
	}
	if strings.Contains(original, "\t") {
		return verdict{oracle: "skip:tab"}
	}
	codec := &md.FmtCodec{Width: w}
	formatted := md.RenderString(original, codec)
	if codec.Unsupported() != nil {
		return verdict{oracle: "skip:unsupported-emphasis"}
	}
	v := verdict{formatted: formatted}
	// 1. meaning preserved
	oh, fh := renderHTML(original), renderHTML(formatted)
	if w <= 0 {
		if oh != fh {
			v.oracle, v.detail = "html-changed", fmt.Sprintf("html(original)=%q html(formatted)=%q", oh, fh)
			return v
		}
	} else if !strings.Contains(original, "<p>") && !strings.Contains(original, "</p>") {
		if moduloParagraphWhitespace(oh) != moduloParagraphWhitespace(fh) {
			v.oracle, v.detail = "reflow-html-changed", fmt.Sprintf("html(original)=%q html(formatted)=%q", oh, fh)
			return v
		}
	}
	// 2. formatting the output again changes nothing
	if again := md.RenderString(formatted, &md.FmtCodec{}); again != formatted {
		v.oracle, v.detail = "not-idempotent", fmt.Sprintf("fmt(formatted)=%q", again)
		return v
	}
	// 3. breakable lines fit the width
	if w > 0 {
		var trace md.TraceCodec
		md.Render(original, &trace)
		for _, op := range trace.Ops() {
			switch op.Type {
			case md.OpHeading, md.OpCodeBlock, md.OpHTMLBlock:
				return v
			}
		}
		for _, line := range strings.Split(formatted, "\n") {
			if wcwidth.Of(line) <= w {
				continue
			}
			content := line[len(markersRe.FindString(line)):]
			switch {
			case !strings.Contains(content, " "):
			case strings.Contains(content, "<"):
			case linkRe.MatchString(content):
			case codeSpanRe.MatchString(content):
			default:
				v.oracle, v.detail = "line-too-wide", fmt.Sprintf("line %q is wider than %d", line, w)
				return v
			}
		}
	}
	return v
}

// ---------------------------------------------------------------------------

func constructs(doc string) string {
	var tc md.TraceCodec
	md.Render(doc, &tc)
	set := map[string]bool{}
	for _, op := range tc.Ops() {
		n := strings.TrimPrefix(op.Type.String(), "Op")
		n = strings.TrimSuffix(strings.TrimSuffix(n, "Start"), "End")
		if n != "Paragraph" && n != "ListItem" {
			set[n] = true
		}
		for _, in := range op.Content {
			m := strings.TrimPrefix(in.Type.String(), "Op")
			m = strings.TrimSuffix(strings.TrimSuffix(m, "Start"), "End")
			if m != "Text" {
				set[m] = true
			}
		}
	}
	var names []string
	for n := range set {
		names = append(names, n)
	}
	sort.Strings(names)
	if len(names) == 0 {
		return "Text"
	}
	return strings.Join(names, "+")
}

// classify names the defect class of a shrunk counterexample. Known classes
// are recognised by the construct that triggers them (as pkg/md itself parses
// the shrunk input); everything else is oracle + reflow + construct set.
func classify(oracle string, small string, w int) string {
	var tc md.TraceCodec
	md.Render(small, &tc)
	ops := tc.Ops()
	for i, op := range ops {
		if op.Type == md.OpHTMLBlock && i > 0 && ops[i-1].Type == md.OpListItemStart && strings.HasPrefix(op.Lines[0], " ") {
			// FmtCodec's special path for an HTML block with leading spaces as
			// the first child of a list item (blank first line + shortened marker)
			return "fmt-html-block-leading-space-first-in-list-item"
		}
		if op.Type == md.OpHeading && headingEndsInBraceGroup(op) {
			// heading text that ends in a "{...}" group: must not be written so
			// that it reads as pkg/md's heading-attribute extension
			return "fmt-heading-text-ending-in-brace-group"
		}
		if op.Type == md.OpParagraph && len(op.Content) >= 2 && op.Content[1].Type == md.OpRawHTML {
			f := op.Content[0]
			if f.Type == md.OpNewLine || (f.Type == md.OpText && strings.TrimSpace(f.Text) == "") {
				// a paragraph that starts with escaped whitespace followed by raw HTML
				return "fmt-escaped-space-then-raw-html-at-paragraph-start"
			}
		}
	}
	wc := "w0"
	if w > 0 {
		wc = "reflow"
	}
	return oracle + ":" + wc + ":" + constructs(small)
}

var widths = []int{0, 0, 0, 1, 2, 5, 20, 51, 80}

func pickWidth(r *rand.Rand) int {
	switch k := r.Intn(12); {
	case k < 9:
		return widths[k]
	case k < 11:
		return 3 + r.Intn(60)
	default:
		return -r.Intn(200)
	}
}

func judge(c *mon.Case, original string, w int, kind string) {
	c.Evals(1)
	v := check(original, w)
	if strings.HasPrefix(v.oracle, "skip:") {
		c.Count(strings.Replace(v.oracle, ":", "_", 1), 1)
		return
	}
	c.Count("decided", 1)
	c.Count("decided_"+kind, 1)
	if w > 0 {
		c.Count("decided_reflow", 1)
	}
	if v.formatted != original {
		c.Nontrivial(original, w)
		c.Count("formatting_changed_text", 1)
	}
	for _, n := range strings.Split(constructs(original), "+") {
		c.Count("seen_"+n, 1)
	}
	c.Sample(kind, map[string]any{"markdown": original, "width": w, "formatted": v.formatted})
	if v.oracle == "" {
		return
	}
	small := c35.Shrink(original, 1500, func(s string) bool { return check(s, w).oracle == v.oracle })
	sv := check(small, w)
	c.Violation(classify(v.oracle, small, w),
		fmt.Sprintf("formatter oracle %s violated for %s at width %d: formatted %s; %s", v.oracle, mon.Q(small), w, mon.Q(sv.formatted), sv.detail),
		map[string]any{"markdown": small, "width": w, "formatted": sv.formatted, "detail": sv.detail, "original": original})
}

func runCorpus(c *mon.Case) {
	sd := seeds[c.I%len(seeds)]
	ws := []int{0, 1, 2, 5, 20, 51, 80, 3 + c.Rand.Intn(60)}
	if sd.ok {
		ws = append(ws, sd.w)
	}
	for _, w := range ws {
		judge(c, sd.md, w, "corpus")
	}
}

func runGen(c *mon.Case) {
	r := c.Rand
	per := c.Env.Pick(60, 400)
	for k := 0; k < per; k++ {
		var doc, kind string
		switch j := r.Intn(10); {
		case j < 5:
			doc, kind = gen.MdDoc(r, 4, 3), "grammar"
		case j < 8:
			doc, kind = gen.MdInlineDoc(r, 8), "inline"
		default:
			doc, kind = gen.MdSoup(r, 5, 10), "soup"
		}
		judge(c, doc, pickWidth(r), kind)
	}
}

func runMutate(c *mon.Case) {
	r := c.Rand
	per := c.Env.Pick(60, 400)
	for k := 0; k < per; k++ {
		var s string
		if r.Intn(4) == 0 {
			s = gen.MdDoc(r, 3, 2)
		} else {
			s = seeds[r.Intn(len(seeds))].md
		}
		for n := 1 + r.Intn(4); n > 0; n-- {
			s = gen.Mutate(r, s)
		}
		judge(c, s, pickWidth(r), "mutated")
	}
}

// Spec returns the check.
func init() { loadSeeds() }

func Spec() *mon.Spec {
	return &mon.Spec{
		ID:            "C36",
		SpinViolation: true,
		Level:         "exploration",
		Rule: "Inputs: every CommonMark spec example, the package's supplemental formatter cases and the checked-in fuzz corpus at widths {0,1,2,5,20,51,80,random,corpus width}; grammar-generated documents, inline paragraphs and token soups (internal/gen/markdown.go) at random widths; 1-4 byte-level mutations of the seeds; targeted documents: links/images whose titles are drawn from both quote kinds, parentheses, backslashes, escapes and character references in all three title delimiters, and paragraphs whose continuation lines and words (reflow break points, widths 1-12) are block-marker lookalikes (1. 01. 001) 0. 10. - + * # > === --- fences, HTML, with and without escapes), also inside block quotes and list items; ATX headings whose text ends in a '{...}' group in every escaping variant (backslash, character reference, code span, real attribute, with closers). " +
			"Skipped exactly as the maintainers' fuzz targets do: invalid UTF-8, tabs, FmtCodec.Unsupported() != nil. Oracles: html(fmt(x)) == html(x) (width <= 0: exact; width > 0: modulo whitespace inside <p> and around <br />, input without <p>/</p>); fmt(fmt_w(x)) == fmt_w(x); with width > 0 and no heading/code/HTML block every line wider than the width has no space after its markers or contains '<', a link or a code span. " +
			"Non-trivial: distinct (input, width) pairs that were decided and whose formatted text differs from the input.",
		Assumptions: []string{
			"md.UnescapeHTML is html.UnescapeString in the workers, as in the package's own formatter tests.",
			"'Formatting the output again changes nothing' is checked as the maintainers do: the (re)formatting uses FmtCodec{} (no reflow).",
			"The whitespace normalisation and the 'breakable line' criterion are the maintainers' (fmt_test.go).",
		},
		ChildSetup: func(e *mon.Env) { md.UnescapeHTML = html.UnescapeString },
		Phases: []mon.Phase{
			{Name: "corpus", Quick: len(seeds), Thorough: len(seeds), Run: runCorpus, Timeout: 300 * time.Second},
			{Name: "gen", Quick: 1500, Thorough: 3000, Run: runGen, Timeout: 300 * time.Second},
			{Name: "mutate", Quick: 1500, Thorough: 3000, Run: runMutate, Timeout: 300 * time.Second},
			{Name: "targeted", Quick: 1500, Thorough: 3000, Run: runTargeted, Timeout: 300 * time.Second},
		},
		Floors: map[string]int{
			"decided":                   40000,
			"decided_corpus":            3000,
			"decided_reflow":            15000,
			"formatting_changed_text":   20000,
			"skip_unsupported-emphasis": 1000,
			"distinct_nontrivial":       20000,
			"seen_BulletList":           2000,
			"seen_Blockquote":           2000,
			"seen_CodeBlock":            2000,
			"seen_HTMLBlock":            2000,
			"seen_Link":                 2000,
			"seen_Emphasis":             2000,
			"seen_HardLineBreak":        1000,
			// targeted phase: the escaping decisions must really be reached
			"title_parsed":                        10000,
			"title_needs_paren_form_with_parens":  600,
			"title_paren_form_with_closing_paren": 300,
			"title_both_quotes":                   1500,
			"title_with_backslash":                2500,
			"linestart_escaped_in_output":         8000,
			"linestart_escaped_in_reflow_output":  7000,
			"linestart_leading_zero_one":          2000,
			"heading_text_ends_in_brace_group":    1500,
			"heading_with_attribute":              1500,
		},
	}
}
