package c36

import (
	"fmt"
	"html"
	"math/rand"
	"os"
	"sort"
	"strconv"
	"testing"

	"src.elv.sh/pkg/md"
	"verifharness/checks/c35"
	"verifharness/internal/gen"
)

func TestIter(t *testing.T) {
	md.UnescapeHTML = html.UnescapeString
	n, _ := strconv.Atoi(os.Getenv("N"))
	sd, _ := strconv.Atoi(os.Getenv("SEED"))
	r := rand.New(rand.NewSource(int64(sd)))
	seen := map[string]int{}
	first := map[string]string{}
	stats := map[string]int{}
	run := func(doc string, w int) {
		v := check(doc, w)
		stats[v.oracle]++
		if v.oracle == "" || v.oracle[:4] == "skip" {
			return
		}
		small := c35.Shrink(doc, 1500, func(s string) bool { return check(s, w).oracle == v.oracle })
		sv := check(small, w)
		sig := classify(v.oracle, small, w)
		seen[sig]++
		if _, ok := first[sig]; !ok {
			first[sig] = fmt.Sprintf("w=%d %q -> %q\n    %s", w, small, sv.formatted, sv.detail)
		}
	}
	for _, s := range seeds {
		for _, w := range []int{0, 1, 2, 5, 20, 51, 80} {
			run(s.md, w)
		}
		if s.ok {
			run(s.md, s.w)
		}
	}
	for i := 0; i < n; i++ {
		var doc string
		switch j := r.Intn(14); {
		case j < 5:
			doc = gen.MdDoc(r, 4, 3)
		case j < 8:
			doc = gen.MdInlineDoc(r, 8)
		case j < 10:
			doc = gen.MdSoup(r, 5, 10)
		default:
			doc = seeds[r.Intn(len(seeds))].md
			for k := 1 + r.Intn(4); k > 0; k-- {
				doc = gen.Mutate(r, doc)
			}
		}
		run(doc, pickWidth(r))
	}
	fmt.Println(stats)
	var sigs []string
	for s := range seen {
		sigs = append(sigs, s)
	}
	sort.Strings(sigs)
	for _, s := range sigs {
		fmt.Printf("%s x%d: %s\n", s, seen[s], first[s])
	}
}
