// Package c20 monitors peach and run-parallel (property C20): every task is
// run at most once (exactly once without break/fail), concurrency never
// exceeds the bound, the output is the union of the callbacks' outputs, the
// command returns after every started callback has finished, every exception
// is reported, and `peach &num-workers=1` is observably the same as `each`.
package c20

import (
	"fmt"
	"runtime"
	"sort"
	"strings"
	"time"

	"src.elv.sh/pkg/eval"
	"src.elv.sh/pkg/eval/errs"
	"src.elv.sh/pkg/eval/vals"
	"verifharness/internal/elv"
	"verifharness/internal/mon"
	"verifharness/internal/sched"
)

// The callback: its behaviour is a pure function of the input value x (tables
// $dly, $outs, $dly2, $acts indexed by x).
const callbackSrc = `
var f = {|x|
  v-enter g $x
  v-yield $dly[$x]
  for o $outs[$x] {
    if (eq $o[0] v) { put $o } elif (eq $o[0] b) { print $o"\n" } else { echo $o }
    v-yield $dly2[$x]
  }
  v-leave g $x
  var a = $acts[$x]
  if (eq $a b) { break } elif (eq $a c) { continue } elif (eq $a f) { fail F$x }
}
`

type pcase struct {
	N      int      `json:"n"`
	Bound  string   `json:"bound"` // Elvish text of &num-workers
	BoundN int      `json:"bound_n"`
	Src    int      `json:"input_source"` // 0 list argument, 1 `put $@xs |`, 2 `all $xs |`
	Acts   []string `json:"acts"`         // n normal, c continue, b break, f fail
	Dly    []int    `json:"-"`
	Dly2   []int    `json:"-"`
	Outs   [][]string
	Echo   bool `json:"echo_bytes"`
	Gmp    int  `json:"gomaxprocs"`
	// GoCB: the peach/each callback is the Go builtin $v-pc~ (same behaviour
	// table; failures are plain Go errors, not Exceptions)
	GoCB bool `json:"go_builtin_callback,omitempty"`
}

// goErr is the plain (non-Exception) error returned by the harness' Go
// builtins.
type goErr struct{ msg string }

func (e goErr) Error() string { return e.msg }

func (p *pcase) cmd(name string) string {
	opt := ""
	if name == "peach" {
		opt = " &num-workers=(num " + p.Bound + ")"
	}
	var body string
	switch p.Src {
	case 0:
		body = name + opt + " $f $xs"
	case 1:
		body = "put $@xs | " + name + opt + " $f"
	default:
		body = "all $xs | " + name + opt + " $f"
	}
	if p.GoCB {
		body = strings.ReplaceAll(body, "$f", "$v-pc~")
	}
	return callbackSrc + "try { " + body + " } finally { v-mark main ret }\n"
}

func toList(ss []string) any { return vals.MakeListSlice(ss) }
func intList(is []int) any {
	ss := make([]string, len(is))
	for i, v := range is {
		ss[i] = fmt.Sprint(v)
	}
	return vals.MakeListSlice(ss)
}

type runResult struct {
	rec    *sched.Rec
	res    elv.Result
	events []sched.Event
	retAt  uint64 // stamp taken after Eval returned
}

func (p *pcase) run(code string) *runResult {
	ev := eval.NewEvaler()
	rec := sched.NewRec(nil)
	sched.Install(ev, rec)
	xs := make([]string, p.N)
	outs := make([]any, p.N)
	for i := range xs {
		xs[i] = fmt.Sprint(i)
		outs[i] = toList(p.Outs[i])
	}
	elv.SetVar(ev, "xs", toList(xs))
	elv.SetVar(ev, "dly", intList(p.Dly))
	elv.SetVar(ev, "dly2", intList(p.Dly2))
	elv.SetVar(ev, "acts", toList(p.Acts))
	elv.SetVar(ev, "outs", vals.MakeList(outs...))
	fns := map[string]any{
		// v-pc x: the callback of callbackSrc as a Go builtin
		"v-pc": func(fm *eval.Frame, xv any) error {
			x := vals.ToString(xv)
			var xi int
			if _, err := fmt.Sscan(x, &xi); err != nil || xi < 0 || xi >= p.N {
				return goErr{"bad input " + x}
			}
			rec.Enter("g", "g", x)
			sched.Yield(p.Dly[xi])
			for _, o := range p.Outs[xi] {
				var err error
				if o[0] == 'v' {
					err = fm.ValueOutput().Put(o)
				} else {
					_, err = fm.ByteOutput().WriteString(o + "\n")
				}
				if err != nil {
					return err
				}
				sched.Yield(p.Dly2[xi])
			}
			rec.Leave("g", "g", x)
			if p.Acts[xi] == "f" {
				return goErr{"F" + x}
			}
			return nil
		},
	}
	// run-parallel: Go builtin VALUES given directly as functions, one per position
	for i, a := range p.Acts {
		x, xi := fmt.Sprint(i), i
		switch a {
		case "G", "g":
			fail := a == "G"
			fns["v-rp"+x] = func() error {
				rec.Enter("g", "g", x)
				sched.Yield(p.Dly[xi])
				rec.Leave("g", "g", x)
				if fail {
					return goErr{"G" + x}
				}
				return nil
			}
		case "A":
			fns["v-rp"+x] = func(arg any) {} // does not accept zero arguments
		}
	}
	ev.ExtendBuiltin(eval.BuildNs().AddGoFns(fns))
	res := elv.Eval(ev, code)
	ret := sched.Tick()
	events := rec.Events()
	// let stragglers (there must be none) finish before the next run
	for i := 0; i < 2000 && rec.Running() != 0; i++ {
		time.Sleep(time.Millisecond)
	}
	return &runResult{rec, res, events, ret}
}

func genCase(c *mon.Case) *pcase {
	r := c.Rand
	p := &pcase{}
	switch k := r.Intn(100); {
	case k < 8:
		p.N = r.Intn(3) // 0..2
	case k < 75:
		p.N = 2 + r.Intn(12)
	case k < 95:
		p.N = 14 + r.Intn(50)
	case k < 99:
		p.N = 64 + r.Intn(100)
	default:
		p.N = 164 + r.Intn(337) // up to 500
	}
	bounds := []struct {
		s string
		n int
	}{{"1", 1}, {"1", 1}, {"1", 1}, {"2", 2}, {"2", 2}, {"3", 3}, {"4", 4}, {"8", 8}, {"+inf", 0}, {"+inf", 0},
		{"100000000000000000000", 0}, {"5", 5}, {"7", 7}, {"6", 6}}
	b := bounds[r.Intn(len(bounds))]
	p.Bound, p.BoundN = b.s, b.n
	p.Src = r.Intn(3)
	p.Echo = r.Intn(5) == 0
	p.Gmp = []int{1, 2, 4, 16}[r.Intn(4)]
	// density of break/fail
	var pStop float64
	switch r.Intn(6) {
	case 0, 1:
		pStop = 0
	case 2:
		pStop = 1.0 / float64(p.N+1)
	case 3:
		pStop = 0.08
	case 4:
		pStop = 0.3
	default:
		pStop = 1
	}
	heavy := r.Intn(3) == 0 // longer delays
	p.GoCB = r.Intn(4) == 0
	p.Acts = make([]string, p.N)
	p.Dly = make([]int, p.N)
	p.Dly2 = make([]int, p.N)
	p.Outs = make([][]string, p.N)
	for x := 0; x < p.N; x++ {
		a := "n"
		if r.Float64() < pStop {
			if r.Intn(2) == 0 {
				a = "b"
			} else {
				a = "f"
			}
		} else if r.Intn(5) == 0 {
			a = "c"
		}
		if p.GoCB { // a Go builtin fails with a plain error; it has no break/continue
			if a == "b" {
				a = "f"
			} else if a == "c" {
				a = "n"
			}
		}
		p.Acts[x] = a
		p.Dly[x] = yieldChoice(r.Intn(100), r.Intn(1000), heavy)
		p.Dly2[x] = yieldChoice(r.Intn(100), r.Intn(1000), false)
		no := r.Intn(4)
		if p.N > 100 {
			no = r.Intn(2)
		}
		for j := 0; j < no; j++ {
			kind := "v"
			if r.Intn(3) == 0 {
				kind = "b"
				if p.Echo {
					kind = "e"
				}
			}
			p.Outs[x] = append(p.Outs[x], fmt.Sprintf("%s:%d:%d", kind, x, j))
		}
	}
	return p
}

func yieldChoice(a, b int, heavy bool) int {
	switch {
	case a < 35:
		return 0
	case a < 70:
		return 1 + b%4
	case a < 90:
		return 4 + b%20
	default:
		if heavy {
			return 100 + b%300 // sleep up to 300 us
		}
		return 100 + b%40
	}
}

// observed behaviour of one run
type obs struct {
	starts   []string // x in order of enter stamps
	values   []string
	bytes    string
	failMsgs []string // sorted messages of the reported failures
	errText  string
}

func observe(rr *runResult) (*obs, []string) {
	o := &obs{}
	var problems []string
	for _, e := range rr.events {
		if e.Kind == "enter" {
			o.starts = append(o.starts, e.Arg)
		}
	}
	for _, v := range rr.res.Values {
		o.values = append(o.values, vals.ToString(v))
	}
	o.bytes = string(rr.res.Bytes)
	if rr.res.Err != nil {
		o.errText = rr.res.Err.Error()
		if !elv.IsException(rr.res.Err) {
			problems = append(problems, "not an exception: "+o.errText)
		}
		for _, l := range sched.Leaves(rr.res.Err) {
			if m, ok := sched.FailContent(l.Err); ok {
				o.failMsgs = append(o.failMsgs, m)
			} else if ge, ok := l.Err.(goErr); ok {
				o.failMsgs = append(o.failMsgs, ge.msg)
			} else {
				problems = append(problems, fmt.Sprintf("unexpected error %T %q at %q", l.Err, l.Err.Error(), l.Path))
			}
		}
	}
	return o, problems
}

// checkGeneral applies the clauses that hold for every bound.
func checkGeneral(c *mon.Case, p *pcase, cmd string, rr *runResult, o *obs, problems []string) bool {
	wit := func(extra map[string]any) map[string]any {
		m := map[string]any{"case": p, "command": cmd, "starts": o.starts, "values": o.values, "bytes": mon.Q(o.bytes), "error": o.errText}
		for k, v := range extra {
			m[k] = v
		}
		return m
	}
	ok := true
	fail := func(sig, what string, extra map[string]any) {
		ok = false
		c.Violation(cmd+":"+sig, what, wit(extra))
	}
	for _, pr := range problems {
		fail("unexpected-error", pr, nil)
	}
	// (1) at most once per input
	started := map[string]int{}
	for _, x := range o.starts {
		started[x]++
	}
	for x, n := range started {
		if n > 1 {
			fail("started-twice", fmt.Sprintf("callback for input %s started %d times", x, n), nil)
		}
		var xi int
		if _, err := fmt.Sscan(x, &xi); err != nil || xi < 0 || xi >= p.N {
			fail("started-unknown", "callback started for a value that is not an input: "+x, nil)
			return false
		}
	}
	// (2) exactly once when nothing breaks or fails; the first input always starts
	anyStop := false
	for _, a := range p.Acts {
		if a == "b" || a == "f" {
			anyStop = true
		}
	}
	if !anyStop && len(started) != p.N {
		fail("not-started", fmt.Sprintf("no callback breaks or fails but only %d of %d inputs had their callback started", len(started), p.N), nil)
	}
	if p.N > 0 && started["0"] == 0 {
		fail("first-not-started", "the first input's callback was never started", nil)
	}
	// (3) concurrency bound
	maxRun := rr.rec.GroupMax("g")
	c.Max("concurrency_seen", maxRun)
	if cmd == "peach" && p.BoundN > 0 && maxRun > p.BoundN {
		fail("bound-exceeded", fmt.Sprintf("%d callbacks ran at once with &num-workers=%s", maxRun, p.Bound), nil)
	}
	if cmd == "each" && maxRun > 1 {
		fail("each-concurrent", fmt.Sprintf("each ran %d callbacks at once", maxRun), nil)
	}
	// (4) returns after every started callback has finished
	var retStamp uint64
	leaves := map[string]uint64{}
	for _, e := range rr.events {
		switch e.Kind {
		case "leave":
			leaves[e.Arg] = e.Stamp
		case "mark":
			retStamp = e.Stamp
		}
	}
	if retStamp == 0 {
		fail("no-return-mark", "the finally block after the command did not run", nil)
		retStamp = rr.retAt
	}
	for x := range started {
		lv, has := leaves[x]
		if !has || lv > retStamp {
			fail("returned-before-callback-finished", fmt.Sprintf("command returned (clock %d) while the callback for input %s was still running (leave clock %d, 0 = never seen)", retStamp, x, lv), nil)
			break
		}
	}
	// (5) outputs = union of the outputs of the started callbacks, each in order
	wantV := map[string]bool{}
	var wantBytes []byte
	nWantB := 0
	for x := range started {
		var xi int
		fmt.Sscan(x, &xi)
		for _, s := range p.Outs[xi] {
			if s[0] == 'v' {
				wantV[s] = true
			} else {
				wantBytes = append(wantBytes, s+"\n"...)
				nWantB++
			}
		}
	}
	seenV := map[string]bool{}
	lastJ := map[string]int{}
	for _, v := range o.values {
		if !wantV[v] {
			fail("value-unexpected", "value output "+mon.Q(v)+" was not written by any started callback", nil)
			continue
		}
		if seenV[v] {
			fail("value-duplicated", "value output "+mon.Q(v)+" appears twice", nil)
		}
		seenV[v] = true
		parts := strings.Split(v, ":")
		var j int
		fmt.Sscan(parts[2], &j)
		if lj, has := lastJ[parts[1]]; has && j < lj {
			fail("value-order", "outputs of callback "+parts[1]+" are out of order", nil)
		}
		lastJ[parts[1]] = j
	}
	if len(seenV) != len(wantV) {
		fail("value-missing", fmt.Sprintf("%d of %d value outputs of started callbacks are missing", len(wantV)-len(seenV), len(wantV)), nil)
	}
	if p.Echo {
		// echo writes the text and the newline separately, so concurrent
		// callbacks may interleave inside a line: only the bytes are compared
		if sortedBytes(o.bytes) != sortedBytes(string(wantBytes)) {
			fail("bytes-multiset", "byte output is not a permutation of the bytes written by the started callbacks", map[string]any{"want_some_order": mon.Q(string(wantBytes))})
		}
	} else {
		gotLines := strings.Split(o.bytes, "\n")
		if o.bytes != "" && !strings.HasSuffix(o.bytes, "\n") {
			fail("bytes-torn", "byte output does not end in a newline", nil)
		} else {
			gotLines = gotLines[:len(gotLines)-1]
			seenB := map[string]bool{}
			lastBJ := map[string]int{}
			for _, l := range gotLines {
				parts := strings.Split(l, ":")
				var xi, j int
				valid := len(parts) == 3 && parts[0] == "b"
				if valid {
					_, e1 := fmt.Sscan(parts[1], &xi)
					_, e2 := fmt.Sscan(parts[2], &j)
					valid = e1 == nil && e2 == nil && started[parts[1]] > 0 && xi < p.N && contains(p.Outs[xi], l)
				}
				if !valid {
					fail("line-unexpected", "byte line "+mon.Q(l)+" was not written by any started callback", nil)
					continue
				}
				if seenB[l] {
					fail("line-duplicated", "byte line "+mon.Q(l)+" appears twice", nil)
				}
				seenB[l] = true
				if lj, has := lastBJ[parts[1]]; has && j < lj {
					fail("line-order", "byte lines of callback "+parts[1]+" are out of order", nil)
				}
				lastBJ[parts[1]] = j
			}
			if len(seenB) != nWantB {
				fail("line-missing", fmt.Sprintf("%d of %d byte lines of started callbacks are missing", nWantB-len(seenB), nWantB), nil)
			}
		}
	}
	// (6) every exception of a started callback is reported, nothing else
	var wantF []string
	for x := range started {
		var xi int
		fmt.Sscan(x, &xi)
		if p.Acts[xi] == "f" {
			wantF = append(wantF, "F"+x)
		}
	}
	sort.Strings(wantF)
	gotF := append([]string(nil), o.failMsgs...)
	sort.Strings(gotF)
	if strings.Join(wantF, ",") != strings.Join(gotF, ",") {
		sig := "exceptions"
		if len(gotF) < len(wantF) {
			sig = "exception-lost"
		}
		fail(sig, fmt.Sprintf("failures of started callbacks %v, reported %v", wantF, gotF), nil)
	}
	return ok
}

func contains(ss []string, s string) bool {
	for _, x := range ss {
		if x == s {
			return true
		}
	}
	return false
}

func sortedBytes(s string) string {
	b := []byte(s)
	sort.Slice(b, func(i, j int) bool { return b[i] < b[j] })
	return string(b)
}

// eachModel is the documented behaviour of `each`: callbacks in input order,
// stopping after the first one that breaks or fails.
func eachModel(p *pcase) *obs {
	o := &obs{}
	for x := 0; x < p.N; x++ {
		xs := fmt.Sprint(x)
		o.starts = append(o.starts, xs)
		for _, s := range p.Outs[x] {
			if s[0] == 'v' {
				o.values = append(o.values, s)
			} else {
				o.bytes += s + "\n"
			}
		}
		if p.Acts[x] == "f" {
			o.failMsgs = []string{"F" + xs}
		}
		if p.Acts[x] == "b" || p.Acts[x] == "f" {
			break
		}
	}
	return o
}

func sameObs(a, b *obs) (string, bool) {
	if strings.Join(a.starts, ",") != strings.Join(b.starts, ",") {
		return "start-order", false
	}
	if strings.Join(a.values, ",") != strings.Join(b.values, ",") {
		return "values", false
	}
	if a.bytes != b.bytes {
		return "bytes", false
	}
	if strings.Join(a.failMsgs, ",") != strings.Join(b.failMsgs, ",") {
		return "exception", false
	}
	return "", true
}

func isProperPrefix(a, b []string) bool {
	if len(a) >= len(b) {
		return false
	}
	for i := range a {
		if a[i] != b[i] {
			return false
		}
	}
	return true
}

func runPeach(c *mon.Case) {
	p := genCase(c)
	old := runtime.GOMAXPROCS(p.Gmp)
	defer runtime.GOMAXPROCS(old)
	reps := 5
	if p.N > 100 {
		reps = 1
	} else if p.N > 16 {
		reps = 3
	}
	nStops := 0
	for _, a := range p.Acts {
		if a == "b" || a == "f" {
			nStops++
		}
	}
	var eachObs *obs
	if p.BoundN == 1 {
		rr := p.run(p.cmd("each"))
		o, problems := observe(rr)
		c.Evals(1)
		if !checkGeneral(c, p, "each", rr, o, problems) {
			return
		}
		if what, same := sameObs(o, eachModel(p)); !same {
			c.Violation("each-vs-doc:"+what, "each does not run the callbacks in order up to the first break/failure ("+what+" differ)",
				map[string]any{"case": p, "starts": o.starts, "values": o.values, "bytes": mon.Q(o.bytes), "error": o.errText})
			return
		}
		eachObs = o
		c.Count("each_reference_runs", 1)
	}
	for rep := 0; rep < reps; rep++ {
		rr := p.run(p.cmd("peach"))
		o, problems := observe(rr)
		if rep > 0 {
			c.Evals(1)
		}
		if p.GoCB {
			c.Count("peach_runs_with_go_builtin_callback", 1)
			if len(o.failMsgs) > 0 {
				c.Count("peach_runs_with_go_builtin_callback_failure", 1)
			}
		}
		c.Count("callbacks_started", len(o.starts))
		c.Count("events", len(rr.events))
		if len(o.starts) < p.N {
			c.Count("runs_with_inputs_skipped_after_break_or_fail", 1)
		}
		c.Distinct("interleavings", p.N, p.Bound, sched.Projection(rr.events), enterLeaveOrder(rr.events))
		good := checkGeneral(c, p, "peach", rr, o, problems)
		if eachObs != nil {
			c.Count("bound1_comparisons", 1)
			if nStops > 0 {
				c.Count("bound1_comparisons_with_break_or_fail", 1)
			}
			if what, same := sameObs(o, eachObs); !same {
				sig := "peach1-vs-each:" + what
				if isProperPrefix(eachObs.starts, o.starts) {
					// everything each did, plus callbacks started after the one that broke/failed
					sig = "peach1-vs-each:callbacks-started-after-break-or-fail"
					if len(o.starts) == len(eachObs.starts)+1 {
						// narrow class: exactly ONE more (the input that was already past the `broken` test)
						sig = "peach1-vs-each:one-callback-started-after-break-or-fail"
					}
				}
				c.Violation(sig, fmt.Sprintf("peach &num-workers=1 differs from each (%s): each started %v, peach started %v", what, tail(eachObs.starts), tail(o.starts)),
					map[string]any{"case": p, "each": eachObs, "peach_starts": o.starts, "peach_values": o.values, "peach_bytes": mon.Q(o.bytes), "peach_error": o.errText, "each_error": eachObs.errText})
				good = false
			}
		}
		if !good {
			return
		}
		if rr.rec.GroupMax("g") >= 2 {
			c.Count("runs_with_overlap", 1)
		}
	}
	if p.N >= 2 {
		c.Nontrivial(p.N, p.Bound, p.Src, strings.Join(p.Acts, ""), p.Dly)
	}
	c.Sample(fmt.Sprintf("peach-bound-%s", p.Bound), map[string]any{"program": p.cmd("peach"), "n": p.N, "acts": strings.Join(p.Acts, ""), "gomaxprocs": p.Gmp})
}

func tail(ss []string) []string {
	if len(ss) > 6 {
		return append([]string{"…"}, ss[len(ss)-6:]...)
	}
	return ss
}

func enterLeaveOrder(es []sched.Event) string {
	var sb strings.Builder
	for _, e := range es {
		if e.Kind == "enter" {
			sb.WriteString("+" + e.Arg)
		} else if e.Kind == "leave" {
			sb.WriteString("-" + e.Arg)
		}
	}
	return sb.String()
}

// ---------------------------------------------------------------------------
// run-parallel

func runParallel(c *mon.Case) {
	r := c.Rand
	p := &pcase{Bound: "n/a"}
	switch k := r.Intn(10); {
	case k == 0:
		p.N = r.Intn(2)
	case k < 8:
		p.N = 2 + r.Intn(7)
	default:
		p.N = 9 + r.Intn(40)
	}
	p.Gmp = []int{1, 2, 4, 16}[r.Intn(4)]
	p.Echo = r.Intn(5) == 0
	pFail := []float64{0, 0.1, 0.4, 1}[r.Intn(4)]
	goFns := r.Intn(3) > 0
	p.Acts = make([]string, p.N)
	p.Dly = make([]int, p.N)
	p.Dly2 = make([]int, p.N)
	p.Outs = make([][]string, p.N)
	for x := 0; x < p.N; x++ {
		a := "n"
		if r.Float64() < pFail {
			a = []string{"f", "f", "b", "c"}[r.Intn(4)]
		}
		if goFns && r.Intn(5) < 2 {
			// a Go builtin VALUE given directly: G fails with a plain Go error,
			// g succeeds, A does not accept zero arguments (arity error),
			// N = $nop~, F = $fail~ (arity error with zero arguments)
			a = []string{"G", "G", "g", "A", "N", "F"}[r.Intn(6)]
		}
		p.Acts[x] = a
		p.Dly[x] = yieldChoice(r.Intn(100), r.Intn(1000), true)
		p.Dly2[x] = yieldChoice(r.Intn(100), r.Intn(1000), false)
		for j, no := 0, r.Intn(4); j < no && strings.Contains("nfbc", a); j++ {
			kind := "v"
			if r.Intn(3) == 0 {
				kind = "b"
				if p.Echo {
					kind = "e"
				}
			}
			p.Outs[x] = append(p.Outs[x], fmt.Sprintf("%s:%d:%d", kind, x, j))
		}
	}
	var sb strings.Builder
	sb.WriteString(callbackSrc)
	sb.WriteString("try { run-parallel")
	for x := 0; x < p.N; x++ {
		switch p.Acts[x] {
		case "G", "g", "A":
			fmt.Fprintf(&sb, " $v-rp%d~", x)
		case "N":
			sb.WriteString(" $nop~")
		case "F":
			sb.WriteString(" $fail~")
		default:
			fmt.Fprintf(&sb, " { $f %d }", x)
		}
	}
	sb.WriteString(" } finally { v-mark main ret }\n")
	code := sb.String()
	old := runtime.GOMAXPROCS(p.Gmp)
	defer runtime.GOMAXPROCS(old)
	for rep := 0; rep < 3; rep++ {
		rr := p.run(code)
		if rep > 0 {
			c.Evals(1)
		}
		c.Count("rp_functions_started", countKind(rr.events, "enter"))
		c.Count("events", len(rr.events))
		c.Distinct("interleavings", "rp", p.N, enterLeaveOrder(rr.events))
		c.Max("concurrency_seen_run_parallel", rr.rec.GroupMax("g"))
		if !checkRunParallel(c, p, code, rr) {
			return
		}
	}
	if p.N >= 2 {
		c.Nontrivial("rp", p.N, strings.Join(p.Acts, ""), p.Dly)
	}
	c.Sample("run-parallel", map[string]any{"program": code, "acts": strings.Join(p.Acts, ""), "gomaxprocs": p.Gmp})
}

func countKind(es []sched.Event, kind string) int {
	n := 0
	for _, e := range es {
		if e.Kind == kind {
			n++
		}
	}
	return n
}

func checkRunParallel(c *mon.Case, p *pcase, code string, rr *runResult) bool {
	ok := true
	var starts []string
	leaves := map[string]uint64{}
	var retStamp uint64
	for _, e := range rr.events {
		switch e.Kind {
		case "enter":
			starts = append(starts, e.Arg)
		case "leave":
			leaves[e.Arg] = e.Stamp
		case "mark":
			retStamp = e.Stamp
		}
	}
	errText := ""
	if rr.res.Err != nil {
		errText = rr.res.Err.Error()
	}
	fail := func(sig, what string) {
		ok = false
		c.Violation("run-parallel:"+sig, what, map[string]any{"case": p, "program": code, "starts": starts, "error": errText,
			"values": elv.Reprs(rr.res.Values), "bytes": mon.Q(string(rr.res.Bytes))})
	}
	cnt := map[string]int{}
	for _, x := range starts {
		cnt[x]++
	}
	nGo, nGoFail := 0, 0
	for x := 0; x < p.N; x++ {
		want := 1
		if strings.Contains("ANF", p.Acts[x]) {
			want = 0 // no harness events: $nop~, or the call fails before the function body runs
		}
		if strings.Contains("GgANF", p.Acts[x]) {
			nGo++
		}
		if strings.Contains("GAF", p.Acts[x]) {
			nGoFail++
		}
		if n := cnt[fmt.Sprint(x)]; n != want {
			fail("not-exactly-once", fmt.Sprintf("function %d was started %d times", x, n))
		}
	}
	c.Count("rp_go_builtin_functions", nGo)
	c.Count("rp_go_builtin_failures_expected", nGoFail)
	if len(cnt) > p.N {
		fail("unknown-start", "a function that was not given was started")
	}
	if retStamp == 0 {
		fail("no-return-mark", "the finally block did not run")
	}
	for x := 0; x < p.N; x++ {
		lv, has := leaves[fmt.Sprint(x)]
		if cnt[fmt.Sprint(x)] > 0 && (!has || lv > retStamp) {
			fail("returned-before-function-finished", fmt.Sprintf("run-parallel returned (clock %d) before function %d finished (leave clock %d)", retStamp, x, lv))
			break
		}
	}
	// outputs: union
	var wantV []string
	var wantB []string
	for x := 0; x < p.N; x++ {
		for _, s := range p.Outs[x] {
			if s[0] == 'v' {
				wantV = append(wantV, s)
			} else {
				wantB = append(wantB, s)
			}
		}
	}
	gotV := elv.Reprs(rr.res.Values)
	for i := range gotV {
		gotV[i] = vals.ToString(rr.res.Values[i])
	}
	if !sameMultisetOrdered(wantV, gotV) {
		fail("values", fmt.Sprintf("value outputs are not the union of the functions' outputs (each in order): want %d, got %d", len(wantV), len(gotV)))
	}
	if p.Echo {
		if sortedBytes(strings.Join(wantB, "\n")+nlIf(len(wantB) > 0)) != sortedBytes(string(rr.res.Bytes)) {
			fail("bytes-multiset", "byte output is not a permutation of the bytes written")
		}
	} else {
		b := string(rr.res.Bytes)
		var gotB []string
		if b != "" {
			if !strings.HasSuffix(b, "\n") {
				fail("bytes-torn", "byte output does not end in newline")
			}
			gotB = strings.Split(strings.TrimSuffix(b, "\n"), "\n")
		}
		if !sameMultisetOrdered(wantB, gotB) {
			fail("lines", fmt.Sprintf("byte lines are not the union of the functions' lines (each in order): want %d, got %d", len(wantB), len(gotB)))
		}
	}
	// exceptions: like a pipeline — none: ok; one: itself; several: positional composite
	var failing []int
	for x, a := range p.Acts {
		if a != "n" && a != "g" && a != "N" {
			failing = append(failing, x)
		}
	}
	wantReason := func(x int) string {
		switch p.Acts[x] {
		case "f":
			return "F" + fmt.Sprint(x)
		case "G":
			return "G" + fmt.Sprint(x)
		case "A", "F":
			return "ARITY"
		case "b":
			return "break"
		default:
			return "continue"
		}
	}
	leavesE := sched.Leaves(rr.res.Err)
	got := map[string]string{}
	for _, l := range leavesE {
		got[l.Path] = reasonText(l.Err)
	}
	switch len(failing) {
	case 0:
		if rr.res.Err != nil {
			fail("exception-spurious", "no function throws but run-parallel threw "+errText)
		}
	case 1:
		if len(leavesE) != 1 || leavesE[0].Path != "" || reasonText(leavesE[0].Err) != wantReason(failing[0]) {
			fail("exception-single", fmt.Sprintf("one function throws %q; run-parallel threw %q", wantReason(failing[0]), errText))
		}
	default:
		want := map[string]string{}
		for _, x := range failing {
			want["p"+fmt.Sprint(x)] = wantReason(x)
		}
		if fmt.Sprint(want) != fmt.Sprint(got) {
			sig := "exception-composite"
			if len(got) < len(want) {
				sig = "exception-lost"
			}
			fail(sig, fmt.Sprintf("functions throw %v (by position); run-parallel reported %v", want, got))
		}
		if pe, isPE := elv.Reason(rr.res.Err).(eval.PipelineError); isPE && len(pe.Errors) != p.N {
			fail("exception-composite-length", fmt.Sprintf("composite exception has %d entries for %d functions", len(pe.Errors), p.N))
		}
	}
	if len(failing) > 0 {
		c.Count("rp_runs_with_exceptions", 1)
	}
	return ok
}

func reasonText(e error) string {
	if _, ok := e.(errs.ArityMismatch); ok {
		return "ARITY"
	}
	return e.Error()
}

func nlIf(b bool) string {
	if b {
		return "\n"
	}
	return ""
}

// sameMultisetOrdered: got is a permutation of want in which the items of
// one function ("k:x:j") appear with increasing j.
func sameMultisetOrdered(want, got []string) bool {
	if len(want) != len(got) {
		return false
	}
	w := map[string]int{}
	for _, s := range want {
		w[s]++
	}
	last := map[string]int{}
	for _, s := range got {
		if w[s] == 0 {
			return false
		}
		w[s]--
		parts := strings.Split(s, ":")
		if len(parts) != 3 {
			return false
		}
		var j int
		fmt.Sscan(parts[2], &j)
		if lj, has := last[parts[1]]; has && j < lj {
			return false
		}
		last[parts[1]] = j
	}
	return true
}

func Spec() *mon.Spec {
	return &mon.Spec{
		ID: "C20", Level: "exploration", Race: true,
		Rule: "peach case = N inputs (0..500), a worker bound from {1,2,..8,+inf,10^20}, an input source (list argument, `put $@xs |`, `all $xs |`), and a callback whose behaviour is a pure function of its input x: v-enter, PRNG-chosen yields/sleeps, 0..3 outputs tagged (x,j) on the value band or as byte lines, v-leave, then normal/continue/break/`fail Fx` (density swept 0..1); each case is run 5x (3x above 16 inputs, once above 100) on fresh interpreters at GOMAXPROCS from {1,2,4,16} under the race detector; with bound 1, `each` runs the same callback and inputs on a fresh interpreter and the logs are compared. in a quarter of the peach cases the callback is the Go builtin $v-pc~ with the same behaviour table (failures are plain Go errors). run-parallel case = 0..48 such functions, 3 runs; in two thirds of the cases 40% of the positions are Go builtin VALUES given directly ($v-rpN~ failing with a plain Go error / succeeding / not accepting zero arguments, $nop~, $fail~) mixed with closures. Non-trivial = case with >= 2 inputs/functions, distinct by (N, bound, source, action table, delay table).",
		Assumptions: []string{
			"echo writes its text and the newline with two separate writes, so lines of concurrent callbacks may legally interleave: cases that use echo only compare the byte multiset; line-level union is demanded for single-write `print $line\"\\n\"`",
			"a callback counts as started when its first command (v-enter) runs; 'returns after every callback finished' is decided by the logical clock: every v-leave stamp must be smaller than the stamp of the finally block that follows the command",
			"when some callback breaks or fails the docs leave open which later inputs are still processed for bounds > 1; only 'at most once', 'first input is processed' and the output/exception consistency of the started callbacks are demanded there",
			"the multi-error that peach reports for several failures is an unexported []error type; it is expanded by reflection",
		},
		Phases: []mon.Phase{
			{Name: "peach", Quick: 240, Thorough: 3000, Run: runPeach, GoMaxProcs: 16, Timeout: 180 * time.Second},
			{Name: "run-parallel", Quick: 80, Thorough: 1000, Run: runParallel, GoMaxProcs: 16, Timeout: 180 * time.Second},
		},
		HangViolation: true,
		Floors: map[string]int{"distinct_nontrivial": 70, "callbacks_started": 2000, "bound1_comparisons": 30,
			"bound1_comparisons_with_break_or_fail": 6, "runs_with_overlap": 150, "runs_with_inputs_skipped_after_break_or_fail": 50,
			"rp_functions_started": 400, "rp_runs_with_exceptions": 25, "interleavings": 200, "concurrency_seen": 4,
			"rp_go_builtin_functions": 60, "rp_go_builtin_failures_expected": 30, "peach_runs_with_go_builtin_callback": 50, "peach_runs_with_go_builtin_callback_failure": 10},
	}
}
