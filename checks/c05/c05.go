// Package c05 monitors number <-> string conversion (property C05): typed
// numbers survive to-string/num, documented literals parse to their value in
// canonical form, non-numbers raise.
package c05

import (
	"fmt"
	"math"
	"math/big"
	"math/rand"
	"strings"

	"src.elv.sh/pkg/eval"
	"src.elv.sh/pkg/eval/vals"
	"verifharness/internal/elv"
	"verifharness/internal/elvq"
	"verifharness/internal/gen"
	"verifharness/internal/mon"
)

var ev *eval.Evaler

func setup(e *mon.Env) { ev = elv.New() }

func modelOfNum(v any) (*gen.Model, bool) {
	switch v.(type) {
	case int, *big.Int, *big.Rat, float64:
		return gen.ModelOf(v)
	}
	return nil, false
}

func describeGo(v any) string {
	if v == nil {
		return "nil (not a number)"
	}
	return fmt.Sprintf("%T %s", v, vals.ReprPlain(v))
}

// ---------------------------------------------------------------------------
// (a) typed number -> to-string -> num

func roundtripOne(c *mon.Case, m *gen.Model, viaBuiltin bool) {
	x := m.Value()
	s := vals.ToString(x)
	wit := map[string]any{"number": m.Expr(), "go_type": m.Rep.String(), "string": s}
	back := vals.ParseNum(s)
	bm, ok := modelOfNum(back)
	switch {
	case !ok:
		c.Violation("roundtrip:unparsable:"+m.Rep.String(), fmt.Sprintf("to-string of %s gives %s which num does not accept", m.Expr(), mon.Q(s)), wit)
	case bm.Rep != m.Rep:
		c.Violation("roundtrip:type:"+m.Rep.String()+"->"+bm.Rep.String(), fmt.Sprintf("%s (%s) -> %s -> %s", m.Expr(), m.Rep, mon.Q(s), describeGo(back)), wit)
	case !gen.Same(bm, m):
		sig := "roundtrip:value:" + m.Rep.String()
		if m.Rep == gen.RepFloat && m.F == 0 && bm.F == 0 {
			sig = "roundtrip:zero-sign"
		}
		c.Violation(sig, fmt.Sprintf("%s -> %s -> %s", m.Expr(), mon.Q(s), describeGo(back)), wit)
	}
	// the string form must itself be a documented literal for exactly this number
	p := refParse(s)
	if p.class != valid || !gen.Same(p.want, m) {
		got := "nothing"
		if p.want != nil {
			got = p.want.Expr() + " (" + p.want.Rep.String() + ")"
		}
		c.Violation("tostring:not-documented-literal:"+m.Rep.String(), fmt.Sprintf("to-string of %s gives %s, which the documented syntax reads as %s [%s]", m.Expr(), mon.Q(s), got, p.class), wit)
	}
	if viaBuiltin {
		elv.SetVar(ev, "x", x)
		vs, err := elvq.Values(ev, "var s = (to-string $x); put $s; num $s; eq $x (num (to-string $x))")
		c.Evals(1)
		c.Count("roundtrip_via_builtins", 1)
		if err != nil || len(vs) != 3 {
			c.Violation("roundtrip:builtin-error", fmt.Sprintf("to-string/num of %s: %d values, error %v", m.Expr(), len(vs), err), wit)
			return
		}
		if str, ok := vs[0].(string); !ok || str != s {
			c.Violation("roundtrip:builtin-to-string", fmt.Sprintf("to-string builtin gives %s, vals.ToString %s", describeGo(vs[0]), mon.Q(s)), wit)
		}
		if bm2, ok := modelOfNum(vs[1]); !ok || !gen.Same(bm2, m) {
			c.Violation("roundtrip:builtin-num:"+m.Rep.String(), fmt.Sprintf("num (to-string %s) = %s", m.Expr(), describeGo(vs[1])), wit)
		}
		wantEq := !m.IsNaN()
		if vs[2] != wantEq {
			c.Violation("roundtrip:builtin-eq", fmt.Sprintf("eq $x (num (to-string $x)) = %v for %s", vs[2], m.Expr()), wit)
		}
	}
}

func runRoundtrip(c *mon.Case) {
	r := c.Rand
	const per = 256
	// the fixed boundary list is spread over the first cases
	b := gen.BoundaryNums()
	for i := c.I * 16; i < (c.I+1)*16 && i < len(b); i++ {
		roundtripOne(c, b[i], true)
		c.Count("boundary_numbers", 1)
	}
	for i := 0; i < per; i++ {
		var m *gen.Model
		switch r.Intn(10) {
		case 0, 1, 2, 3:
			m = gen.Float(math.Float64frombits(r.Uint64()))
		case 4:
			// every exponent value gets visited: exponent from the case and item number
			exp := uint64((c.I*per + i) % 2048)
			m = gen.Float(math.Float64frombits(r.Uint64()&^(0x7ff<<52) | exp<<52))
		case 5, 6:
			m = gen.GenFloat(r)
		default:
			m = gen.GenExact(r)
		}
		roundtripOne(c, m, i%64 == 0)
		c.Evals(1)
		switch m.Rep {
		case gen.RepFloat:
			c.Count("floats", 1)
			f := m.F
			switch {
			case math.IsNaN(f):
				c.Count("float_nan", 1)
			case math.IsInf(f, 0):
				c.Count("float_inf", 1)
			case f == 0:
				if math.Signbit(f) {
					c.Count("float_negzero", 1)
				}
			case math.Abs(f) < 2.2250738585072014e-308:
				c.Count("float_subnormal", 1)
			}
			if !math.IsNaN(f) && !math.IsInf(f, 0) {
				c.Distinct("float_exponents", math.Float64bits(f)>>52&0x7ff)
			}
			if strings.ContainsAny(vals.ToString(m.Value()), "e") {
				c.Count("float_printed_scientific", 1)
			}
		case gen.RepInt:
			c.Count("ints", 1)
		case gen.RepBigInt:
			c.Count("bigints", 1)
		case gen.RepBigRat:
			c.Count("rats", 1)
		}
		if m.Rep != gen.RepInt {
			c.Nontrivial("rt", m.Expr())
		}
		if i == 3 {
			c.Sample("roundtrip-"+m.Rep.String(), map[string]any{"number": m.Expr(), "string": vals.ToString(m.Value())})
		}
	}
}

// ---------------------------------------------------------------------------
// (b) literals

func randDigits(r *rand.Rand, base, n int, noLeadingZero bool) string {
	const ds = "0123456789abcdef"
	b := make([]byte, n)
	for i := range b {
		b[i] = ds[r.Intn(base)]
		if i == 0 && noLeadingZero && n > 1 {
			b[i] = ds[1+r.Intn(base-1)]
		}
	}
	return string(b)
}

// decorate inserts underscores between digits and randomises letter case.
func decorate(r *rand.Rand, s string, underscores, mixCase bool) string {
	var sb strings.Builder
	isHexCtx := strings.Contains(strings.ToLower(s), "0x")
	isDig := func(c byte) bool {
		return '0' <= c && c <= '9' || (isHexCtx && ('a' <= c && c <= 'f' || 'A' <= c && c <= 'F'))
	}
	for i := 0; i < len(s); i++ {
		c := s[i]
		if mixCase && r.Intn(2) == 0 && 'a' <= c && c <= 'z' {
			c -= 32
		}
		sb.WriteByte(c)
		// an underscore only between two digits of the same digit run, never
		// touching a base prefix (the "0" of "0x" is followed by a letter)
		if underscores && i+1 < len(s) && isDig(s[i]) && isDig(s[i+1]) && r.Intn(3) == 0 {
			// the leading "0" of a prefix is followed by x/o/b, not a digit, so it is safe;
			// but in hex context "0b1" could be digits: exclude position 0/1 after a sign
			sb.WriteByte('_')
		}
	}
	return sb.String()
}

func genInt(r *rand.Rand, unsigned bool) (string, string) {
	base := []int{10, 10, 10, 16, 8, 2}[r.Intn(6)]
	n := 1 + r.Intn(6)
	switch r.Intn(5) {
	case 0:
		n = 15 + r.Intn(8) // around 2^53 .. 2^64 in decimal
	case 1:
		n = 1 + r.Intn(90)
	}
	var body, kind string
	switch base {
	case 10:
		body, kind = randDigits(r, 10, n, true), "dec"
	case 16:
		body, kind = "0x"+randDigits(r, 16, n, false), "hex"
	case 8:
		body, kind = "0o"+randDigits(r, 8, n, false), "oct"
	default:
		body, kind = "0b"+randDigits(r, 2, n*3, false), "bin"
	}
	if r.Intn(6) == 0 { // exact boundary values in every base
		z := new(big.Int).Lsh(big.NewInt(1), uint([]int{31, 32, 53, 63, 64}[r.Intn(5)]))
		z.Add(z, big.NewInt(int64(r.Intn(5)-2)))
		pre := map[int]string{10: "", 16: "0x", 8: "0o", 2: "0b"}[base]
		body = pre + z.Text(base)
	}
	if !unsigned && r.Intn(3) == 0 {
		body = "-" + body
	}
	return body, kind
}

// genLiteral returns a text in (or just outside) a documented syntax.
func genLiteral(r *rand.Rand) string {
	us, mc := r.Intn(3) == 0, r.Intn(3) == 0
	var s string
	switch r.Intn(12) {
	case 0, 1, 2:
		s, _ = genInt(r, false)
	case 3, 4:
		a, _ := genInt(r, false)
		b, _ := genInt(r, true)
		s = a + "/" + b
	case 5, 6, 7: // decimal point
		s = randDigits(r, 10, 1+r.Intn(20), true) + "." + randDigits(r, 10, 1+r.Intn(20), false)
		if r.Intn(3) == 0 {
			s = "0." + strings.Repeat("0", r.Intn(8)) + randDigits(r, 10, 1+r.Intn(18), false)
		}
		if r.Intn(3) == 0 {
			s += "e" + []string{"", "+", "-"}[r.Intn(3)] + randDigits(r, 10, 1+r.Intn(3), true)
		}
		if r.Intn(3) == 0 {
			s = "-" + s
		}
	case 8, 9: // scientific without point
		exp := randDigits(r, 10, 1+r.Intn(3), true)
		switch r.Intn(8) {
		case 0:
			exp = []string{"308", "309", "310", "323", "324", "325", "400", "5000", "99999999999", "0", "22", "23"}[r.Intn(12)]
		}
		s = randDigits(r, 10, 1+r.Intn(25), true) + "e" + []string{"", "+", "-"}[r.Intn(3)] + exp
		if r.Intn(3) == 0 {
			s = "-" + s
		}
	case 10: // halfway cases and extremes, written out exactly
		s = hardFloatText(r)
		if r.Intn(40) == 0 { // very long integer parts (more digits than any float needs)
			n := 700 + r.Intn(400)
			s = randDigits(r, 10, 1+r.Intn(20), true) + strings.Repeat("0", n)
			if r.Intn(2) == 0 {
				s = randDigits(r, 10, n, true)
			}
			s += []string{"e-", ".0e-", ".5e-"}[r.Intn(3)] + fmt.Sprint(n-r.Intn(300))
		}
	default:
		s = []string{"Inf", "+Inf", "-Inf", "NaN", "inf", "nan"}[r.Intn(6)]
		mc = true
	}
	s = decorate(r, s, us, mc)
	if r.Intn(12) == 0 { // grey-zone and near-miss neighbours of a valid literal
		s = gen.Mutate(r, s)
	}
	return s
}

// hardFloatText writes a number that is exactly halfway between two
// adjacent floats (or just next to halfway) as a long decimal.
func hardFloatText(r *rand.Rand) string {
	f := math.Abs(math.Float64frombits(r.Uint64()))
	switch r.Intn(4) {
	case 0:
		f = math.Float64frombits(uint64(r.Int63n(1 << 53))) // subnormals and small normals
	case 1:
		f = math.MaxFloat64
	}
	if math.IsNaN(f) || math.IsInf(f, 0) {
		f = 1
	}
	next := math.Nextafter(f, math.Inf(1))
	var mid *big.Rat
	if math.IsInf(next, 0) {
		mid = new(big.Rat).SetInt(new(big.Int).Sub(new(big.Int).Lsh(big.NewInt(1), 1024), new(big.Int).Lsh(big.NewInt(1), 970)))
	} else {
		mid = new(big.Rat).Add(new(big.Rat).SetFloat64(f), new(big.Rat).SetFloat64(next))
		mid.Quo(mid, big.NewRat(2, 1))
	}
	// mid = n / 2^k exactly; its decimal expansion is finite: n·5^k / 10^k
	k := mid.Denom().BitLen() - 1
	n := new(big.Int).Mul(mid.Num(), new(big.Int).Exp(big.NewInt(5), big.NewInt(int64(k)), nil))
	switch r.Intn(3) { // exactly halfway, a hair above, a hair below
	case 1:
		n.Mul(n, big.NewInt(1000))
		n.Add(n, big.NewInt(1))
		k += 3
	case 2:
		n.Mul(n, big.NewInt(1000))
		n.Sub(n, big.NewInt(1))
		k += 3
	}
	return n.String() + "e-" + fmt.Sprint(k)
}

func kindOfText(s string) string {
	l := strings.ToLower(s)
	switch {
	case strings.Contains(l, "/"):
		return "rat"
	case strings.Contains(l, "0x"):
		return "hex"
	case strings.Contains(l, "0o"):
		return "oct"
	case strings.Contains(l, "0b"):
		return "bin"
	case strings.Contains(l, "inf"), strings.Contains(l, "nan"):
		return "special"
	case strings.Contains(l, "e"):
		return "float-sci"
	case strings.Contains(l, "."):
		return "float-point"
	}
	return "dec"
}

func checkLiteral(c *mon.Case, s string, viaBuiltin bool) {
	p := refParse(s)
	got := vals.ParseNum(s)
	var gotB any
	var errB error
	if viaBuiltin {
		elv.SetVar(ev, "s", s)
		vs, err := elvq.Values(ev, "num $s")
		c.Evals(1)
		c.Count("literals_via_builtin", 1)
		errB = err
		if err == nil {
			if len(vs) != 1 {
				c.Violation("literal:builtin-count", fmt.Sprintf("num %s outputs %d values", mon.Q(s), len(vs)), nil)
				return
			}
			gotB = vs[0]
		} else if !elv.IsException(err) {
			c.Violation("literal:builtin-not-exception", fmt.Sprintf("num %s fails with a non-exception error: %v", mon.Q(s), err), nil)
		}
		gm, ok1 := modelOfNum(got)
		bm, ok2 := modelOfNum(gotB)
		if ok1 != ok2 || (ok1 && !gen.Same(gm, bm)) {
			c.Violation("literal:builtin-vs-parsenum", fmt.Sprintf("num %s gives %s, vals.ParseNum gives %s", mon.Q(s), describeGo(gotB), describeGo(got)), nil)
		}
		_ = errB
	}
	gm, isNum := modelOfNum(got)
	wit := map[string]any{"literal": s, "class": p.class.String(), "got": describeGo(got)}
	if p.want != nil {
		wit["want"] = p.want.Expr() + " as " + p.want.Rep.String()
	}
	c.Count("class_"+p.class.String(), 1)
	switch p.class {
	case invalid:
		if isNum {
			c.Violation("nonnumber-accepted", fmt.Sprintf("num accepts %s (as %s), which is not a number in any documented syntax", mon.Q(s), describeGo(got)), wit)
		}
	case valid:
		kind := kindOfText(s)
		c.Count("valid_"+kind, 1)
		if strings.Contains(s, "_") {
			c.Count("valid_with_underscore", 1)
		}
		if s != strings.ToLower(s) {
			c.Count("valid_with_uppercase", 1)
		}
		c.Nontrivial("lit", s)
		switch {
		case !isNum:
			c.Violation("literal-rejected:"+kind, fmt.Sprintf("num rejects the documented literal %s (= %s)", mon.Q(s), p.want.Expr()), wit)
		case gm.Rep != p.want.Rep:
			c.Violation("literal-type:"+kind+":"+gm.Rep.String()+"-for-"+p.want.Rep.String(), fmt.Sprintf("num %s gives %s, canonical form is %s (%s)", mon.Q(s), describeGo(got), p.want.Expr(), p.want.Rep), wit)
		case !gen.Same(gm, p.want):
			sig := "literal-value:" + kind
			if gm.Rep == gen.RepFloat && intDigits(s) > 800 {
				sig = "literal-float-over-800-integer-digits"
			}
			if gm.Rep == gen.RepFloat {
				d := math.Abs(float64(int64(math.Float64bits(gm.F)) - int64(math.Float64bits(p.want.F))))
				if d == 1 {
					sig = "literal-rounding:" + kind
				}
			}
			c.Violation(sig, fmt.Sprintf("num %s gives %s, documented value is %s", mon.Q(s), describeGo(got), p.want.Expr()), wit)
		}
	case overflow:
		if isNum && !gen.Same(gm, p.want) && intDigits(s) > 800 {
			c.Violation("literal-float-over-800-integer-digits", fmt.Sprintf("num %s… (%d integer digits) gives %s although the value is beyond the float64 range", mon.Q(s[:40]), intDigits(s), describeGo(got)), wit)
		} else if isNum && !gen.Same(gm, p.want) {
			c.Violation("literal-overflow-value", fmt.Sprintf("num %s gives %s; the value is beyond the float64 range, so only %s or an exception is acceptable", mon.Q(s), describeGo(got), p.want.Expr()), wit)
		}
	case grey:
		if isNum && p.want != nil && !gen.Same(gm, p.want) && !(gm.IsNaN()) {
			// a value was produced for an undocumented spelling: it must still be the obvious one
			if !(gm.Rep == gen.RepInt || gm.Rep == gen.RepBigInt) || !leadingZeroText(s) {
				c.Violation("grey-literal-value", fmt.Sprintf("num %s gives %s, expected %s if accepted at all", mon.Q(s), describeGo(got), p.want.Expr()), wit)
			}
		}
	}
}

// intDigits counts the digits of the integer part of a decimal float text
// (before the point or exponent), without leading zeros and underscores.
func intDigits(s string) int {
	s = strings.TrimLeft(s, "+-")
	if i := strings.IndexAny(s, ".eE"); i >= 0 {
		s = s[:i]
	}
	s = strings.TrimLeft(strings.ReplaceAll(s, "_", ""), "0")
	return len(s)
}

func leadingZeroText(s string) bool {
	t := strings.TrimLeft(s, "+-")
	return len(t) > 1 && t[0] == '0'
}

func runLiteral(c *mon.Case) {
	r := c.Rand
	for i := 0; i < 200; i++ {
		s := genLiteral(r)
		checkLiteral(c, s, i%25 == 0)
		c.Evals(1)
		if i == 7 {
			c.Sample("literal-"+kindOfText(s), map[string]any{"literal": s, "class": refParse(s).class.String(), "num_gives": describeGo(vals.ParseNum(s))})
		}
	}
}

// ---------------------------------------------------------------------------
// (c) non-numbers

var nearMisses = []string{"", " ", " 1", "1 ", "1\n", "\t1", "1_", "_1", "_", "0x", "0X", "0o", "0b", "0b2", "0o8", "0xg", "0xG1",
	"1/0", "0/0", "1//2", "1/", "/2", "/", "1/2/3", "1.5/2", "1/2.5", "1e2/3", "1/1e2", "1/0x0", "1/0b0", "-1/0",
	"1.2.3", "1..2", "--1", "+-1", "-+1", "-", "+", ".", "-.", "e", "e5", "E5", "1e", "1e+", "1e-", "1E", ".e5", "1e5e5", "1e5.5", "1e1.0",
	"1_.5", "1._5", "1e_5", "1_e5", "_1.5", "1.5_", "1e5_", "-_1", "0x1_", "0b1_", "1/2_", "1/_2", "_1/2",
	"abc", "1a", "a1", "12ab", "0x1.8", "0xp1", "NaNx", "Infx", "In", "Na", "N", "I", "Infi", "nane", "xInf", "1Inf", "Inf1", "NaN1", "1NaN",
	"１２", "1,5", "1 2", "1\x002", "\xff", "1\xff", "½", "٣", "1'", "'1'", "(num 1)", "$nil", "1;", "1#", "0x-1", "0b-1", "1-", "1+", "1-2", "1+2",
	"0x1/2/", "1e", "e", "--Inf", "+-Inf", "Inf-", "1.0.0", "1:2", "1%", "%1", "#1", "~1", "1~"}

func runNonNumber(c *mon.Case) {
	r := c.Rand
	for i := 0; i < 100; i++ {
		var s string
		switch r.Intn(4) {
		case 0:
			s = nearMisses[(c.I*100+i)%len(nearMisses)]
		case 1: // a near miss with random digits substituted
			s = nearMisses[r.Intn(len(nearMisses))]
			s = strings.Map(func(ch rune) rune {
				if ch >= '1' && ch <= '9' && r.Intn(2) == 0 {
					return rune('1' + r.Intn(9))
				}
				return ch
			}, s)
		case 2: // a valid literal broken by one junk character
			s = genLiteral(r)
			junk := []string{" ", "_", "/", ".", "e", "x", "-", "+", "g", "\n", "\x00", "\xff", ",", "'", "$"}[r.Intn(15)]
			k := r.Intn(len(s) + 1)
			s = s[:k] + junk + s[k:]
		default:
			s = gen.BytesAdv(r, 3)
		}
		if refParse(s).class != invalid {
			c.Count("nonnumber_candidates_not_invalid", 1)
			continue
		}
		checkLiteral(c, s, i%10 == 0)
		c.Evals(1)
		c.Count("nonnumbers", 1)
		c.Nontrivial("non", s)
		if i == 11 {
			c.Sample("non-number", map[string]any{"text": s, "num_gives": describeGo(vals.ParseNum(s))})
		}
	}
}

// selfTest compares the check's own rounding with math/big on fixed inputs;
// a disagreement means the reference is broken (inconclusive, not a violation).
func selfTest(c *mon.Case) {
	r := c.Rand
	for i := 0; i < 2000; i++ {
		q := new(big.Rat).SetFrac(new(big.Int).Add(big.NewInt(1), new(big.Int).Rand(r, new(big.Int).Lsh(big.NewInt(1), uint(1+r.Intn(1200))))),
			new(big.Int).Add(big.NewInt(1), new(big.Int).Rand(r, new(big.Int).Lsh(big.NewInt(1), uint(1+r.Intn(1200))))))
		mine, over := roundRat(q)
		theirs, _ := q.Float64()
		if over != math.IsInf(theirs, 0) || (!over && mine != theirs) {
			c.Inconclusive("reference-rounding-disagrees-with-math-big")
			c.Count("selftest_disagreements", 1)
		}
		c.Count("selftest_roundings", 1)
	}
}

func Spec() *mon.Spec {
	return &mon.Spec{
		ID:            "C05",
		SpinViolation: true, Level: "exploration",
		Rule: "roundtrip: typed numbers (random float64 bit patterns, every exponent field value, subnormals, ±0, ±Inf, NaN, integers around 2^31..2^64 and big, random big rationals, a fixed boundary list) go through to-string and num (vals.ToString/ParseNum for all, the builtins incl. `eq $x (num (to-string $x))` for a sample); the result must have the same Go type and value (float bits; NaN stays NaN), and the string must be a literal that the documented grammar reads as exactly that number. literal: generated texts in the documented syntaxes (decimal, 0x/0o/0b, a/b, decimal-point and scientific floats incl. exact halfway decimals and range limits, Inf/NaN; random case, underscores between digits) are classified and evaluated by an independent reader of the documented grammar (exact big.Rat, own round-to-nearest-even) and compared with num: value and canonical Go type. nonnumber: near-miss texts must be rejected. Non-trivial = every non-int roundtrip number, every valid literal, every rejected near miss; distinct by text.",
		Assumptions: []string{
			"a float literal whose value rounds beyond the float64 range may give ±Inf or raise (the documentation does not say)",
			"never asserted (undocumented): leading '+' except on Inf, signed NaN, 'infinity', hexadecimal floats, decimals with leading zeros (documented as octal 'subject to change'), '.5' / '5.', signed denominators, an underscore right after a base prefix, doubled underscores; if num accepts such a text the value must still be the obvious one (except leading-zero integers)",
			"'Inf' without a sign is taken as +Inf",
		},
		ChildSetup: setup,
		Phases: []mon.Phase{
			{Name: "selftest", Quick: 16, Thorough: 64, Run: selfTest},
			{Name: "roundtrip", Quick: 1300, Thorough: 16000, Run: runRoundtrip},
			{Name: "literal", Quick: 1300, Thorough: 16000, Run: runLiteral},
			{Name: "nonnumber", Quick: 200, Thorough: 3000, Run: runNonNumber},
		},
		Floors: map[string]int{"distinct_nontrivial": 50000, "floats": 30000, "float_subnormal": 300, "float_negzero": 20, "float_nan": 20, "float_inf": 20,
			"float_exponents": 1500, "float_printed_scientific": 5000, "bigints": 3000, "rats": 3000, "ints": 3000, "boundary_numbers": 100,
			"roundtrip_via_builtins": 800, "literals_via_builtin": 1500,
			"valid_dec": 3000, "valid_hex": 1000, "valid_oct": 1000, "valid_bin": 1000, "valid_rat": 3000, "valid_float-point": 5000, "valid_float-sci": 5000, "valid_special": 1500,
			"valid_with_underscore": 5000, "valid_with_uppercase": 3000, "class_overflow": 100, "nonnumbers": 3000, "selftest_roundings": 10000},
	}
}
