package c05

// refnum: an evaluator of the *documented* number syntaxes (language.md,
// "Number"), independent of math/big's and strconv's parsers:
//
//   - integers: decimal (no leading zeros), 0x / 0o / 0b with digits;
//   - rationals: two exact integers joined by "/";
//   - floating point: digits with a decimal point and/or a decimal exponent;
//     +Inf, -Inf, NaN;
//   - digits may be separated by underscores; letters in any case; a leading
//     "-" negates.
//
// Texts that the documentation does not clearly cover are classified "grey"
// and never asserted: a leading "+" on anything but Inf, a signed NaN,
// "infinity", hexadecimal floats, decimals with leading zeros (documented as
// octal "subject to change"), ".5" and "5." (point without digits on one
// side), a signed denominator, an underscore right after a base prefix, two
// adjacent underscores.

import (
	"math"
	"math/big"
	"strings"

	"verifharness/internal/gen"
)

type class int

const (
	invalid  class = iota // not a number in any documented syntax: num must raise
	valid                 // documented: num must give want
	overflow              // documented float syntax whose value rounds beyond the largest float64: ±Inf or an exception
	grey                  // undocumented: anything goes, but a value, if produced, is checked when want != nil
)

func (c class) String() string { return [...]string{"invalid", "valid", "overflow", "grey"}[c] }

type parsed struct {
	class class
	want  *gen.Model // for valid; for overflow the infinite value; for grey possibly nil
	kind  string     // dec, hex, oct, bin, rat, float-point, float-sci, special
}

func isDigit(c byte, base int) bool {
	switch {
	case '0' <= c && c <= '9':
		return int(c-'0') < base
	case 'a' <= c && c <= 'f':
		return base == 16
	}
	return false
}

func digitVal(c byte) int64 {
	if c <= '9' {
		return int64(c - '0')
	}
	return int64(c-'a') + 10
}

// digitsOf checks a run of digits with underscores (lower-cased input) and
// returns the digits without underscores. us: 0 = no underscore problem,
// 1 = grey underscore use (doubled), 2 = invalid (leading/trailing).
func digitsOf(s string, base int) (digits string, ok bool, us int) {
	if s == "" {
		return "", false, 0
	}
	var sb strings.Builder
	for i := 0; i < len(s); i++ {
		c := s[i]
		if c == '_' {
			if i == 0 || i == len(s)-1 {
				us = 2
			} else if s[i-1] == '_' && us < 1 {
				us = 1
			}
			continue
		}
		if !isDigit(c, base) {
			return "", false, 0
		}
		sb.WriteByte(c)
	}
	if sb.Len() == 0 {
		return "", false, 0
	}
	return sb.String(), true, us
}

func toBig(digits string, base int) *big.Int {
	z := new(big.Int)
	b := big.NewInt(int64(base))
	for i := 0; i < len(digits); i++ {
		z.Mul(z, b)
		z.Add(z, big.NewInt(digitVal(digits[i])))
	}
	return z
}

// parseInt parses an unsigned integer literal (lower-cased).
func parseInt(s string) (z *big.Int, cl class, kind string) {
	base, body, kind := 10, s, "dec"
	prefixed := false
	if len(s) >= 2 && s[0] == '0' {
		switch s[1] {
		case 'x':
			base, body, kind, prefixed = 16, s[2:], "hex", true
		case 'o':
			base, body, kind, prefixed = 8, s[2:], "oct", true
		case 'b':
			base, body, kind, prefixed = 2, s[2:], "bin", true
		}
	}
	cl = valid
	if prefixed && strings.HasPrefix(body, "_") { // 0x_1
		body = body[1:]
		cl = grey
	}
	digits, ok, us := digitsOf(body, base)
	if !ok || us == 2 {
		return nil, invalid, kind
	}
	if us == 1 {
		cl = grey
	}
	if !prefixed && len(digits) > 1 && digits[0] == '0' {
		// leading zeros: octal today, "subject to change"
		return nil, grey, kind
	}
	return toBig(digits, base), cl, kind
}

func worse(a, b class) class {
	// invalid dominates, then grey, then valid
	if a == invalid || b == invalid {
		return invalid
	}
	if a == grey || b == grey {
		return grey
	}
	return valid
}

// refParse classifies s and computes the value the documentation gives it.
func refParse(s string) parsed {
	if s == "" {
		return parsed{class: invalid}
	}
	for i := 0; i < len(s); i++ {
		if s[i] >= 0x80 || s[i] <= ' ' {
			return parsed{class: invalid}
		}
	}
	neg, plus := false, false
	rest := s
	switch s[0] {
	case '-':
		neg, rest = true, s[1:]
	case '+':
		plus, rest = true, s[1:]
	}
	l := strings.ToLower(rest)
	if l == "" || l[0] == '+' || l[0] == '-' {
		return parsed{class: invalid}
	}
	switch l {
	case "inf":
		return parsed{class: valid, want: gen.Float(math.Inf(sgn(neg))), kind: "special"}
	case "infinity":
		return parsed{class: grey, want: gen.Float(math.Inf(sgn(neg))), kind: "special"}
	case "nan":
		if neg || plus {
			return parsed{class: grey, kind: "special"}
		}
		return parsed{class: valid, want: gen.Float(math.NaN()), kind: "special"}
	}
	signClass := valid
	if plus {
		signClass = grey
	}
	if i := strings.IndexByte(l, '/'); i >= 0 {
		a, b := l[:i], l[i+1:]
		if strings.ContainsRune(b, '/') {
			return parsed{class: invalid, kind: "rat"}
		}
		if b != "" && (b[0] == '+' || b[0] == '-') {
			if _, cl, _ := parseInt(b[1:]); cl == invalid {
				return parsed{class: invalid, kind: "rat"}
			}
			return parsed{class: grey, kind: "rat"}
		}
		za, ca, _ := parseInt(a)
		zb, cb, _ := parseInt(b)
		cl := worse(worse(ca, cb), signClass)
		if cl == invalid {
			return parsed{class: invalid, kind: "rat"}
		}
		if za == nil || zb == nil {
			return parsed{class: grey, kind: "rat"}
		}
		if zb.Sign() == 0 {
			return parsed{class: invalid, kind: "rat"}
		}
		q := new(big.Rat).SetFrac(za, zb)
		if neg {
			q.Neg(q)
		}
		return parsed{class: cl, want: gen.Rat(q), kind: "rat"}
	}
	// integer?
	if z, cl, kind := parseInt(l); cl != invalid {
		cl = worse(cl, signClass)
		if z == nil {
			return parsed{class: cl, kind: kind}
		}
		if neg {
			z.Neg(z)
		}
		return parsed{class: cl, want: gen.BigInt(z), kind: kind}
	}
	// hexadecimal float: grey if it looks like one
	if strings.HasPrefix(l, "0x") && strings.ContainsRune(l, 'p') {
		return parsed{class: grey, kind: "hexfloat"}
	}
	// decimal float
	mant, exp := l, ""
	hasExp := false
	if i := strings.IndexByte(l, 'e'); i >= 0 {
		mant, exp, hasExp = l[:i], l[i+1:], true
	}
	ip, fp := mant, ""
	hasPoint := false
	if i := strings.IndexByte(mant, '.'); i >= 0 {
		ip, fp, hasPoint = mant[:i], mant[i+1:], true
	}
	if !hasExp && !hasPoint {
		return parsed{class: invalid}
	}
	kind := "float-point"
	if hasExp {
		kind = "float-sci"
	}
	cl := signClass
	var idig, fdig string
	if ip != "" {
		d, ok, us := digitsOf(ip, 10)
		if !ok || us == 2 {
			return parsed{class: invalid, kind: kind}
		}
		if us == 1 {
			cl = grey
		}
		if len(d) > 1 && d[0] == '0' {
			cl = grey // leading zeros
		}
		idig = d
	}
	if fp != "" {
		d, ok, us := digitsOf(fp, 10)
		if !ok || us == 2 {
			return parsed{class: invalid, kind: kind}
		}
		if us == 1 {
			cl = grey
		}
		fdig = d
	}
	if idig == "" && fdig == "" {
		return parsed{class: invalid, kind: kind}
	}
	if hasPoint && (idig == "" || fdig == "") {
		cl = grey // ".5", "5."
	}
	e10 := new(big.Int)
	if hasExp {
		eneg := false
		if exp != "" && (exp[0] == '+' || exp[0] == '-') {
			eneg = exp[0] == '-'
			exp = exp[1:]
		}
		d, ok, us := digitsOf(exp, 10)
		if !ok || us == 2 {
			return parsed{class: invalid, kind: kind}
		}
		if us == 1 {
			cl = grey
		}
		e10 = toBig(d, 10)
		if eneg {
			e10.Neg(e10)
		}
	}
	f, over := decToFloat(idig+fdig, new(big.Int).Sub(e10, big.NewInt(int64(len(fdig)))))
	if neg {
		f = -f
	}
	if over {
		if cl == valid {
			cl = overflow
		}
		return parsed{class: cl, want: gen.Float(math.Inf(sgn(neg))), kind: kind}
	}
	return parsed{class: cl, want: gen.Float(f), kind: kind}
}

func sgn(neg bool) int {
	if neg {
		return -1
	}
	return 1
}

// decToFloat returns the float64 nearest (ties to even) to digits × 10^e10
// (digits is a non-negative decimal integer), and whether it overflows.
func decToFloat(digits string, e10 *big.Int) (float64, bool) {
	n := toBig(digits, 10)
	if n.Sign() == 0 {
		return 0, false
	}
	// decimal magnitude: value is in [10^(len-1+e), 10^(len+e))
	nd := int64(len(strings.TrimLeft(digits, "0")))
	if !e10.IsInt64() || e10.Int64() > 1_000_000 || e10.Int64() < -1_000_000 {
		if e10.Sign() > 0 {
			return math.Inf(1), true
		}
		return 0, false
	}
	e := e10.Int64()
	if nd+e > 400 {
		return math.Inf(1), true
	}
	if nd+e < -400 {
		return 0, false
	}
	q := new(big.Rat).SetInt(n)
	p := new(big.Int).Exp(big.NewInt(10), big.NewInt(abs64(e)), nil)
	if e >= 0 {
		q.Mul(q, new(big.Rat).SetInt(p))
	} else {
		q.Quo(q, new(big.Rat).SetInt(p))
	}
	return roundRat(q)
}

func abs64(x int64) int64 {
	if x < 0 {
		return -x
	}
	return x
}

// roundRat rounds a positive rational to the nearest float64, ties to even,
// with gradual underflow; overflow reports values that round to 2^1024 or more.
func roundRat(q *big.Rat) (float64, bool) {
	n, d := q.Num(), q.Denom()
	// find e with 2^52 <= q / 2^e < 2^53
	e := n.BitLen() - d.BitLen() - 53
	scaled := func(e int) (*big.Int, *big.Int, *big.Int) { // floor(q/2^e), remainder numerator, denominator
		nn, dd := new(big.Int).Set(n), new(big.Int).Set(d)
		if e >= 0 {
			dd.Lsh(dd, uint(e))
		} else {
			nn.Lsh(nn, uint(-e))
		}
		m, r := new(big.Int).QuoRem(nn, dd, new(big.Int))
		return m, r, dd
	}
	lo, hi := new(big.Int).Lsh(big.NewInt(1), 52), new(big.Int).Lsh(big.NewInt(1), 53)
	for {
		m, _, _ := scaled(e)
		if m.Cmp(lo) < 0 {
			e--
		} else if m.Cmp(hi) >= 0 {
			e++
		} else {
			break
		}
	}
	if e < -1074 {
		e = -1074
	}
	m, r, dd := scaled(e)
	twice := new(big.Int).Lsh(r, 1)
	switch c := twice.Cmp(dd); {
	case c > 0, c == 0 && m.Bit(0) == 1:
		m.Add(m, big.NewInt(1))
	}
	if m.Cmp(hi) == 0 {
		m.Rsh(m, 1)
		e++
	}
	if e > 971 {
		return math.Inf(1), true
	}
	return math.Ldexp(float64(m.Uint64()), e), false
}
