// Package c31 monitors the terminal input decoder (property C31): totality,
// logically bounded blocking, and lossless decoding of plain printable text.
package c31

import (
	"fmt"
	"io"
	"math/rand"
	"os"
	"reflect"
	"runtime/debug"
	"sync/atomic"
	"syscall"
	"time"
	"unicode"
	"unicode/utf8"

	"src.elv.sh/pkg/cli/term"
	"verifharness/internal/mon"
)

// ---------------------------------------------------------------------------
// scripted byte source

// A script is a list of items: a byte, or a gap (= a pause longer than any
// finite timeout). The end of the script is end-of-file.
type item struct {
	gap bool
	b   byte
}

type read struct {
	neg bool // called with a negative (= wait forever) timeout
	res byte // 'b' byte delivered, 't' timed out, 'e' EOF
}

type fake struct {
	items []item
	pos   int
	reads []read // reads of the current readEvent call
	// budget: reads one readEvent call may still perform (remaining script + slack)
	budget int
}

// progress counts reads of all fakes; the guard polls it while a call is running.
var progress atomic.Int64

// budgetExceeded is the panic value used to abort a readEvent call that reads
// more often than the script is long.
type budgetExceeded struct{}

func (f *fake) ReadByteWithTimeout(timeout time.Duration) (byte, error) {
	progress.Add(1)
	f.budget--
	if f.budget < 0 {
		panic(budgetExceeded{})
	}
	neg := timeout < 0
	for {
		if f.pos >= len(f.items) {
			f.reads = append(f.reads, read{neg, 'e'})
			return 0, io.EOF
		}
		it := f.items[f.pos]
		f.pos++
		if !it.gap {
			f.reads = append(f.reads, read{neg, 'b'})
			return it.b, nil
		}
		if !neg {
			f.reads = append(f.reads, read{neg, 't'})
			return 0, term.VerifErrTimeout
		}
		// a reader that waits forever sits out the pause and gets the next byte
	}
}

// ---------------------------------------------------------------------------
// guarded execution of readEvent

type result struct {
	ev       term.Event
	err      error
	overread bool // aborted by the fake: more reads than the script is long
	panicked any
	stack    string
}

type worker struct {
	req chan *fake
	res chan result
}

var curWorker *worker

// poisoned: a readEvent call of this process never came back; its goroutine
// is still spinning, so nothing run afterwards in this process is trusted.
var poisoned bool

func newWorker() *worker {
	w := &worker{make(chan *fake), make(chan result)}
	go func() {
		for f := range w.req {
			w.res <- runOne(f)
		}
	}()
	return w
}

func runOne(f *fake) (r result) {
	defer func() {
		if p := recover(); p != nil {
			if _, ok := p.(budgetExceeded); ok {
				r.overread = true
				return
			}
			r.panicked = p
			r.stack = string(debug.Stack())
		}
	}()
	r.ev, r.err = term.VerifReadEvent(f)
	return
}

func cpuSeconds() float64 {
	var ru syscall.Rusage
	syscall.Getrusage(syscall.RUSAGE_SELF, &ru)
	return float64(ru.Utime.Sec+ru.Stime.Sec) + float64(ru.Utime.Usec+ru.Stime.Usec)/1e6
}

var guardTimer = time.NewTimer(time.Hour)

const spinCPU = 1.5 // CPU seconds one call may burn without reading or returning

// guardedReadEvent runs one readEvent call on the worker goroutine. stuck is
// true if the call consumed spinCPU seconds of CPU time without performing a
// read and without returning (a wall-clock ticker only triggers the look; the
// verdict is "CPU burnt, no read, no return").
func guardedReadEvent(f *fake) (r result, stuck bool) {
	if curWorker == nil {
		curWorker = newWorker()
	}
	w := curWorker
	w.req <- f
	if !guardTimer.Stop() {
		select {
		case <-guardTimer.C:
		default:
		}
	}
	guardTimer.Reset(200 * time.Millisecond)
	select {
	case r = <-w.res:
		return r, false
	case <-guardTimer.C:
	}
	cpu0, reads0 := cpuSeconds(), progress.Load()
	tick := time.NewTicker(100 * time.Millisecond)
	defer tick.Stop()
	for {
		select {
		case r = <-w.res:
			return r, false
		case <-tick.C:
			if n := progress.Load(); n != reads0 {
				cpu0, reads0 = cpuSeconds(), n
			} else if cpuSeconds()-cpu0 >= spinCPU {
				curWorker = nil // abandon the spinning goroutine
				poisoned = true
				return result{}, true
			}
		}
	}
}

// per-case accumulators (one case at a time per process), flushed by flush()
var acc = map[string]int{}
var kinds = map[string]bool{}

func flush(c *mon.Case) {
	for k, v := range acc {
		if k == "evals" {
			c.Evals(v)
		} else {
			c.Count(k, v)
		}
		delete(acc, k)
	}
	for k := range kinds {
		c.Distinct("event_kinds", k)
		delete(kinds, k)
	}
}

type call struct {
	from, to int // script positions consumed: [from,to)
	ev       term.Event
	err      error
}

func errKind(err error) string {
	switch {
	case err == nil:
		return "nil"
	case err == term.VerifErrTimeout:
		return "timeout"
	case err == io.EOF:
		return "eof"
	case term.VerifIsSeqError(err):
		return "seq"
	}
	return "other:" + err.Error()
}

func showItems(items []item) string {
	s := ""
	for _, it := range items {
		if it.gap {
			s += "<gap>"
		} else {
			s += fmt.Sprintf("\\x%02x", it.b)
		}
	}
	return s
}

func evString(ev term.Event) string { return fmt.Sprintf("%T%+v", ev, ev) }

// decode runs readEvent over the whole script, applying the totality and
// bounded-blocking oracles to every call. It returns the calls and false if a
// violation was reported.
func decode(c *mon.Case, items []item) ([]call, bool) {
	if poisoned {
		c.Inconclusive("process-abandoned-after-nonterminating-decode")
		return nil, false
	}
	f := &fake{items: items}
	var calls []call
	wit := func(extra map[string]any) map[string]any {
		m := map[string]any{"script": showItems(items), "call_index": len(calls)}
		for k, v := range extra {
			m[k] = v
		}
		return m
	}
	for {
		if len(calls) > len(items)+1 {
			c.Violation("total:no-progress", "more readEvent calls than script items without reaching EOF", wit(nil))
			return calls, false
		}
		from := f.pos
		f.reads = f.reads[:0]
		f.budget = len(items) - f.pos + 8
		res, stuck := guardedReadEvent(f)
		acc["readevent_calls"]++
		if stuck {
			c.Violation("nonterminating-decode:no-progress",
				fmt.Sprintf("one readEvent call burnt %.1f s of CPU without reading a byte and without returning", spinCPU), wit(nil))
			return calls, false
		}
		if res.overread {
			c.Violation("nonterminating-decode",
				fmt.Sprintf("one readEvent call performed more than %d reads on a script with %d items left", len(items)-from+8, len(items)-from), wit(nil))
			return calls, false
		}
		if res.panicked != nil {
			c.Violation("panic:"+fmt.Sprint(res.panicked), "readEvent panicked: "+fmt.Sprint(res.panicked), wit(map[string]any{"stack": res.stack}))
			return calls, false
		}
		ev, err := res.ev, res.err
		if len(f.reads) == 0 {
			c.Violation("total:no-read", "readEvent returned without reading a byte", wit(nil))
			return calls, false
		}
		failed := false
		for i, rd := range f.reads {
			if i > 0 && rd.neg {
				c.Violation("block:unbounded-wait-inside-sequence",
					fmt.Sprintf("read #%d of one readEvent call used a negative (wait forever) timeout", i+1),
					wit(map[string]any{"read_index": i}))
				return calls, false
			}
			if failed {
				c.Violation("block:read-after-timeout",
					fmt.Sprintf("readEvent kept reading (read #%d) after a read in the same call had timed out or hit EOF", i+1),
					wit(map[string]any{"read_index": i}))
				return calls, false
			}
			if rd.res != 'b' {
				failed = true
				if rd.res == 't' {
					acc["timeouts_inside_sequence"]++
				}
			}
		}
		if (ev == nil) == (err == nil) {
			c.Violation("total:event-xor-error", fmt.Sprintf("readEvent returned event=%v err=%v; exactly one must be set", ev, err), wit(nil))
			return calls, false
		}
		calls = append(calls, call{from, f.pos, ev, err})
		switch k := errKind(err); k {
		case "nil":
			kinds[fmt.Sprintf("%T", ev)] = true
		case "seq":
			acc["seq_errors"]++
		case "timeout":
			acc["timeout_errors"]++
		case "eof":
			if f.pos < len(items) {
				c.Violation("total:early-eof", "EOF reported before the script was consumed", wit(nil))
				return calls, false
			}
			return calls, true
		default:
			c.Distinct("other_errors", k)
		}
		if f.pos == from {
			c.Violation("total:no-progress", "readEvent returned without consuming anything and without EOF", wit(nil))
			return calls, false
		}
	}
}

// ---------------------------------------------------------------------------
// generators

var seqAlphabet = []byte{0x1b, '[', 'O', '<', 'M', ';', '1', '2', '7', '~', 'R', 'm', '^', 'A'}

var biased = []string{
	"\x1b", "\x1b", "\x1b", "[", "[", "O", "<", "M", ";", ";", "~", "R", "m", "$", "^", "@",
	"0", "1", "2", "3", "5", "9", "27", "200", "201", "999999999999", "18446744073709551616",
	"A", "B", "H", "Z", "P", "a", "d", "x", " ", "\x00", "\x7f", "\r", "\n", "\t", "\x1e", "\x1f", "\x01",
	"\xff", "\xc0", "\x80", "\xe4\xb8", "\xf0\x9f", "\xf8", "\xed\xa0\x80", "好", "😀", "é",
	"\x1b[", "\x1bO", "\x1b[<", "\x1b[M", "\x1b\x1b[", "\x1b[1;5", "\x1b[27;5;", "\x1b[<0;1;1",
}

// longCSI returns ESC [ [<] p1 [; p2 [; p3]] terminator where at least one
// parameter has 6..20 digits (leading digit non-zero or zero).
func longCSI(r *rand.Rand) string {
	digits := func(n int) string {
		b := make([]byte, n)
		for i := range b {
			b[i] = byte('0' + r.Intn(10))
		}
		if r.Intn(3) > 0 {
			b[0] = byte('1' + r.Intn(9))
		}
		return string(b)
	}
	s := "\x1b["
	if r.Intn(4) == 0 {
		s += "<"
	}
	np := 1 + r.Intn(3)
	long := r.Intn(np)
	for i := 0; i < np; i++ {
		if i > 0 {
			s += ";"
		}
		if i == long {
			s += digits(6 + r.Intn(15))
		} else {
			s += digits(1 + r.Intn(4))
		}
	}
	return s + []string{"~", "A", "R", "m", "M", "$", "^", "@", "H", "Z", ""}[r.Intn(11)]
}

func randomScript(r *rand.Rand) []item {
	var items []item
	n := 1 + r.Intn(14)
	gapP := []int{0, 5, 25, 60}[r.Intn(4)]
	for i := 0; i < n; i++ {
		var s string
		switch r.Intn(10) {
		case 1: // CSI with parameters of 6..20 digits
			s = longCSI(r)
			acc["long_csi_param_pieces"]++
		case 0:
			b := make([]byte, r.Intn(5))
			for j := range b {
				b[j] = byte(r.Intn(256))
			}
			s = string(b)
		default:
			s = biased[r.Intn(len(biased))]
		}
		for j := 0; j < len(s); j++ {
			if r.Intn(100) < gapP {
				items = append(items, item{gap: true})
			}
			items = append(items, item{b: s[j]})
		}
	}
	if r.Intn(3) == 0 {
		items = append(items, item{gap: true})
	}
	return items
}

// printable rune ranges: all planes, no C0/C1 controls, no ESC, no DEL.
var runeRanges = [][2]rune{
	{0x20, 0x7e}, {0x20, 0x7e}, {0xa0, 0xff}, {0x100, 0x7ff}, {0x7f0, 0x810}, {0x800, 0xd7ff},
	{0xe000, 0xfffd}, {0xff00, 0xffef}, {0x3000, 0x30ff}, {0x4e00, 0x9fff}, {0x300, 0x36f},
	{0x10000, 0x1ffff}, {0x1f300, 0x1f6ff}, {0x20000, 0x2ffff}, {0xe0100, 0xe01ef}, {0xfff0, 0x10010},
}

func printableRune(r *rand.Rand) rune {
	for {
		rg := runeRanges[r.Intn(len(runeRanges))]
		x := rg[0] + rune(r.Intn(int(rg[1]-rg[0])+1))
		if utf8.ValidRune(x) && unicode.IsGraphic(x) && !unicode.IsControl(x) {
			return x
		}
	}
}

func printableText(r *rand.Rand, max int) []rune {
	n := 1 + r.Intn(max)
	rs := make([]rune, n)
	for i := range rs {
		rs[i] = printableRune(r)
	}
	return rs
}

// textItems encodes runes, inserting gaps only at character boundaries.
func textItems(r *rand.Rand, rs []rune, gapPercent int) []item {
	var items []item
	var buf [4]byte
	for _, x := range rs {
		if r != nil && r.Intn(100) < gapPercent {
			items = append(items, item{gap: true})
		}
		n := utf8.EncodeRune(buf[:], x)
		for _, b := range buf[:n] {
			items = append(items, item{b: b})
		}
	}
	return items
}

// checkTail demands that the last len(want) events before EOF are exactly
// want, one unmodified key event per rune.
func checkTail(c *mon.Case, sig string, items []item, calls []call, textFrom int, want []rune) bool {
	// calls that start at or after the text
	k := 0
	for k < len(calls) && calls[k].from < textFrom {
		if calls[k].to > textFrom {
			// skipping a leading gap is fine; consuming text bytes is not
			gapOnly := true
			for _, it := range items[textFrom:calls[k].to] {
				if !it.gap {
					gapOnly = false
				}
			}
			onlyGapsBefore := true
			for _, it := range items[calls[k].from:textFrom] {
				if !it.gap {
					onlyGapsBefore = false
				}
			}
			if !gapOnly && !onlyGapsBefore {
				c.Violation(sig+":sequence-ate-text", "a call that started before a pause consumed bytes after the pause",
					map[string]any{"script": showItems(items), "text_from": textFrom, "call": k})
				return false
			}
			if onlyGapsBefore {
				break
			}
		}
		k++
	}
	got := calls[k:]
	if len(got) > 0 && errKind(got[len(got)-1].err) == "eof" {
		got = got[:len(got)-1]
	}
	bad := len(got) != len(want)
	if !bad {
		for i, x := range want {
			if got[i].err != nil || got[i].ev != term.Event(term.KeyEvent{Rune: x, Mod: 0}) {
				bad = true
			}
		}
	}
	if bad {
		var gs []string
		for _, g := range got {
			if g.err != nil {
				gs = append(gs, "error:"+g.err.Error())
			} else {
				gs = append(gs, evString(g.ev))
			}
		}
		c.Violation(sig, fmt.Sprintf("printable text %s was not decoded into exactly its characters", mon.Q(string(want))),
			map[string]any{"script": showItems(items), "text": mon.Q(string(want)), "want_runes": fmt.Sprintf("%U", want), "got": gs})
		return false
	}
	return true
}

// ---------------------------------------------------------------------------
// phases

func runRandom(c *mon.Case) {
	defer flush(c)
	r := c.Rand
	var nt []string
	defer func() {
		if len(nt) > 0 {
			c.Nontrivial("random", nt)
			c.Count("scripts_with_esc", len(nt))
		}
	}()
	for k := 0; k < 200; k++ {
		items := randomScript(r)
		calls, ok := decode(c, items)
		acc["evals"]++
		if !ok {
			return
		}
		hasEsc, hasGap := false, false
		for _, it := range items {
			hasEsc = hasEsc || (!it.gap && it.b == 0x1b)
			hasGap = hasGap || it.gap
		}
		if hasEsc {
			nt = append(nt, showItems(items))
			if hasGap {
				acc["scripts_with_esc_and_gap"]++
			}
		}
		if k == 0 {
			var evs []string
			for _, cl := range calls {
				if cl.err != nil {
					evs = append(evs, "error:"+cl.err.Error())
				} else {
					evs = append(evs, evString(cl.ev))
				}
			}
			c.Sample("random-script", map[string]any{"script": showItems(items), "decoded": evs})
		}
	}
}

const exhCases = 64

// runExhaustive: ESC followed by every word over the 14-symbol alphabet up to
// a length bound, with no pause or one pause at every position, followed by a
// pause and a short plain text that must come out intact.
func runExhaustive(c *mon.Case) {
	defer flush(c)
	c.Nontrivial("exh", c.I)
	maxLen := c.Env.Pick(4, 5)
	tail := []rune("q好")
	idx := 0
	var word []byte
	var rec func(l int)
	stop := false
	rec = func(l int) {
		if stop {
			return
		}
		if idx%exhCases == c.I {
			for gp := -1; gp <= len(word); gp++ {
				items := []item{{b: 0x1b}}
				for i, b := range word {
					if gp == i {
						items = append(items, item{gap: true})
					}
					items = append(items, item{b: b})
				}
				// gp == len(word): the only pause is the one before the tail
				items = append(items, item{gap: true})
				textFrom := len(items)
				items = append(items, textItems(nil, tail, 0)...)
				calls, ok := decode(c, items)
				acc["evals"]++
				acc["exhaustive_scripts"]++
				if !ok || !checkTail(c, "lossless:after-pause", items, calls, textFrom, tail) {
					stop = true
					return
				}
			}
		}
		idx++
		if l == maxLen {
			return
		}
		for _, b := range seqAlphabet {
			word = append(word, b)
			rec(l + 1)
			word = word[:len(word)-1]
		}
	}
	rec(0)
	if stop {
		return
	}
	// second family: ESC [ [<] d digits terminator for every d = 1..20 (digit values vary with the case)
	for d := 1; d <= 20; d++ {
		for _, starter := range []string{"", "<"} {
			for _, term := range []string{"~", "A", "R", "m", "M", ";5~", "$", ";1;1M"} {
				b := make([]byte, d)
				for i := range b {
					b[i] = byte('0' + (c.I*7+i*3+d)%10)
				}
				if c.I%2 == 0 {
					b[0] = byte('1' + c.I%9)
				}
				items := []item{{b: 0x1b}, {b: '['}}
				for _, x := range []byte(starter + string(b) + term) {
					items = append(items, item{b: x})
				}
				items = append(items, item{gap: true})
				textFrom := len(items)
				items = append(items, textItems(nil, tail, 0)...)
				calls, ok := decode(c, items)
				acc["evals"]++
				acc["exhaustive_scripts"]++
				if d >= 6 {
					acc["long_csi_param_scripts_exhaustive"]++
				}
				if !ok || !checkTail(c, "lossless:after-pause", items, calls, textFrom, tail) {
					return
				}
			}
		}
	}
}

func runPlain(c *mon.Case) {
	defer flush(c)
	r := c.Rand
	var nt []string
	defer func() {
		if len(nt) > 0 {
			c.Nontrivial("plain", nt)
		}
	}()
	for k := 0; k < 100; k++ {
		rs := printableText(r, 24)
		var items []item
		textFrom := 0
		mode := r.Intn(3)
		switch mode {
		case 0: // text only, pauses at character boundaries
			items = textItems(r, rs, []int{0, 20, 100}[r.Intn(3)])
		case 1: // junk, pause, text
			items = randomScript(r)
			items = append(items, item{gap: true})
			textFrom = len(items)
			items = append(items, textItems(r, rs, 15)...)
			acc["resync_scripts"]++
		case 2: // ASCII-heavy text (every printable ASCII character, incl. those used in escape sequences)
			rs = rs[:0]
			for n := 1 + r.Intn(30); n > 0; n-- {
				if r.Intn(4) == 0 {
					rs = append(rs, printableRune(r))
				} else {
					rs = append(rs, rune(0x20+r.Intn(0x5f)))
				}
			}
			items = textItems(r, rs, 10)
		}
		if r.Intn(4) == 0 {
			items = append(items, item{gap: true})
		}
		calls, ok := decode(c, items)
		acc["evals"]++
		if !ok {
			return
		}
		sig := "lossless:plain-text"
		if mode == 1 {
			sig = "lossless:after-pause"
		}
		if !checkTail(c, sig, items, calls, textFrom, rs) {
			return
		}
		acc["plain_runes"] += len(rs)
		for _, x := range rs {
			acc[fmt.Sprintf("runes_utf8_len_%d", utf8.RuneLen(x))]++
		}
		if len(rs) > 0 {
			nt = append(nt, string(rs))
		}
		if k == 0 {
			c.Sample("plain-text", map[string]any{"script": showItems(items), "text": string(rs)})
		}
	}
}

// runE2E replays a script against the real reader on an os.Pipe: the harness
// is sequential, so "pause" = nothing more has been written when the reader
// looks. The event stream must equal the one obtained through the scripted
// byte source, which ties the fake to the real fileReader contract.
func runE2E(c *mon.Case) {
	defer flush(c)
	r := c.Rand
	var items []item
	switch r.Intn(3) {
	case 0:
		items = textItems(r, printableText(r, 12), 20)
	default:
		items = randomScript(r)
		if len(items) > 24 {
			items = items[:24]
		}
	}
	// bound the number of real 10 ms waits
	gaps := 0
	var bounded []item
	for _, it := range items {
		if it.gap {
			gaps++
			if gaps > 4 {
				continue
			}
		}
		bounded = append(bounded, it)
	}
	items = bounded
	calls, ok := decode(c, items)
	if !ok {
		return
	}
	pr, pw, err := os.Pipe()
	if err != nil {
		c.Inconclusive("pipe:" + err.Error())
		return
	}
	defer pr.Close()
	rd := term.NewReader(pr)
	defer rd.Close()
	written := 0
	closed := false
	defer func() {
		if !closed {
			pw.Close()
		}
	}()
	for k, cl := range calls {
		// make available everything up to the first pause after the start of this call
		q := cl.from
		for q < len(items) && items[q].gap {
			q++
		}
		for q < len(items) && !items[q].gap {
			q++
		}
		var buf []byte
		for ; written < q; written++ {
			if !items[written].gap {
				buf = append(buf, items[written].b)
			}
		}
		if len(buf) > 0 {
			if _, err := pw.Write(buf); err != nil {
				c.Inconclusive("pipe-write:" + err.Error())
				return
			}
		}
		if q >= len(items) && !closed {
			pw.Close()
			closed = true
		}
		ev, err := rd.ReadEvent()
		c.Count("e2e_readevent_calls", 1)
		if errKind(err) == "timeout" {
			c.Count("e2e_real_timeouts", 1)
		}
		if errKind(err) != errKind(cl.err) || !reflect.DeepEqual(ev, cl.ev) {
			c.Violation("e2e:real-reader-differs-from-scripted-source",
				fmt.Sprintf("call %d on the real pipe reader returned (%v, %v); the same script through the scripted source gave (%v, %v)", k, ev, err, cl.ev, cl.err),
				map[string]any{"script": showItems(items), "call": k})
			return
		}
	}
	c.Nontrivial("e2e", showItems(items))
}

func Spec() *mon.Spec {
	return &mon.Spec{
		ID: "C31", Level: "exploration",
		Rule: "case = batch of scripts for the event decoder (term.readEvent through a scripted byte source: bytes, pauses that outlast every finite timeout, EOF at the end). Every readEvent call runs on a guarded worker goroutine and is checked: it terminates (at most remaining-script+8 reads, else nonterminating-decode; 3 s of process CPU burnt with no read and no return = nonterminating-decode:no-progress, the process is then abandoned), returns exactly one of event/error, reads at least one item, only its first read may wait forever, no read after a read that timed out. Phases: random (biased to ESC/CSI/SS3/mouse/digits/invalid UTF-8 with random pauses), exhaustive (ESC + every word of length <= 4 (quick) / 5 (thorough) over 14 symbols, with one pause at every position, followed by a pause and plain text that must come out intact; plus ESC [ [<] d digits terminator for every d = 1..20), plain (printable runes of all UTF-8 lengths, pauses only at character boundaries, also after random junk + pause: exactly one unmodified key event per rune), e2e (same script through term.NewReader on an os.Pipe must give the same events as through the scripted source). Non-trivial = case (a batch of 200 random scripts containing at least one ESC script / one residue class of the exhaustive word set / a batch of 100 texts / one script replayed on the real pipe reader); distinct by the scripts in the batch. Script totals are in the n_* counters.",
		Assumptions: []string{
			"'block past its timeout' is restated logically: inside one readEvent call only the first read may use a negative timeout and a timed-out read ends the call",
			"pauses inside the UTF-8 encoding of one character are not generated for the losslessness oracle: read_rune.go documents a 10 ms inter-byte timeout for continuation bytes, so such a stream is not 'plain text arriving normally'; they are generated for the totality oracle",
			"printable = unicode.IsGraphic and not a control; DEL, C0, C1 and ESC are excluded as the property says",
			"what a given escape sequence decodes to is not checked (the property only demands totality, bounded waiting and losslessness of plain text)",
		},
		Phases: []mon.Phase{
			{Name: "random", Quick: 1600, Thorough: 40000, Run: runRandom},
			{Name: "exhaustive", Quick: exhCases, Thorough: exhCases, Run: runExhaustive, Batch: 1},
			{Name: "plain", Quick: 800, Thorough: 20000, Run: runPlain},
			{Name: "e2e", Quick: 640, Thorough: 8000, Run: runE2E, Timeout: 30 * time.Second},
		},
		Floors: map[string]int{
			"distinct_nontrivial": 1000, "scripts_with_esc": 50000, "readevent_calls": 500000, "timeouts_inside_sequence": 50000,
			"seq_errors": 30000, "exhaustive_scripts": 200000, "plain_runes": 100000,
			"runes_utf8_len_1": 10000, "runes_utf8_len_2": 10000, "runes_utf8_len_3": 10000, "runes_utf8_len_4": 10000,
			"resync_scripts": 5000, "long_csi_param_pieces": 50000, "long_csi_param_scripts_exhaustive": 5000, "e2e_readevent_calls": 1000, "e2e_real_timeouts": 30, "event_kinds": 4,
		},
	}
}
