// Package c08 monitors that values which are eq are the same map key
// (property C08): equal hashes, and identical has-key / index / assoc /
// dissoc behaviour inside maps whose other entries force the key deep into
// the hash trie.
package c08

import (
	"fmt"
	"math"
	"math/rand"
	"sort"

	"src.elv.sh/pkg/cli/clitest"
	"src.elv.sh/pkg/edit"
	"src.elv.sh/pkg/eval"
	"src.elv.sh/pkg/eval/vals"
	"verifharness/internal/elv"
	"verifharness/internal/elvq"
	"verifharness/internal/gen"
	"verifharness/internal/mon"
)

var ev *eval.Evaler

func setup(e *mon.Env) {
	ev = elv.New()
	// an editor on a fake terminal, only to obtain the edit: values
	// (edit:key, edit:complex-candidate); it is never run
	tty, _ := clitest.NewFakeTTY()
	ed := edit.NewEditor(tty, ev, nil)
	ev.ExtendBuiltin(eval.BuildNs().AddNs("edit", ed))
	if _, err := elvq.Values(ev, "use re; use str; use math; use path"); err != nil {
		panic(err)
	}
}

// pairs: Elvish code that outputs two values expected to be eq although
// they were constructed differently.
var catalogue = []struct{ name, code string }{
	// Pairs that the documentation says are NOT eq. They are only judged if eq
	// nevertheless reports them equal (then they must hash alike too), so a
	// change that widens eq without widening the hash is seen.
	{"not-eq:nan-payloads", `num NaN; - (num Inf) (num Inf)`},
	{"not-eq:nan-computed", `num NaN; / (num 0.0) (num 0.0)`},
	{"not-eq:nan-sqrt", `num NaN; math:sqrt -1`},
	{"not-eq:nan-in-list", `put [(num NaN)] [(- (num Inf) (num Inf))]`},
	{"not-eq:nan-map-value", `put [&k=(num NaN)] [&k=(math:sqrt -1)]`},
	{"not-eq:exact-vs-inexact", `num 1; num 1.0`},
	{"not-eq:exact-vs-inexact-big", `num 9223372036854775808; num 9223372036854775808.0`},
	{"not-eq:rat-vs-float", `num 1/2; num 0.5`},
	{"not-eq:string-vs-num", `put 1; num 1`},
	{"not-eq:string-vs-float", `put 1.0; num 1.0`},
	{"not-eq:list-vs-string", `put [a]; put a`},
	{"not-eq:map-vs-list", `put [&]; put []`},
	{"not-eq:nil-vs-empty", `put $nil; put ''`},
	{"not-eq:bool-vs-string", `put $true; put true`},
	{"not-eq:case", `put a; put A`},
	{"not-eq:nested-exactness", `put [[(num 2)]] [[(num 2.0)]]`},
	{"not-eq:map-exactness-key", `put [&(num 2)=v] [&(num 2.0)=v]`},
	{"zero-sign", `num 0.0; num -0.0`},
	{"zero-sign-computed", `* -1 0.0; num 0.0`},
	{"zero-sign-in-list", `put [a (num 0.0) b] [a (num -0.0) b]`},
	{"zero-sign-nested-list", `put [[(num -0.0)]] [[(num 0.0)]]`},
	{"zero-sign-map-value", `put [&k=(num 0.0) &j=x] [&j=x &k=(num -0.0)]`},
	{"zero-sign-map-key", `put [&(num 0.0)=v] [&(num -0.0)=v]`},
	{"zero-sign-floor", `math:ceil -0.5; num 0.0`},
	{"sum-of-halves", `+ 1/2 1/2; num 1`},
	{"bigint-minus-one", `- 9223372036854775808 1; num 9223372036854775807`},
	{"int-plus-one", `+ 9223372036854775807 1; num 9223372036854775808`},
	{"bigint-roundtrip", `- (+ 9223372036854775807 1) 1; num 0x7fffffffffffffff`},
	{"exact-num-float", `exact-num 2.0; num 2`},
	{"exact-num-half", `exact-num 0.5; num 1/2`},
	{"exact-num-big-float", `exact-num 1e20; num 100000000000000000000`},
	{"pow-2-62", `math:pow 2 62; num 4611686018427387904`},
	{"pow-2-64", `math:pow 2 64; num 18446744073709551616`},
	{"product-2-64", `* 4294967296 4294967296; num 0x10000000000000000`},
	{"quotient-int", `/ 6 3; num 2`},
	{"quotient-rat", `/ 1 3; num 2/6`},
	{"rat-times-den", `* 1/3 3; num 1`},
	{"big-rat-to-int", `/ 36893488147419103232 2; num 18446744073709551616`},
	{"float-sum", `+ 0.1 0.2; num 0.30000000000000004`},
	{"inexact-num", `inexact-num 1/2; num 0.5`},
	{"inf", `+ 1e308 1e308; num +Inf`},
	{"hex-literal", `num 0x10; num 16`},
	{"remainder", `% 7 4; num 3`},
	{"count", `count [a b c]; num 3`},
	{"abs-min-int", `math:abs -9223372036854775808; num 9223372036854775808`},
	{"neg-bigint", `- 0 9223372036854775809; num -9223372036854775809`},
	{"max-rat", `math:max 1/2 1/3; num 2/4`},
	{"trunc-float", `math:trunc 2.5; num 2.0`},
	{"string-quoting", `put "a\tb$" 'a'"\t"'b$'`},
	{"string-join", `str:join '' [a b]; put ab`},
	{"string-slice", `put abcd[1..3] bc`},
	{"string-invalid-utf8", `put "\xff\xfe" "\xff""\xfe"`},
	{"to-string", `to-string (num 12); put 12`},
	{"list-slice", `put [a b c][..2] [a b]`},
	{"list-slice-of-slice", `put [x a b c y][1..][..2] [a b]`},
	{"list-conj", `conj [a] b; put [a b]`},
	{"list-assoc", `assoc [a x] 1 b; put [a b]`},
	{"list-range", `put [(range 3)] [(num 0) (num 1) (num 2)]`},
	{"list-long", `put [(range 100)] [(range 150)][..100]`},
	{"list-nested", `put [[a [b]] [&k=[c]]] [[a [b x][..1]] [&k=(conj [] c)]]`},
	{"map-order", `put [&a=1 &b=2 &c=3] [&c=3 &b=2 &a=1]`},
	{"map-assoc", `assoc [&a=1] b 2; put [&b=2 &a=1]`},
	{"map-dissoc", `dissoc [&a=1 &b=2 &c=3] c; put [&a=1 &b=2]`},
	{"map-reassoc", `assoc (assoc [&a=1 &b=2] a 9) a 1; put [&a=1 &b=2]`},
	{"map-make-map", `make-map [[a 1] [b 2]]; put [&b=2 &a=1]`},
	{"map-colliding-keys", `put [&ab=1 &bA=2 &xab=3 &xbA=4] [&xbA=4 &xab=3 &bA=2 &ab=1]`},
	{"map-colliding-int-keys", `put [&(num 33)=a &(num 4294967296)=b] [&(num 4294967296)=b &(num 33)=a]`},
	{"map-big", `make-map [(range 60 | each {|i| put [$i x]})]; make-map [(range 59 -1 | each {|i| put [$i x]})]`},
	{"map-nil-key", `put [&$nil=1 &a=2] (assoc [&a=2] $nil 1)`},
	{"map-nested", `put [&k=[&a=1 &b=[x]]] [&k=(assoc [&b=[x y][..1]] a 1)]`},
	{"map-as-key", `put [&[&a=1 &b=2]=v] [&[&b=2 &a=1]=v]`},
	{"list-as-key", `put [&[a b]=v] [&[a b c][..2]=v]`},
	{"field-map-src", `var s = (src); put $s [&name=$s[name] &code=$s[code] &is-file=$s[is-file]]`},
	{"field-map-src-reversed", `var s = (src); put [&is-file=$s[is-file] &code=$s[code] &name=$s[name]] $s`},
	{"field-map-in-list", `var s = (src); put [$s] [[&name=$s[name] &code=$s[code] &is-file=$s[is-file]]]`},
	{"field-map-as-key", `var s = (src); put [&$s=v] [&[&name=$s[name] &code=$s[code] &is-file=$s[is-file]]=v]`},
	{"field-map-re-find", `put (re:find 'a(b)' xabx) [&text=ab &start=(num 1) &end=(num 3) &groups=[[&text=ab &start=(num 1) &end=(num 3)] [&text=b &start=(num 2) &end=(num 3)]]]`},
	{"field-map-re-find-twice", `re:find 'a(b)' xabx; re:find 'a(b)' xabx`},
	{"field-map-two-srcs", `put (src) (src)`},
	{"styled", `styled a red; styled a red`},
	{"styled-concat", `put (styled a red)(styled b bold) (styled a red)(styled b bold)`},
	{"styled-segment", `styled-segment a &fg-color=red; styled-segment a &fg-color=red`},
	{"edit-key", `edit:key Ctrl-A; edit:key C-a`},
	{"edit-key-alt", `edit:key Alt-x; edit:key A-x`},
	{"complex-candidate-twice", `edit:complex-candidate foo &code-suffix=' '; edit:complex-candidate foo &code-suffix=' '`},
	{"complex-candidate-display", `edit:complex-candidate foo &display=bar; edit:complex-candidate foo &display=(styled bar)`},
	{"complex-candidate-vs-map", `var c = (edit:complex-candidate foo); put $c [&stem=$c[stem] &code-suffix=$c[code-suffix] &display=$c[display]]`},
	{"map-vs-complex-candidate", `var c = (edit:complex-candidate foo &code-suffix=/); put [&stem=$c[stem] &code-suffix=$c[code-suffix] &display=$c[display]] $c`},
	{"closure-identity", `var f = {|x| put $x }; put $f $f`},
	{"builtin-fn-identity", `put $put~ $put~`},
	{"ns-identity", `put $str: $str:`},
	{"exception-identity", `var e = ?(fail x); put $e $e`},
	{"exception-reason", `put ?(fail x)[reason] ?(fail x)[reason]`},
	{"exception-reason-map", `put ?(fail [a b])[reason] ?(fail [a b c][..2])[reason]`},
	{"bools-from-predicates", `eq a a; not $false`},
	{"nil", `put $nil (var x; put $x)`},
	{"path-abs", `path:join a b; put a/b`},
}

func isZeroSignOnly(a, b any) bool {
	ma, ok1 := gen.ModelOf(a)
	mb, ok2 := gen.ModelOf(b)
	if !ok1 || !ok2 || gen.Same(ma, mb) {
		return false
	}
	norm := func(m *gen.Model) {
		gen.Walk(m, func(x *gen.Model) {
			if x.Kind == gen.KNum && x.Rep == gen.RepFloat && x.F == 0 {
				x.F = 0
			}
		})
	}
	norm(ma)
	norm(mb)
	return gen.Same(ma, mb)
}

func pairClass(a, b any) string {
	if isZeroSignOnly(a, b) {
		return "float-zero-sign"
	}
	ts := []string{fmt.Sprintf("%T", a), fmt.Sprintf("%T", b)}
	sort.Strings(ts)
	if ts[0] == ts[1] {
		return ts[0]
	}
	return ts[0] + "/" + ts[1]
}

func mask(d int) uint32 {
	if 5*d >= 32 {
		return ^uint32(0)
	}
	return uint32(1)<<uint(5*d) - 1
}

// neighbours returns small non-negative int keys (an int n in [0,2^32)
// hashes to n) that share the low 5*d bits with h for d = 1..6 but differ in
// the next chunk, so that a key with hash h is pushed down to trie level d.
func neighbours(r *rand.Rand, h uint32) []any {
	var out []any
	for d := 1; d <= 6; d++ {
		shift := uint(5 * d)
		width := uint(5)
		if shift+5 > 32 {
			width = 32 - shift
		}
		chunk := (h >> shift) & (1<<width - 1)
		other := chunk ^ uint32(1+r.Intn(1<<width-1))
		n := h&mask(d) | other<<shift
		if shift+width < 32 {
			n |= (r.Uint32() << (shift + width))
		}
		out = append(out, int(n))
	}
	return out
}

func randomFill(r *rand.Rand, n int) []any {
	out := make([]any, 0, n)
	for i := 0; i < n; i++ {
		switch r.Intn(6) {
		case 0:
			out = append(out, gen.GenStr(r))
		case 1:
			out = append(out, gen.GenScalar(r).Value())
		case 2:
			out = append(out, int(r.Uint32()))
		default:
			out = append(out, fmt.Sprintf("fill-%d", r.Intn(1<<30)))
		}
	}
	return out
}

type tag struct{ s string }

// checkPair runs the direct and behavioural checks for a and b, which the
// caller found to be eq. how describes the construction (for witnesses).
func checkPair(c *mon.Case, a, b any, how string, viaBuiltins bool) {
	r := c.Rand
	class := pairClass(a, b)
	ha, hb := vals.Hash(a), vals.Hash(b)
	wit := map[string]any{"pair": how, "a": vals.ReprPlain(a), "b": vals.ReprPlain(b), "type_a": fmt.Sprintf("%T", a), "type_b": fmt.Sprintf("%T", b),
		"hash_a": fmt.Sprintf("%#x", ha), "hash_b": fmt.Sprintf("%#x", hb)}
	if ha != hb {
		c.Violation("hash-differs:"+class, fmt.Sprintf("eq values hash differently: %s (%T) -> %#x, %s (%T) -> %#x [%s]", vals.ReprPlain(a), a, ha, vals.ReprPlain(b), b, hb, how), wit)
		c.Count("pairs_with_different_hash", 1)
	}
	c.Distinct("pair_classes", class)

	// the other entries: neighbours that push both keys deep, plus a random fill
	var others []any
	others = append(others, neighbours(r, ha)...)
	if hb != ha {
		others = append(others, neighbours(r, hb)...)
	}
	nfill := []int{0, 1, 5, 30, 200, 2000}[r.Intn(6)]
	if nfill > 0 {
		nfill = 1 + r.Intn(nfill)
	}
	others = append(others, randomFill(r, nfill)...)
	m := vals.EmptyMap
	for i, k := range others {
		if k == nil || vals.Equal(k, a) || vals.Equal(k, b) || vals.Equal(a, k) || vals.Equal(b, k) {
			continue
		}
		m = m.Assoc(k, i)
	}
	n0 := m.Len()
	c.Max("other_entries", n0)
	fail := func(what string) {
		wit["other_entries"] = n0
		c.Violation("map-key:"+class, fmt.Sprintf("%s; a = %s (%T), b = %s (%T), map of %d other entries [%s]", what, vals.ReprPlain(a), a, vals.ReprPlain(b), b, n0, how), wit)
	}
	for pass := 0; pass < 2; pass++ {
		x, y := a, b
		if pass == 1 {
			x, y = b, a
		}
		if vals.HasKey(m, x) || vals.HasKey(m, y) {
			fail("a key that was never inserted is reported present")
			return
		}
		vx := &tag{"X"}
		mxAny, err := vals.Assoc(m, x, vx)
		if err != nil {
			fail("assoc fails: " + err.Error())
			return
		}
		mx := mxAny.(vals.Map)
		if mx.Len() != n0+1 {
			fail(fmt.Sprintf("assoc of a new key changes count from %d to %d", n0, mx.Len()))
		}
		if !vals.HasKey(mx, y) {
			fail("has-key (assoc $m $a v) $b is false")
		}
		if got, err := vals.Index(mx, y); err != nil || got != any(vx) {
			fail(fmt.Sprintf("(assoc $m $a v)[$b] gives %v, %v instead of v", got, err))
		}
		vy := &tag{"Y"}
		mxyAny, _ := vals.Assoc(mx, y, vy)
		mxy := mxyAny.(vals.Map)
		if mxy.Len() != n0+1 {
			fail(fmt.Sprintf("count (assoc (assoc $m $a 1) $b 2) = %d, expected %d: the map holds two keys that are eq", mxy.Len(), n0+1))
		}
		if got, _ := vals.Index(mxy, x); got != any(vy) {
			fail("after assoc $b the value under $a is not the new one")
		}
		neq := 0
		for it := mxy.Iterator(); it.HasElem(); it.Next() {
			k, _ := it.Elem()
			if vals.Equal(k, x) || vals.Equal(x, k) {
				neq++
			}
		}
		if neq != 1 {
			fail(fmt.Sprintf("the map holds %d keys eq to $a", neq))
		}
		md := vals.Dissoc(mx, y)
		if md == nil {
			fail("dissoc returns nil")
			return
		}
		if l := md.(vals.Map).Len(); l != n0 {
			fail(fmt.Sprintf("count (dissoc (assoc $m $a 1) $b) = %d, expected %d", l, n0))
		}
		if vals.HasKey(md, x) {
			fail("dissoc $b leaves $a in the map")
		}
		// all other entries are untouched
		if pass == 0 && n0 <= 64 {
			for i, k := range others {
				if k == nil || vals.Equal(k, a) || vals.Equal(k, b) || vals.Equal(a, k) || vals.Equal(b, k) {
					continue // was never inserted as an "other" entry
				}
				if got, ok := mxy.Index(k); ok && got != any(i) {
					if _, isInt := got.(int); isInt {
						continue // a later duplicate of the same other key
					}
					fail("another entry changed its value")
				}
			}
		}
	}
	c.Evals(1)
	if viaBuiltins {
		elv.SetVar(ev, "m", m)
		elv.SetVar(ev, "a", a)
		elv.SetVar(ev, "b", b)
		vs, err := elvq.Values(ev, `var ma = (assoc $m $a va)
has-key $ma $b
put $ma[$b]
count (assoc $ma $b vb)
count (dissoc $ma $b)
has-key (dissoc $ma $b) $a
count [&$a=1 &$b=2]
eq $a $b`)
		c.Evals(1)
		c.Count("pairs_via_builtins", 1)
		want := []any{true, "va", n0 + 1, n0, false, 1, true}
		ok := err == nil && len(vs) == len(want)
		if ok {
			for i := range want {
				if vs[i] != want[i] {
					ok = false
				}
			}
		}
		if !ok {
			wit["builtin_outputs"] = elv.Reprs(vs)
			wit["other_entries"] = n0
			c.Violation("map-key:"+class, fmt.Sprintf("builtins has-key/index/assoc/dissoc/count/map literal/eq give %v (error %v), expected %v; a = %s, b = %s [%s]",
				elv.Reprs(vs), err, elv.Reprs(want), vals.ReprPlain(a), vals.ReprPlain(b), how), wit)
		}
	}
}

func runCatalogue(c *mon.Case) {
	ent := catalogue[c.I%len(catalogue)]
	vs, err := elvq.Values(ev, ent.code)
	if err != nil || len(vs) != 2 {
		c.Inconclusive("catalogue-entry-failed:" + ent.name)
		return
	}
	a, b := vs[0], vs[1]
	ab, ba := vals.Equal(a, b), vals.Equal(b, a)
	if ab != ba {
		c.Count("asymmetric_eq_seen_decided_in_C09", 1)
	}
	if !ab && !ba {
		c.Count("catalogue_pairs_not_eq", 1)
		c.Distinct("catalogue_entries_not_eq", ent.name)
		return
	}
	c.Distinct("catalogue_entries_eq", ent.name)
	c.Nontrivial("cat", ent.name, c.I/len(catalogue))
	c.Count("catalogue_pairs", 1)
	checkPair(c, a, b, ent.name+": "+ent.code, c.I%4 == 0)
	c.Sample("catalogue-"+ent.name, map[string]any{"code": ent.code, "a": vals.ReprPlain(a), "b": vals.ReprPlain(b), "hash": fmt.Sprintf("%#x", vals.Hash(a))})
}

// variant returns a model that is Eq to m but differs where eq does not
// look: signs of zero, list representation.
func variant(r *rand.Rand, m *gen.Model) *gen.Model {
	c := *m
	if c.Kind == gen.KNum && c.Rep == gen.RepFloat && c.F == 0 && r.Intn(2) == 0 {
		c.F = math.Copysign(0, -1)
		if math.Signbit(m.F) {
			c.F = 0
		}
	}
	if c.Kind == gen.KList {
		c.Sub = r.Intn(3) == 0
		c.Elems = nil
		for _, e := range m.Elems {
			c.Elems = append(c.Elems, variant(r, e))
		}
	}
	if c.Kind == gen.KMap {
		c.Keys, c.Vals = nil, nil
		for i := range m.Keys {
			c.Keys = append(c.Keys, variant(r, m.Keys[i]))
			c.Vals = append(c.Vals, variant(r, m.Vals[i]))
		}
	}
	return &c
}

func scalar(r *rand.Rand) *gen.Model {
	switch r.Intn(12) {
	case 0:
		return gen.Float(0)
	case 1:
		return gen.Float(math.Copysign(0, -1))
	}
	return gen.GenScalar(r)
}

func runGenerated(c *mon.Case) {
	r := c.Rand
	cfg := gen.ValueCfg{NoNaN: true, Scalar: scalar}
	switch r.Intn(4) {
	case 0: // a single scalar
		cfg.MaxDepth = 1
	case 1:
		cfg.MaxDepth, cfg.MaxWidth = 2, 4
	}
	m := gen.GenValue(r, cfg)
	if r.Intn(6) == 0 {
		m = scalar(r)
		if m.IsNaN() {
			m = gen.Float(0)
		}
	}
	vm := variant(r, m)
	a, b := m.Value(), vm.ValueVariant(r)
	if a == nil {
		return // $nil is a single value; nothing can differ
	}
	ab, ba := vals.Equal(a, b), vals.Equal(b, a)
	if ab != ba {
		c.Count("asymmetric_eq_seen_decided_in_C09", 1)
	}
	if !ab && !ba {
		// the model says eq; whether eq itself is right is C09's business
		c.Count("generated_pairs_not_eq", 1)
		return
	}
	c.Count("generated_pairs", 1)
	differently := !gen.Same(m, vm) || m.Kind == gen.KMap || m.Kind == gen.KList
	if differently {
		c.Nontrivial("gen", m.Expr(), vm.Expr())
	}
	if isZeroSignOnly(a, b) {
		c.Count("generated_pairs_differing_in_zero_sign", 1)
	}
	if m.Kind == gen.KMap {
		c.Count("generated_map_pairs", 1)
	}
	checkPair(c, a, b, "generated: "+gen.Describe(m)+" vs "+gen.Describe(vm), c.I%16 == 0)
	if m.Kind >= gen.KList {
		c.Sample("generated", map[string]any{"a": gen.Describe(m), "b": gen.Describe(vm)})
	}
}

func Spec() *mon.Spec {
	return &mon.Spec{
		ID: "C08", Level: "exploration",
		Rule: "case = one pair (a,b) of values that eq reports equal although they were constructed differently: a catalogue of Elvish expressions (±0.0 alone and nested, the same number reached by different operations, strings, lists via slicing/conj/assoc, maps in other insertion orders and through assoc/dissoc detours incl. hash-colliding keys, field maps (src, re:find) vs literal maps, styled text, edit:key, edit:complex-candidate vs itself and vs a map, functions/namespaces/exceptions by identity), and generated nested values rebuilt through a different construction history with flipped zero signs and sliced lists. For each pair: Hash(a)==Hash(b); and inside a map of constructed neighbours (int keys sharing the low 5·d bits of the hash for d=1..6, so the key sits at every trie depth) plus 0..2000 random other entries: has-key, index, assoc (count grows by exactly one, value replaced), dissoc, exactly one key eq to a — in both roles, via vals and (sample) via the builtins. Non-trivial = pair is eq and constructed differently.",
		Assumptions: []string{
			"whether a pair is eq at all is taken from vals.Equal (either direction); the correctness and symmetry of eq is decided by C09",
			"the edit: values are obtained from an edit.Editor on a fake terminal that is never run",
		},
		ChildSetup: setup,
		Phases: []mon.Phase{
			{Name: "catalogue", Quick: 1600, Thorough: 24000, Run: runCatalogue},
			{Name: "generated", Quick: 16000, Thorough: 200000, Run: runGenerated},
		},
		Floors: map[string]int{"distinct_nontrivial": 2000, "catalogue_pairs": 400, "catalogue_entries_eq": 50, "generated_pairs": 2500, "generated_map_pairs": 500,
			"generated_pairs_differing_in_zero_sign": 200, "pairs_via_builtins": 250, "other_entries": 600, "pair_classes": 8},
	}
}
