// Package c40 checks that finished evaluations leave nothing behind
// (property C40): after Evaler.Eval returns - normally, by exception or by
// interruption - the set of open file descriptors (numbers and link targets)
// and the set of goroutines running interpreter code are what they were
// before. Generated programs: pipelines with failing and early-exiting
// stages, redirections to files and fds (including ones that fail half-way),
// output and exception captures, peach / run-parallel, readers over files,
// interruption in the middle.
package c40

import (
	"fmt"
	"math/rand"
	"os"
	"path/filepath"
	"regexp"
	"runtime"
	"runtime/debug"
	"runtime/pprof"
	"sort"
	"strconv"
	"strings"
	"sync/atomic"
	"time"

	"src.elv.sh/pkg/eval"
	"src.elv.sh/pkg/mods"
	"verifharness/internal/evalrun"
	"verifharness/internal/mon"
)

// ---------------------------------------------------------------------------
// census

type census struct {
	fds map[int]string // fd -> link target
	gs  map[int]string // goroutine id -> innermost src.elv.sh frame (only goroutines with interpreter frames)
	txt map[int]string
}

var inodeRe = regexp.MustCompile(`\[\d+\]`)

func fdCensus() map[int]string {
	out := map[int]string{}
	d, err := os.Open("/proc/self/fd")
	if err != nil {
		return out
	}
	self := int(d.Fd())
	names, _ := d.Readdirnames(-1)
	for _, n := range names {
		fd, err := strconv.Atoi(n)
		if err != nil || fd == self {
			continue
		}
		t, err := os.Readlink("/proc/self/fd/" + n)
		if err != nil {
			continue
		}
		out[fd] = t
	}
	d.Close()
	return out
}

func takeCensus() census {
	c := census{fds: fdCensus(), gs: map[int]string{}, txt: map[int]string{}}
	for _, g := range evalrun.Goroutines() {
		if g.Elv {
			c.gs[g.ID] = g.State + " @ " + g.Top
			c.txt[g.ID] = g.Text
		}
	}
	return c
}

type surplus struct {
	Fds        []string // "fd -> target"
	Goroutines []string // "state @ frame"
	Stacks     []string
}

func (s surplus) empty() bool { return len(s.Fds) == 0 && len(s.Goroutines) == 0 }

func diff(base, now census) surplus {
	var s surplus
	var fds []int
	for fd := range now.fds {
		fds = append(fds, fd)
	}
	sort.Ints(fds)
	for _, fd := range fds {
		if bt, ok := base.fds[fd]; !ok || bt != now.fds[fd] {
			s.Fds = append(s.Fds, fmt.Sprintf("%d -> %s", fd, now.fds[fd]))
		}
	}
	var ids []int
	for id := range now.gs {
		ids = append(ids, id)
	}
	sort.Ints(ids)
	for _, id := range ids {
		if _, ok := base.gs[id]; !ok {
			s.Goroutines = append(s.Goroutines, now.gs[id])
			s.Stacks = append(s.Stacks, now.txt[id])
		}
	}
	return s
}

// missing: descriptors of the baseline that are gone or changed (the
// evaluation closed something that was not its own).
func missing(base, now census) []string {
	var out []string
	for fd, t := range base.fds {
		// only descriptors that certainly belong to the process for its whole
		// life: the standard ones, /dev/null, files of the harness
		if !(fd <= 2 || t == "/dev/null" || (h != nil && strings.HasPrefix(t, h.root))) {
			continue
		}
		if _, ok := now.fds[fd]; !ok {
			out = append(out, fmt.Sprintf("%d -> %s (closed)", fd, t))
		}
	}
	sort.Strings(out)
	return out
}

// settle waits (without forcing a garbage collection: finalizers would hide
// leaked files) until the census equals the baseline, for at most ~2 s.
func settle(base census) (census, surplus, int) {
	var now census
	var s surplus
	delay := 200 * time.Microsecond
	waited := time.Duration(0)
	polls := 0
	for {
		now = takeCensus()
		s = diff(base, now)
		polls++
		if s.empty() || waited > 2*time.Second {
			return now, s, polls
		}
		runtime.Gosched()
		time.Sleep(delay)
		waited += delay
		if delay < 100*time.Millisecond {
			delay *= 2
		}
	}
}

// ---------------------------------------------------------------------------
// harness

var currentCancel atomic.Value // func()

func vCancel() {
	if f, ok := currentCancel.Load().(func()); ok && f != nil {
		f()
	}
}

func newEvaler() *eval.Evaler {
	ev := eval.NewEvaler()
	mods.AddTo(ev)
	ev.ExtendBuiltin(eval.BuildNs().AddGoFn("v-cancel", vCancel))
	return ev
}

type harness struct {
	run  *evalrun.Runner
	root string
	seq  int
}

var h *harness

func childSetup(e *mon.Env) {
	root := e.Scratch
	if root == "" {
		root, _ = os.MkdirTemp("", "c40-")
	}
	os.Setenv("PATH", "")
	if pf := os.Getenv("C40_PROF"); pf != "" {
		f, _ := os.Create(pf)
		pprof.StartCPUProfile(f)
		go func() { time.Sleep(20 * time.Second); pprof.StopCPUProfile(); f.Close() }()
	}
	h = &harness{root: root}
	h.run = &evalrun.Runner{New: newEvaler, IOWaitIsHang: true, Limits: evalrun.Limits{MaxValues: 200000, MaxBytes: 8 << 20, Deadline: 4 * time.Second, Grace: 2 * time.Second}}
	// warm-up: everything that is created lazily once per process exists
	// before the first baseline is taken
	dir := h.freshDir()
	for _, p := range []string{"put a | each {|x| put $x } | count", "echo a > out; slurp < out", "put (echo a) ?(fail x)", "range 4 | peach {|x| put $x } | count",
		"run-parallel { put a } { echo b }", "try { fail x } catch e { }", "use str; use re; use math; use path; use os; use file"} {
		h.run.Run(p, evalrun.Cfg{Global: eval.BuildNs().Ns()})
	}
	os.RemoveAll(dir)
	os.Chdir(root)
}

func (h *harness) freshDir() string {
	h.seq++
	dir := filepath.Join(h.root, fmt.Sprintf("c%d", h.seq))
	os.MkdirAll(dir, 0o755)
	os.WriteFile(filepath.Join(dir, "in"), []byte("alpha\nbeta\ngamma delta\n\nlast-no-newline"), 0o644)
	os.WriteFile(filepath.Join(dir, "rw"), []byte("0123456789"), 0o644)
	os.MkdirAll(filepath.Join(dir, "d1"), 0o755)
	os.WriteFile(filepath.Join(dir, "big"), []byte(strings.Repeat("line of text\n", 6000)), 0o644)
	os.Chdir(dir)
	return dir
}

// ---------------------------------------------------------------------------
// program generator

type stage struct {
	code        string
	many        bool // producer: emits a long stream of values; filter: passes a long stream on
	rdOnlyBytes bool // reads only the byte side of its input
}

var producers = []stage{
	{"put a b c", false, false}, {"echo l1; echo l2", false, false}, {"range 20", false, false}, {"range 600", true, false},
	{"put [x y] [&k=v]", false, false}, {"print partial", false, false}, {"repeat 30 x", false, false}, {"from-lines < in", false, false},
	{"slurp < in", false, false}, {"put (range 5)", false, false}, {"each {|x| put $x } [a b c]", false, false}, {"{ echo o; echo e >&2 }", false, false},
	{"fail prod", false, false}, {"nop", false, false}, {"to-lines [(range 6000)]", true, false}, {"put a; fail after-output", false, false},
	{"echo (range 50)", false, false}, {"put (slurp < big | count (all))", false, false}, {"each {|x| echo $x } [(range 500)]", true, false}, {"range 400", true, false},
}

var filters = []stage{
	{"each {|x| put $x }", true, false}, {"take 2", false, false}, {"drop 1", true, false}, {"each {|x| echo $x }", true, false},
	{"keep-if {|x| put $true }", true, false}, {"each {|x| fail f }", false, false}, {"each {|x| break }", false, false}, {"take 0", false, false},
	{"peach {|x| put $x }", true, false}, {"only-values", true, false}, {"to-lines", true, false}, {"from-lines", true, true},
	{"order", true, false}, {"compact", true, false}, {"nop", false, false}, {"each {|x| if (eq $x b) { fail mid }; put $x }", true, false},
	{"{ take 1; fail after }", false, false}, {"peach &num-workers=2 {|x| if (eq $x 3) { fail w }; put $x }", true, false}, {"each {|x| put (put $x | count) }", true, false},
	{"only-bytes", true, false}, {"{ read-line; fail rl }", false, true}, {"each {|x| put ?(fail $x) }", true, false}, {"peach {|x| break }", false, false},
}

var consumers = []stage{
	{"count", false, false}, {"put [(all)]", false, false}, {"nop", false, false}, {"fail cons", false, false}, {"each {|x| }", false, false},
	{"take 1", false, false}, {"each {|x| fail $x }", false, false}, {"each {|x| break }", false, false}, {"slurp", false, true}, {"peach {|x| nop $x }", false, false},
	{"{ nop (one) }", false, false}, {"to-json", false, false}, {"each {|x| put (put $x) } | count", false, false}, {"read-line", false, true},
}

// genPipeline builds a pipeline of 1..4 stages. A reader of bytes only is never
// placed behind a long stream of values (it would never drain them:
// program-level deadlock by the documented buffering, not a leak).
func genPipeline(r *rand.Rand, cancelInside bool) string {
	n := 1 + r.Intn(4)
	if cancelInside && n < 2 {
		n = 2
	}
	st := producers[r.Intn(len(producers))]
	parts := []string{st.code}
	many := st.many
	for i := 1; i < n; i++ {
		pool := filters
		if i == n-1 {
			pool = consumers
		}
		var f stage
		for {
			f = pool[r.Intn(len(pool))]
			// (only-values / only-bytes behind a long stream deadlock today
			// when their own reader leaves early: recorded under C17)
			if !(many && (f.rdOnlyBytes || f.code == "only-values" || f.code == "only-bytes")) {
				break
			}
		}
		if cancelInside && i == 1 {
			f = stage{"each {|x| if (eq $x " + []string{"b", "3", "l2", "x"}[r.Intn(4)] + ") { v-cancel }; put $x }", true, false}
		}
		parts = append(parts, f.code)
		many = many && f.many
	}
	return strings.Join(parts, " | ")
}

// redirections for a whole block (any port) and for the last form of a
// pipeline (not its stdin: a pipeline stage that redirects its own stdin
// crashes today, C17)
var redirs = []string{"> out > nodir/x", "< in < nonexistent", ">> out > d1", "3> out 3< nonexistent", "> out", ">> out", "< in", "<> rw", "2>&1", ">&-", "2>&-", "> out 2>&1", "< nonexistent", "> out 7>&9", "> out > out2", ">> out 2>> out", "> nodir/x", "< in > out",
	"> out < nonexistent", "3> out 3>&-", "2> err >&2", "> out 9< in", "5> out 6>&5 5>&-", "> out 2> out2 3> out3 4>&9"}
var redirsNoStdin = []string{"> out", ">> out", "<> rw", "2>&1", ">&-", "2>&-", "> out 2>&1", "> out 7>&9", "> out > out2", ">> out 2>> out", "> nodir/x",
	"3> out 3>&-", "2> err >&2", "> out 9< in", "5> out 6>&5 5>&-", "> out 9< nonexistent"}

// A redirection that fails on a port the form already owns: the port was
// given to the form by an earlier redirection of the same form, or it is the
// pipe end a pipeline stage got from its neighbour. What the form owned must
// be released all the same.
var okOn = map[string][]string{
	"0": {"< in", "0< in", "0<> rw", "stdin< big"},
	"1": {"> out", ">> out", "<> rw", "1> out", "stdout> out"},
	"2": {"2> err", "2>> err", "stderr> err"},
	"3": {"3> out3", "3< in", "3>> out3"},
}
var failOn = map[string][]string{
	"0": {"< nonexistent", "< nodir/x", "0< nonexistent", "0<> nodir/x", "0> d1", "stdin< nonexistent"},
	"1": {"> nodir/x", ">> nodir/x", "> d1", "<> nodir/x", "1> nodir/x", "1< nonexistent", "stdout> d1"},
	"2": {"2> nodir/x", "2>> d1", "2< nonexistent", "stderr> nodir/x"},
	"3": {"3> nodir/x", "3< nonexistent", "3>> d1"},
}
var badFdOn = map[string][]string{"0": {"0<&9", "<&9"}, "1": {">&9", "1>&8"}, "2": {"2>&9"}, "3": {"3>&9"}}

func failing(r *rand.Rand, port string) string {
	if r.Intn(6) == 0 {
		return badFdOn[port][r.Intn(len(badFdOn[port]))]
	}
	return failOn[port][r.Intn(len(failOn[port]))]
}

func pick(r *rand.Rand, ss []string) string { return ss[r.Intn(len(ss))] }

// genRefail returns a pipeline in which some form meets a failing redirection
// on a port it owns, and the class of the construction.
func genRefail(r *rand.Rand) (string, string) {
	prod := producers[r.Intn(len(producers))]
	for prod.many {
		prod = producers[r.Intn(len(producers))]
	}
	flt := filters[r.Intn(len(filters))].code
	cons := consumers[r.Intn(len(consumers))].code
	twice := func(port string) string {
		s := pick(r, okOn[port])
		if r.Intn(4) == 0 { // an unrelated successful redirection in between
			other := []string{"0", "1", "2", "3"}[r.Intn(4)]
			if other != port {
				s += " " + pick(r, okOn[other])
			}
		}
		s += " " + failing(r, port)
		if r.Intn(4) == 0 {
			s += " " + pick(r, okOn[[]string{"1", "2", "3"}[r.Intn(3)]]) // never reached
		}
		return s
	}
	port := []string{"0", "1", "1", "2", "3"}[r.Intn(5)]
	switch r.Intn(8) {
	case 0:
		return "{ " + prod.code + " | " + cons + " } " + twice(port), "refail-block"
	case 1:
		return prod.code + " " + twice(port), "refail-single-form"
	case 2: // last stage: its stdin is the pipe's read end
		red := failing(r, "0")
		if r.Intn(2) == 0 {
			red = twice(port)
		}
		return prod.code + " | " + cons + " " + red, "refail-stage-stdin"
	case 3: // first stage: its stdout is the pipe's write end and channel
		red := failing(r, "1")
		if r.Intn(2) == 0 {
			red = twice(port)
		}
		return prod.code + " " + red + " | " + cons, "refail-stage-stdout"
	case 4: // middle stage: both ends
		red := failing(r, []string{"0", "1"}[r.Intn(2)])
		if r.Intn(3) == 0 {
			red = pick(r, okOn["0"]) + " " + failing(r, "1")
		}
		return prod.code + " | " + flt + " " + red + " | " + cons, "refail-stage-middle"
	case 5:
		return prod.code + " | { " + flt + " } " + twice(port) + " | " + cons, "refail-block-stage"
	case 6: // a stage that fails this way next to stages that fail or leave early
		return "range 600 | each {|x| put $x } " + failing(r, "1") + " | " + pick(r, []string{"take 1", "each {|x| fail f }", "nop", "each {|x| break }", "count"}), "refail-with-early-exit"
	default:
		return "echo first " + twice("1") + "; echo second", "refail-then-continue"
	}
}

func genProgram(r *rand.Rand) (code, family string) {
	switch k := r.Intn(100); {
	case k < 16:
		return genPipeline(r, false), "pipeline"
	case k < 40:
		p, cls := genRefail(r)
		switch r.Intn(8) {
		case 0:
			return "var v = (" + p + ")", cls + "+capture"
		case 1:
			return "put ?(" + p + ")", cls + "+exc-capture"
		case 2:
			return "try { " + p + " } catch e { put caught } finally { echo fin }", cls + "+try"
		case 3:
			return "try { put (" + p + ") } catch e { nop ?(" + p + ") }", cls + "+capture-in-try"
		case 4:
			return "run-parallel { " + p + " } { " + genPipeline(r, false) + " }", cls + "+run-parallel"
		case 5:
			return "peach {|x| try { " + p + " } catch e { put $x } } [a b c]", cls + "+peach"
		}
		return p, cls
	case k < 52:
		body := genPipeline(r, false)
		if r.Intn(2) == 0 {
			return "{ " + body + " } " + redirs[r.Intn(len(redirs))], "redirected-block"
		}
		return body + " " + redirs[r.Intn(len(redirs))], "redirected-last-form"
	case k < 58:
		p := genPipeline(r, false)
		switch r.Intn(6) {
		case 0:
			return "var v = (" + p + ")", "output-capture"
		case 1:
			return "put ?(" + p + ")", "exception-capture"
		case 2:
			return "try { put (" + p + ") } catch e { put caught } finally { echo fin }", "capture-in-try"
		case 3:
			return "for x [(" + p + ")] { put $x } else { put none }", "capture-in-for"
		case 4:
			return "put (put (" + p + ") | count)", "nested-capture"
		default:
			return "try { nop (" + p + " | each {|x| fail inner }) } catch e { nop ?(" + genPipeline(r, false) + ") }", "failing-nested-capture"
		}
	case k < 72:
		switch r.Intn(4) {
		case 0:
			return "run-parallel { " + genPipeline(r, false) + " } { " + genPipeline(r, false) + " }", "run-parallel"
		case 1:
			return "peach {|x| " + genPipeline(r, false) + " } [a b c]", "peach-body-pipeline"
		case 2:
			return "range 4 | peach {|x| put (" + genPipeline(r, false) + ") } | count", "peach-capture"
		default:
			return "run-parallel { { " + genPipeline(r, false) + " } > out } { fail rp } { { " + genPipeline(r, false) + " } < in }", "run-parallel-redirected"
		}
	case k < 88:
		switch r.Intn(5) {
		case 0:
			return genPipeline(r, true), "interrupt-in-pipeline"
		case 1:
			return "run-parallel { sleep 3 } { v-cancel }", "interrupt-sleep"
		case 2:
			return "{ v-cancel; " + genPipeline(r, false) + " }", "interrupt-before"
		case 3:
			return "var v = (" + genPipeline(r, true) + ")", "interrupt-in-capture"
		default:
			return "{ " + genPipeline(r, true) + " } " + redirs[r.Intn(len(redirs))], "interrupt-redirected"
		}
	default:
		switch r.Intn(5) {
		case 0:
			return "from-lines < big | each {|l| put $l } | take 3", "reader-early-exit"
		case 1:
			return "slurp < big | count (one)", "slurp-big"
		case 2:
			return "to-lines [(range 5000)] > out; from-lines < out | count", "file-roundtrip"
		case 3:
			return "eval 'echo a | each {|x| put $x } > out'; use-mod str", "eval"
		default:
			return "tmp E:VERIF_C40 = 1; fn f { " + genPipeline(r, false) + " }; f > out; f | nop", "function"
		}
	}
}

// ---------------------------------------------------------------------------

func kindOfTarget(t string) string {
	switch {
	case strings.HasPrefix(t, "pipe:"):
		return "pipe"
	case strings.HasPrefix(t, "/dev/null"):
		return "dev-null"
	case strings.HasPrefix(t, "socket:"), strings.HasPrefix(t, "anon_inode:"):
		return inodeRe.ReplaceAllString(t, "")
	case strings.HasPrefix(t, "/"):
		return "file"
	}
	return "other"
}

func evaluate(c *mon.Case, code string, base census, reps int, family string) bool {
	for rep := 0; rep < reps; rep++ {
		t0 := time.Now()
		o := h.run.Run(code, evalrun.Cfg{Global: eval.BuildNs().Ns(), OnStart: func(cancel func()) { currentCancel.Store(cancel) }})
		if d := time.Since(t0); d > 500*time.Millisecond && os.Getenv("C40_DEBUG") != "" {
			fmt.Fprintf(os.Stderr, "SLOW %v timedout=%v: %s\n", d, o.TimedOut, code)
		}
		c.Evals(1)
		switch {
		case o.Panic != nil:
			c.Inconclusive("evaluation-panicked(see C17)")
			c.Count("panics", 1)
			return false
		case o.Abandoned:
			if os.Getenv("C40_DEBUG") != "" {
				fmt.Fprintf(os.Stderr, "ABANDONED hang=%q running=%v: %s\n%s\n", o.HangSig, o.Running, code, o.HangDump)
			}
			if o.HangSig != "" {
				// Eval never returns and every goroutine of it is blocked: what
				// it created (a pipe end, a channel nobody closes) is never
				// released. No generated program reads from outside.
				c.Violation("never-finishes:"+o.HangSig, "the evaluation does not return and all of its goroutines are blocked (something it created was never closed): "+mon.Q(code),
					map[string]any{"program": code, "family": family, "repetition": rep, "goroutines": clipAll([]string{o.HangDump})})
				return false
			}
			c.Inconclusive("evaluation-did-not-return-still-running")
			return false
		}
		switch {
		case o.Err == nil:
			c.Count("ended-normally", 1)
		case o.TimedOut:
			c.Count("ended-by-deadline", 1)
		default:
			if strings.Contains(o.Err.Error(), "interrupted") {
				c.Count("ended-interrupted", 1)
			} else {
				c.Count("ended-by-exception", 1)
			}
		}
		_, s, polls := settle(base)
		c.Max("settle-polls", polls)
		if polls > 1 {
			c.Count("needed-settling", 1)
		}
		if !s.empty() {
			w := map[string]any{"program": code, "family": family, "repetition": rep, "surplus_fds": s.Fds, "surplus_goroutines": s.Goroutines, "stacks": clipAll(s.Stacks)}
			if len(s.Fds) > 0 {
				kinds := map[string]bool{}
				for _, f := range s.Fds {
					kinds[kindOfTarget(f[strings.Index(f, "-> ")+3:])] = true
				}
				var ks []string
				for k := range kinds {
					ks = append(ks, k)
				}
				sort.Strings(ks)
				c.Violation("fd-left-open:"+strings.Join(ks, "+"), fmt.Sprintf("%d descriptor(s) still open 2 s after Eval returned: %v", len(s.Fds), s.Fds), w)
			} else {
				top := s.Goroutines[0]
				if k := strings.Index(top, " @ "); k >= 0 {
					top = top[k+3:]
				}
				c.Violation("goroutine-left:"+top, fmt.Sprintf("%d interpreter goroutine(s) still alive 2 s after Eval returned: %v", len(s.Goroutines), s.Goroutines), w)
			}
			return false
		}
	}
	return true
}

func clipAll(ss []string) []string {
	out := make([]string, 0, len(ss))
	for i, s := range ss {
		if i >= 4 {
			break
		}
		if len(s) > 1500 {
			s = s[:1500]
		}
		out = append(out, s)
	}
	return out
}

// withGCOff runs f with the garbage collector disabled, so that finalizers
// cannot close a leaked *os.File behind the monitor's back.
func withGCOff(f func()) {
	runtime.GC()
	old := debug.SetGCPercent(-1)
	defer func() {
		debug.SetGCPercent(old)
	}()
	f()
}

func runProgram(c *mon.Case) {
	dir := h.freshDir()
	defer func() { os.Chdir(h.root); os.RemoveAll(dir) }()
	code, family := genProgram(c.Rand)
	if strings.HasPrefix(family, "refail-") {
		cls, wrap, _ := strings.Cut(family, "+")
		c.Count("refail_programs", 1)
		c.Count(strings.ReplaceAll(cls, "-", "_"), 1)
		if wrap != "" {
			c.Count("refail_wrapped", 1)
		}
	}
	withGCOff(func() {
		base := takeCensus()
		if evaluate(c, code, base, 3, family) {
			c.Nontrivial(code)
			c.Distinct("families", family)
		}
		if gone := missing(base, takeCensus()); len(gone) > 0 {
			c.Violation("baseline-fd-closed", fmt.Sprintf("descriptors that were open before the evaluation are closed now: %v", gone), map[string]any{"program": code})
		}
	})
	if c.I%97 == 0 {
		c.Sample(family, map[string]any{"program": code})
	}
}

// runRepeat: the same program many times back to back; the highest descriptor
// number in use afterwards stays within a constant of the baseline.
func runRepeat(c *mon.Case) {
	dir := h.freshDir()
	defer func() { os.Chdir(h.root); os.RemoveAll(dir) }()
	code, family := genProgram(c.Rand)
	n := c.Env.Pick(120, 300)
	withGCOff(func() {
		base := takeCensus()
		maxBase := 0
		for fd := range base.fds {
			if fd > maxBase {
				maxBase = fd
			}
		}
		for i := 0; i < n; i++ {
			o := h.run.Run(code, evalrun.Cfg{Global: eval.BuildNs().Ns(), OnStart: func(cancel func()) { currentCancel.Store(cancel) }})
			c.Evals(1)
			if o.Panic != nil || o.Abandoned {
				c.Inconclusive("evaluation-failed-abnormally(see C17)")
				return
			}
		}
		now, s, _ := settle(base)
		maxNow := 0
		for fd := range now.fds {
			if fd > maxNow {
				maxNow = fd
			}
		}
		c.Max("repeat-max-fd-growth", maxNow-maxBase)
		w := map[string]any{"program": code, "family": family, "repetitions": n, "surplus_fds": s.Fds, "surplus_goroutines": s.Goroutines, "stacks": clipAll(s.Stacks)}
		switch {
		case len(s.Fds) > 0:
			c.Violation("repeat-fd-growth", fmt.Sprintf("after %d evaluations %d descriptor(s) more than before are open: %v", n, len(s.Fds), s.Fds[:min(len(s.Fds), 8)]), w)
		case len(s.Goroutines) > 0:
			c.Violation("repeat-goroutine-growth", fmt.Sprintf("after %d evaluations %d interpreter goroutine(s) more than before are alive: %v", n, len(s.Goroutines), s.Goroutines[:min(len(s.Goroutines), 8)]), w)
		default:
			c.Nontrivial("repeat", code)
			c.Count("repeat-series-flat", 1)
		}
	})
}

// scale divides the case counts (development aid: C40_SCALE=4 runs a quarter).
func scale(n int) int {
	if v, err := strconv.Atoi(os.Getenv("C40_SCALE")); err == nil && v > 1 {
		return n / v
	}
	return n
}

// Spec returns the C40 check.
func Spec() *mon.Spec {
	return &mon.Spec{
		ID:    "C40",
		Level: "exploration",
		Rule: "Phase programs: a generated program (about a quarter: a form that meets a failing redirection - missing file, missing directory, directory, unopened fd - on a port it already owns, because an earlier redirection of the same form opened it or because it is the pipe end of a pipeline stage, plain and inside captures / try / run-parallel / peach; otherwise pipelines of 1..4 stages with failing / early-exiting / interrupting stages; blocks and last forms with redirections to files, fds, closed ports and redirections that fail after an earlier one opened a file; " +
			"output and exception captures, also nested and inside failing try; peach / run-parallel; file readers with early exit; interruption through a harness builtin that cancels the evaluation's context) is evaluated 3 times on one Evaler; " +
			"after each Eval the open descriptors (/proc/self/fd with link targets) and the goroutines with src.elv.sh frames are compared with the census taken just before, with a settle loop of up to 2 s and the garbage collector disabled (finalizers would close leaked files). " +
			"Phase repeat: one program evaluated 120 (quick) / 300 (thorough) times back to back, then the same comparison. Non-trivial = distinct program whose three evaluations all returned and were compared.",
		Assumptions: []string{
			"Excluded by construction, as in the property: background jobs (&), explicit file:open / file:pipe, external commands (PATH is empty).",
			"Programs avoid the crash classes recorded under C17 (value output to input ports, $nil arguments, negative fds) and program-level deadlocks permitted by the documented buffering (a long value stream into a reader of bytes only); an evaluation that panics, or that is given up while some goroutine of it can still run, is counted inconclusive here. An evaluation that does not return while all of its goroutines are blocked is a violation (something it created was never closed); no generated program reads from outside the evaluation, so a goroutine waiting in a read counts as blocked.",
			"The capture ports of the harness are eval.PipePort ports; their pipes and goroutines are part of what must be gone after Eval returned and the port's cleanup function was called.",
			"Only a surplus that persists for 2 s counts; nothing is demanded about the moment Eval returns.",
		},
		ChildSetup: childSetup,
		Phases: []mon.Phase{
			{Name: "programs", Quick: scale(1600), Thorough: scale(16000), Run: runProgram, Timeout: 90 * time.Second},
			{Name: "repeat", Quick: scale(24), Thorough: scale(200), Run: runRepeat, Timeout: 120 * time.Second},
		},
		Floors: map[string]int{
			"distinct_nontrivial": 500, "families": 15, "evaluations": 3000,
			"refail_programs": 120, "refail_wrapped": 60, "refail_block": 8, "refail_single_form": 8, "refail_stage_stdin": 8, "refail_stage_stdout": 8,
			"refail_stage_middle": 8, "refail_block_stage": 8, "refail_with_early_exit": 8, "refail_then_continue": 8,
			"ended-normally": 600, "ended-by-exception": 500, "ended-interrupted": 60, "repeat-series-flat": 8,
		},
	}
}
