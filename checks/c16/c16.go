// Package c16 checks that code with static errors never runs and that the
// static check agrees with evaluation (property C16).
//
// A case builds a program out of side-effecting valid statements (each
// leaves a unique marker: value output, byte output on stdout and stderr,
// a file, an environment variable, a harness event, a changed or new or
// deleted global variable) and injects one statically invalid snippet at a
// random position, possibly inside a lambda that is never called. The real
// interpreter is then observed through Evaler.Check and Evaler.Eval on the
// same context, and for a sample through `elvish -compileonly`.
package c16

import (
	"bytes"
	"context"
	"encoding/json"
	"fmt"
	"math/rand"
	"os"
	"os/exec"
	"path/filepath"
	"sort"
	"strings"
	"sync"
	"time"

	"src.elv.sh/pkg/eval"
	"src.elv.sh/pkg/eval/vals"
	"src.elv.sh/pkg/eval/vars"
	"src.elv.sh/pkg/mods"
	"src.elv.sh/pkg/parse"

	"verifharness/internal/mon"
	"verifharness/internal/refinterp"
)

// ---------------------------------------------------------------------------
// harness events

var (
	evMu     sync.Mutex
	evEvents []string
)

func newEvaler() *eval.Evaler {
	ev := eval.NewEvaler()
	mods.AddTo(ev)
	ev.ExtendBuiltin(eval.BuildNs().AddGoFn("v-emit", func(args ...any) {
		evMu.Lock()
		for _, a := range args {
			evEvents = append(evEvents, vals.ToString(a))
		}
		evMu.Unlock()
	}))
	return ev
}

func takeEvents() []string {
	evMu.Lock()
	defer evMu.Unlock()
	e := evEvents
	evEvents = nil
	return e
}

// ---------------------------------------------------------------------------
// static-error snippets

type snippet struct {
	class string
	text  string
	// pinned: the reference says this is rejected before execution, so the
	// check also demands that evaluation reports a static error
	pinned bool
	// topOnly: only invalid at top level (not inside a lambda)
	topOnly bool
	// parse: a parse error (may be placed anywhere a statement can stand)
	parse bool
	// ns: pragma / name-resolution class (static errors and near-errors)
	ns bool
}

var snippets = []snippet{
	{class: "undefined-variable", text: "put $no-such-variable-%d", pinned: true},
	{class: "undefined-variable", text: "nop [a $no-such-variable-%d]", pinned: true},
	{class: "undefined-variable", text: "nop { put $no-such-variable-%d }", pinned: true},
	{class: "undefined-variable-in-fn", text: "fn unused-%d { put $no-such-variable }", pinned: true},
	{class: "undefined-explode", text: "put $@no-such-list-%d", pinned: true},
	{class: "set-undeclared", text: "set no-such-variable-%d = 1"},
	{class: "set-undeclared-element", text: "set no-such-variable-%d[0] = 1"},
	{class: "tmp-undeclared", text: "{ tmp no-such-variable-%d = 1 }"},
	{class: "with-undeclared", text: "with no-such-variable-%d = 1 { }"},
	{class: "del-undeclared", text: "del no-such-variable-%d"},
	{class: "del-nonlocal", text: "{ del g1 } # %d"},
	{class: "unknown-command-disallowed", text: "{ pragma unknown-command = disallow; no-such-command-%d }", pinned: true},
	{class: "unknown-command-disallowed", text: "{ pragma unknown-command = disallow; { nop; no-such-command-%d a b } }", pinned: true},
	{class: "bad-pragma", text: "{ pragma no-such-pragma = x } # %d"},
	{class: "bad-pragma-value", text: "{ pragma unknown-command = sometimes } # %d"},
	{class: "tmp-at-top-level", text: "tmp g1 = x%d", pinned: true, topOnly: true},
	{class: "try-else-without-catch", text: "try { nop } else { nop } # %d", pinned: true},
	{class: "try-alone", text: "try { nop } # %d"},
	{class: "try-bad-keyword", text: "try { nop } catch e { } otherwise { } # %d"},
	{class: "if-without-body", text: "if $true # %d"},
	{class: "if-nonlambda-body", text: "if $true x%d"},
	{class: "if-dangling-else", text: "if $true { } else # %d"},
	{class: "while-without-body", text: "while $false # %d"},
	{class: "for-without-body", text: "for x%d [a]"},
	{class: "for-bad-variable", text: "for $g1 [a] { } # %d"},
	{class: "fn-nonlambda", text: "fn nf%d x"},
	{class: "fn-without-body", text: "fn nf%d"},
	{class: "var-element", text: "var nv%d[0] = 1"},
	{class: "var-qualified", text: "var a:b%d = 1"},
	{class: "set-two-rest", text: "set @g2 @g3 = 1 # %d"},
	{class: "lambda-two-rest", text: "nop {|@a @b| } # %d"},
	{class: "use-compound", text: "use a$g1 # %d"},
	{class: "and-ok", text: "nop # %d"}, // a valid snippet: the program stays valid
	// --- pragmas and name resolution: static errors and near-errors. Whether
	// each one is rejected is decided by the interpreter; the check demands
	// that Check/CheckTree/-compileonly agree with Eval and that rejected code
	// did not run.
	{ns: true, class: "ns-unimported-mod-cmd-strict", text: "{ pragma unknown-command = disallow; str:join , [a] } # %d"},
	{ns: true, class: "ns-unimported-mod-cmd-strict", text: "{ pragma unknown-command = disallow; re:match a a } # %d"},
	{ns: true, class: "ns-unimported-mod-cmd-strict", text: "{ pragma unknown-command = disallow; math:abs 1 } # %d"},
	{ns: true, class: "ns-unimported-mod-cmd-strict", text: "{ pragma unknown-command = disallow; path:base a; file:pipe; os:stat a; flag:call; doc:show a; platform:hostname; runtime:foo } # %d"},
	{ns: true, class: "ns-unimported-mod-cmd-strict-nested", text: "{ pragma unknown-command = disallow; nop { nop (str:to-upper a) } } # %d"},
	{ns: true, class: "ns-unimported-mod-cmd-strict-toplevel", text: "pragma unknown-command = disallow; str:join , [a] # %d"},
	{ns: true, class: "ns-unimported-bundled-mod-cmd-strict", text: "{ pragma unknown-command = disallow; epm:list } # %d"},
	{ns: true, class: "ns-unimported-bundled-mod-cmd-strict", text: "{ pragma unknown-command = disallow; readline-binding:foo } # %d"},
	{ns: true, class: "ns-nonexistent-mod-cmd-strict", text: "{ pragma unknown-command = disallow; no-such-mod:cmd } # %d"},
	{ns: true, class: "ns-unimported-mod-cmd-lenient", text: "{ str:no-such-external-%d a }"},
	{ns: true, class: "ns-nonexistent-mod-cmd-lenient", text: "{ no-such-mod:cmd-%d }"},
	{ns: true, class: "ns-imported-mod-cmd-strict", text: "{ use str; pragma unknown-command = disallow; put (str:to-upper a) } # %d"},
	{ns: true, class: "ns-imported-mod-cmd-strict", text: "{ pragma unknown-command = disallow; use math; put (math:abs -1) } # %d"},
	{ns: true, class: "ns-imported-bundled-mod", text: "{ use epm; pragma unknown-command = disallow; nop $epm:install~ } # %d"},
	{ns: true, class: "ns-imported-enclosing-scope", text: "{ use str; { pragma unknown-command = disallow; { put (str:to-upper a) } } } # %d"},
	{ns: true, class: "ns-imported-toplevel-used-inside", text: "use str; { pragma unknown-command = disallow; put (str:to-upper a) } # %d"},
	{ns: true, class: "ns-imported-sibling-scope", text: "{ use str }; { pragma unknown-command = disallow; str:to-upper a } # %d"},
	{ns: true, class: "ns-imported-sibling-scope-lenient", text: "{ use str }; { str:to-upper-%d a }"},
	{ns: true, class: "ns-use-after-reference", text: "{ pragma unknown-command = disallow; str:to-upper a; use str } # %d"},
	{ns: true, class: "ns-use-after-reference-var", text: "{ put $str:to-upper~; use str } # %d"},
	{ns: true, class: "ns-use-nonexistent-mod", text: "{ use no-such-mod-%d }"},
	{ns: true, class: "ns-use-alias", text: "{ use str s; pragma unknown-command = disallow; put (s:to-upper a); str:to-upper a } # %d"},
	{ns: true, class: "ns-unimported-mod-var", text: "put $math:pi # %d"},
	{ns: true, class: "ns-unimported-mod-var", text: "nop { put $str:join~ } # %d"},
	{ns: true, class: "ns-nonexistent-mod-var", text: "put $no-such-mod:var # %d"},
	{ns: true, class: "ns-imported-mod-var", text: "{ use math; put $math:pi } # %d"},
	{ns: true, class: "ns-imported-mod-var-sibling", text: "{ use math }; put $math:pi # %d"},
	{ns: true, class: "ns-imported-mod-nonexistent-var", text: "{ use math; put $math:no-such-var } # %d"},
	{ns: true, class: "ns-builtin-mod", text: "{ use builtin; pragma unknown-command = disallow; builtin:put a } # %d"},
	{ns: true, class: "ns-builtin-mod-unimported", text: "{ pragma unknown-command = disallow; builtin:put a } # %d"},
	{ns: true, class: "ns-e-qualified-strict", text: "{ pragma unknown-command = disallow; e:no-such-external-%d }"},
	{ns: true, class: "ns-e-qualified-var", text: "{ pragma unknown-command = disallow; nop $e:no-such-external-%d~ }"},
	{ns: true, class: "ns-E-qualified-var", text: "{ pragma unknown-command = disallow; put $E:VERIF_NO_SUCH_ENV_%d }"},
	{ns: true, class: "ns-E-qualified-set", text: "{ set E:VERIF_C16_NS_%d = x }"},
	{ns: true, class: "ns-slash-command-strict", text: "{ pragma unknown-command = disallow; ./no-such-file-%d }"},
	{ns: true, class: "ns-pragma-after-command", text: "{ no-such-command-%d; pragma unknown-command = disallow }"},
	{ns: true, class: "ns-pragma-in-sibling-lambda", text: "{ pragma unknown-command = disallow }; no-such-command-%d"},
	{ns: true, class: "ns-pragma-inherited-by-inner-lambda", text: "{ pragma unknown-command = disallow; nop { nop { no-such-command-%d } } }"},
	{ns: true, class: "ns-pragma-reset-in-inner-lambda", text: "{ pragma unknown-command = disallow; { pragma unknown-command = external; no-such-command-%d } }"},
	{ns: true, class: "ns-pragma-reset-then-outer", text: "{ pragma unknown-command = disallow; { pragma unknown-command = external }; no-such-command-%d }"},
	{ns: true, class: "ns-pragma-toplevel-then-lambda", text: "pragma unknown-command = disallow; nop { no-such-command-%d }"},
	{ns: true, class: "ns-pragma-in-fn-body", text: "fn strict-%d { pragma unknown-command = disallow; no-such-command }"},
	{ns: true, class: "ns-shadowed-builtin-strict", text: "{ fn put {|@a| nop $@a }; pragma unknown-command = disallow; put a } # %d"},
	{ns: true, class: "ns-user-fn-strict", text: "{ pragma unknown-command = disallow; fn local-fn { nop }; local-fn } # %d"},
	{ns: true, class: "ns-user-fn-deleted-strict", text: "{ pragma unknown-command = disallow; var f~ = { nop }; f; del f~; f } # %d"},
	{ns: true, class: "ns-user-fn-used-before-definition-strict", text: "{ pragma unknown-command = disallow; later-fn; fn later-fn { nop } } # %d"},
	{ns: true, class: "ns-fn-variable-strict", text: "{ pragma unknown-command = disallow; var g~ = $nop~; g a } # %d"},
	{ns: true, class: "ns-special-command-as-variable", text: "{ pragma unknown-command = disallow; nop $if~ } # %d"},
	{ns: true, class: "ns-special-command-shadowed", text: "{ var and~ = { put shadow }; pragma unknown-command = disallow; and } # %d"},
	{ns: true, class: "ns-global-fn-strict", text: "{ pragma unknown-command = disallow; gf } # %d"},
	{class: "parse-unclosed-paren", text: "put (put a%d", pinned: true, parse: true},
	{class: "parse-unclosed-bracket", text: "put [a%d b", pinned: true, parse: true},
	{class: "parse-unclosed-brace", text: "nop { put a%d", pinned: true, parse: true},
	{class: "parse-unclosed-dquote", text: "put \"a%d", pinned: true, parse: true},
	{class: "parse-unclosed-squote", text: "put 'a%d", pinned: true, parse: true},
	{class: "parse-bad-escape", text: "put \"a%d\\0\"", pinned: true, parse: true},
	{class: "parse-stray-paren", text: "put a%d )", pinned: true, parse: true},
	{class: "parse-stray-bracket", text: "put a%d ]", pinned: true, parse: true},
	{class: "parse-dollar-alone", text: "put a%d $", parse: true},
	{class: "parse-redir-without-target", text: "put a%d >", parse: true},
	{class: "parse-map-unclosed", text: "put [&k%d=", pinned: true, parse: true},
	{class: "parse-unclosed-capture-in-lambda", text: "nop { nop ?(put a%d }", pinned: true, parse: true},
}

// ---------------------------------------------------------------------------
// program construction

type marker struct {
	kind string // value, stdout, stderr, file, env, event, global-set, global-new, global-fn, global-del, element
	id   string
	path string // file
	name string // env / variable name
}

type builder struct {
	r       *rand.Rand
	dir     string
	n       int
	markers []marker
	events  bool // v-emit available
	deleted bool // `del g4` already used
}

func (b *builder) mark() string {
	b.n++
	return fmt.Sprintf("MARK-%d-%d", b.r.Intn(1000000), b.n)
}

// effect returns one valid statement with an observable effect.
func (b *builder) effect() string {
	id := b.mark()
	choices := 15
	if !b.events {
		choices = 14
	}
	switch b.r.Intn(choices) {
	case 0:
		b.markers = append(b.markers, marker{kind: "value", id: id})
		return "put " + id
	case 1:
		b.markers = append(b.markers, marker{kind: "stdout", id: id})
		return "echo " + id
	case 2:
		b.markers = append(b.markers, marker{kind: "stderr", id: id})
		return "echo " + id + " >&2"
	case 3:
		path := filepath.Join(b.dir, "f-"+id)
		b.markers = append(b.markers, marker{kind: "file", id: id, path: path})
		return "echo " + id + " > " + parse.Quote(path)
	case 4:
		name := "VERIF_C16_" + strings.ReplaceAll(id, "-", "_")
		b.markers = append(b.markers, marker{kind: "env", id: id, name: name})
		return "set-env " + name + " " + id
	case 5:
		b.markers = append(b.markers, marker{kind: "global-set", id: id, name: "g1"})
		return "set g1 = " + id
	case 6:
		name := "nv-" + strings.ToLower(id)
		b.markers = append(b.markers, marker{kind: "global-new", id: id, name: name})
		return "var " + name + " = " + id
	case 7:
		name := "nf-" + strings.ToLower(id)
		b.markers = append(b.markers, marker{kind: "global-fn", id: id, name: name + "~"})
		return "fn " + name + " { put " + id + " }"
	case 8:
		b.markers = append(b.markers, marker{kind: "element", id: id, name: "g2"})
		return "set g2[0] = " + id
	case 9:
		if b.deleted {
			// a second `del g4` would itself be a static error
			b.markers = append(b.markers, marker{kind: "value", id: id})
			return "put " + id
		}
		b.deleted = true
		b.markers = append(b.markers, marker{kind: "global-del", id: id, name: "g4"})
		return "del g4"
	case 10:
		b.markers = append(b.markers, marker{kind: "value", id: id})
		return "if $true { put " + id + " }"
	case 11:
		b.markers = append(b.markers, marker{kind: "value", id: id})
		return "for x [a] { { put (put " + id + ") } }"
	case 12:
		b.markers = append(b.markers, marker{kind: "global-set", id: id, name: "g3"})
		return "set g3 = (assoc $g3 k " + id + ")"
	case 13:
		b.markers = append(b.markers, marker{kind: "stdout", id: id})
		return "print " + id
	default:
		b.markers = append(b.markers, marker{kind: "event", id: id})
		return "v-emit " + id
	}
}

// wrapError places the invalid snippet in a context in which it would never
// be executed anyway, or leaves it as a statement.
func (b *builder) wrapError(s snippet, text string) (string, string) {
	if s.topOnly {
		return text, "top-level"
	}
	switch b.r.Intn(8) {
	case 0:
		return "fn never-called-" + fmt.Sprint(b.r.Intn(1000000)) + " {\n  " + text + "\n}", "uncalled-fn"
	case 1:
		return "if $false {\n  " + text + "\n}", "if-false-body"
	case 2:
		return "var unused-" + fmt.Sprint(b.r.Intn(1000000)) + " = {\n  " + text + "\n}", "uncalled-lambda"
	case 3:
		return "{ nop; { " + text + "\n} }", "nested-lambda"
	case 4:
		if !s.parse && !strings.Contains(text, "#") {
			return "nop (" + text + ")", "capture"
		}
	case 5:
		if !s.parse && !strings.Contains(text, "#") {
			return "nop a | " + text, "pipeline-stage"
		}
	}
	return text, "statement"
}

const prelude = "var g1 = g1-initial\nvar g2 = [g2-initial x]\nvar g3 = [&k=g3-initial]\nvar g4 = g4-initial\nfn gf { put gf-initial }\n"

// build returns program text. inject < 0 means no injection.
func (b *builder) build(s *snippet) (text, class, where string) {
	var lines []string
	npre := 1 + b.r.Intn(6)
	for i := 0; i < npre; i++ {
		lines = append(lines, b.effect())
	}
	if s != nil {
		t := fmt.Sprintf(s.text, b.r.Intn(1000000))
		w, wh := b.wrapError(*s, t)
		lines = append(lines, w)
		class, where = s.class, wh
	}
	nsuf := b.r.Intn(4)
	for i := 0; i < nsuf; i++ {
		lines = append(lines, b.effect())
	}
	sep := "\n"
	if b.r.Intn(4) == 0 && (s == nil || !strings.Contains(strings.Join(lines, ""), "#")) {
		sep = "; "
	}
	return strings.Join(lines, sep) + "\n", class, where
}

// ---------------------------------------------------------------------------
// observation

type nsSnapshot map[string]string

func snapshotNs(ns *eval.Ns) nsSnapshot {
	snap := nsSnapshot{}
	ns.IterateKeysString(func(name string) {
		v := ns.IndexString(name)
		if v == nil {
			snap[name] = "<no variable>"
			return
		}
		val := v.Get()
		// closures print with their address: two snapshots of the same closure agree
		snap[name] = vals.Kind(val) + " " + vals.ReprPlain(val)
	})
	return snap
}

func diffSnap(a, b nsSnapshot) string {
	var d []string
	for k, va := range a {
		vb, ok := b[k]
		switch {
		case !ok:
			d = append(d, "$"+k+" disappeared")
		case va != vb:
			d = append(d, "$"+k+" changed from "+va+" to "+vb)
		}
	}
	for k := range b {
		if _, ok := a[k]; !ok {
			d = append(d, "$"+k+" appeared")
		}
	}
	sort.Strings(d)
	return strings.Join(d, "; ")
}

func envSnapshot() map[string]string {
	m := map[string]string{}
	for _, kv := range os.Environ() {
		if strings.HasPrefix(kv, "VERIF_C16_") {
			k, v, _ := strings.Cut(kv, "=")
			m[k] = v
		}
	}
	return m
}

func cleanupEnv() {
	for k := range envSnapshot() {
		os.Unsetenv(k)
	}
}

func isStatic(err error) (parseErr, compileErr bool) {
	if err == nil {
		return false, false
	}
	return parse.UnpackErrors(err) != nil, eval.UnpackCompilationErrors(err) != nil
}

type observed struct {
	err        error
	values     []string
	stdout     string
	stderr     string
	events     []string
	files      []string
	env        map[string]string
	globalDiff string
}

func filesIn(dir string) []string {
	es, _ := os.ReadDir(dir)
	var out []string
	for _, e := range es {
		if strings.HasPrefix(e.Name(), "f-") {
			out = append(out, e.Name())
		}
	}
	return out
}

// evalObserved evaluates code on ev and records everything observable.
func evalObserved(ev *eval.Evaler, code string, global *eval.Ns, dir string) observed {
	before := snapshotNs(ev.Global())
	var privBefore nsSnapshot
	if global != nil {
		privBefore = snapshotNs(global)
	}
	port1, collect1, err := eval.CapturePort()
	if err != nil {
		return observed{err: err}
	}
	port2, collect2, err := eval.CapturePort()
	if err != nil {
		return observed{err: err}
	}
	takeEvents()
	ctx, cancel := context.WithTimeout(context.Background(), 20*time.Second)
	defer cancel()
	err = ev.Eval(parse.Source{Name: "[verif]", Code: code}, eval.EvalCfg{Ports: []*eval.Port{nil, port1, port2}, Interrupts: ctx, Global: global})
	vs, bs := collect1()
	vs2, bs2 := collect2()
	o := observed{err: err, stdout: string(bs), stderr: string(bs2), events: takeEvents(), files: filesIn(dir), env: envSnapshot()}
	for _, v := range append(vs, vs2...) {
		o.values = append(o.values, vals.ReprPlain(v))
	}
	o.globalDiff = diffSnap(before, snapshotNs(ev.Global()))
	if global != nil {
		if d := diffSnap(privBefore, snapshotNs(global)); d != "" {
			o.globalDiff += " [private namespace: " + d + "]"
		}
	}
	return o
}

func setup(ev *eval.Evaler) error {
	return ev.Eval(parse.Source{Name: "[prelude]", Code: prelude}, eval.EvalCfg{})
}

func privateNs() *eval.Ns {
	return eval.BuildNs().
		AddVar("g1", vars.FromInit("g1-initial")).
		AddVar("g2", vars.FromInit(vals.MakeList("g2-initial", "x"))).
		AddVar("g3", vars.FromInit(vals.MakeMap("k", "g3-initial"))).
		AddVar("g4", vars.FromInit("g4-initial")).
		AddGoFn("gf", func() {}).Ns()
}

// checkNoEffects reports violations when code that failed statically had any
// observable effect.
func checkNoEffects(c *mon.Case, o observed, code, class, where, how string) bool {
	w := map[string]any{"code": code, "error": fmt.Sprint(o.err), "error_class": class, "placed": where, "evaluated": how}
	bad := func(kind, what string) bool {
		c.Violation("ran:"+kind, "code with a static error ("+class+", "+where+") "+what, w)
		return false
	}
	if len(o.values) > 0 {
		return bad("value-output", fmt.Sprintf("produced value output %v", o.values))
	}
	if o.stdout != "" {
		return bad("byte-output", fmt.Sprintf("produced byte output %q", o.stdout))
	}
	if strings.Contains(o.stderr, "MARK-") {
		return bad("stderr-output", fmt.Sprintf("wrote %q to stderr", o.stderr))
	}
	if len(o.events) > 0 {
		return bad("harness-event", fmt.Sprintf("called the harness builtin: %v", o.events))
	}
	if len(o.files) > 0 {
		return bad("file-created", fmt.Sprintf("created files %v", o.files))
	}
	if len(o.env) > 0 {
		return bad("env-changed", fmt.Sprintf("set environment variables %v", o.env))
	}
	if o.globalDiff != "" {
		return bad("global-namespace", "changed the global namespace: "+o.globalDiff)
	}
	return true
}

func cleanupFiles(dir string) {
	for _, f := range filesIn(dir) {
		os.Remove(filepath.Join(dir, f))
	}
}

// ---------------------------------------------------------------------------
// cases

func runInjected(c *mon.Case) {
	dir := filepath.Join(c.Dir, "c16")
	os.MkdirAll(dir, 0o755)
	defer cleanupFiles(dir)
	defer cleanupEnv()
	ev := newEvaler()
	if err := setup(ev); err != nil {
		c.Inconclusive("prelude-failed")
		return
	}
	b := &builder{r: c.Rand, dir: dir, events: true}
	var s *snippet
	if c.Rand.Intn(6) > 0 {
		s = &snippets[c.Rand.Intn(len(snippets))]
	}
	code, class, where := b.build(s)
	var priv *eval.Ns
	how := "default global namespace"
	if c.Rand.Intn(4) == 0 {
		priv = privateNs()
		how = "private global namespace (EvalCfg.Global)"
	}
	decide(c, ev, priv, code, s, class, where, how, dir)
}

func decide(c *mon.Case, ev *eval.Evaler, priv *eval.Ns, code string, s *snippet, class, where, how, dir string) {
	// the static check first: it must not change anything either
	beforeCheck := snapshotNs(ev.Global())
	var werr bytes.Buffer
	var parseErr, compileErr error
	// (the private namespace declares the same names as the default one, so
	// the static check of the interpreter applies to both evaluation modes)
	parseErr, _, compileErr = ev.Check(parse.Source{Name: "[verif]", Code: code}, &werr)
	// CheckTree on a separately parsed tree must say the same as Check
	if tree, perr := parse.Parse(parse.Source{Name: "[verif]", Code: code}, parse.Config{}); perr == nil {
		_, treeErr := ev.CheckTree(tree, nil)
		c.Count("checktree_compared", 1)
		if (treeErr != nil) != (compileErr != nil) {
			c.Violation("checktree-disagrees", fmt.Sprintf("Evaler.CheckTree reports %v, Evaler.Check compilation error %v", treeErr, compileErr), map[string]any{"code": code})
			return
		}
	}
	if d := diffSnap(beforeCheck, snapshotNs(ev.Global())); d != "" {
		c.Violation("check-changed-global", "Evaler.Check changed the global namespace: "+d, map[string]any{"code": code})
		return
	}
	if fs := filesIn(dir); len(fs) > 0 || len(envSnapshot()) > 0 || len(takeEvents()) > 0 {
		c.Violation("check-ran-code", "Evaler.Check executed code", map[string]any{"code": code, "files": fs})
		return
	}
	checkSaysError := parseErr != nil || compileErr != nil

	o := evalObserved(ev, code, priv, dir)
	pe, ce := isStatic(o.err)
	evalSaysError := pe || ce
	c.Count("programs", 1)
	if s != nil && s.ns {
		c.Count("ns_programs", 1)
		if evalSaysError {
			c.Count("ns_rejected", 1)
			c.Count("nsr_"+class, 1)
		} else {
			c.Count("ns_accepted", 1)
			c.Count("nsa_"+class, 1)
		}
		if priv != nil {
			c.Count("ns_with_private_namespace", 1)
		}
	}
	if evalSaysError {
		c.Count("static_error_reported", 1)
		c.Count("class_"+class, 1)
		c.Count("placed_"+where, 1)
		if pe {
			c.Count("parse_errors", 1)
		} else {
			c.Count("compile_errors", 1)
		}
		if priv != nil {
			c.Count("static_error_with_private_namespace", 1)
		}
		if checkNoEffects(c, o, code, class, where, how) {
			c.Nontrivial(class, where, how, len(code), strings.Count(code, "MARK-"))
			c.Sample("static-error:"+class, map[string]any{"code": code, "error": fmt.Sprint(o.err), "placed": where})
		}
	} else {
		c.Count("ran_to_completion", 1)
		if s != nil && s.pinned {
			c.Violation("not-rejected:"+class, "the reference says this code is rejected before execution, but it was evaluated (error: "+fmt.Sprint(o.err)+")",
				map[string]any{"code": code, "error_class": class, "placed": where, "values": o.values, "stdout": o.stdout})
			return
		}
		if s == nil || s.class == "and-ok" {
			c.Count("valid_programs", 1)
			// a valid program must have run: its first effect is observable
			// (new variables of code evaluated with a private namespace are not
			// visible from outside, so this is only checked for the default one)
			if priv == nil && len(o.values)+len(o.stdout)+len(o.stderr)+len(o.events)+len(o.files)+len(o.env) == 0 && o.globalDiff == "" {
				c.Violation("valid-did-not-run", "a valid program had no effect at all", map[string]any{"code": code, "error": fmt.Sprint(o.err)})
				return
			}
		}
	}
	{
		c.Count("check_vs_eval_compared", 1)
		if priv != nil {
			c.Count("check_vs_eval_compared_private_namespace", 1)
		}
		if checkSaysError != evalSaysError {
			sig := "check-disagrees:check-only"
			if evalSaysError {
				sig = "check-disagrees:eval-only"
			}
			c.Violation(sig, fmt.Sprintf("Evaler.Check reports parse error %v, compilation error %v; Evaler.Eval in the same context returned %v", parseErr, compileErr, o.err),
				map[string]any{"code": code, "error_class": class, "placed": where})
			return
		}
		if checkSaysError {
			c.Count("check_and_eval_agree_on_error", 1)
			// same kind of error, too: a parse error for Eval is a parse error for Check
			if pe != (parseErr != nil) {
				c.Violation("check-disagrees:error-kind", fmt.Sprintf("Eval reports parse error=%v, Check parse error=%v", pe, parseErr != nil), map[string]any{"code": code})
			}
		} else {
			c.Count("check_and_eval_agree_on_valid", 1)
		}
	}
}

// runGenerated: valid programs from the core-language generator (they must
// not be flagged by the static check and must be evaluated), and the same
// programs with a static error appended after them.
func runGenerated(c *mon.Case) {
	dir := filepath.Join(c.Dir, "c16")
	os.MkdirAll(dir, 0o755)
	defer cleanupFiles(dir)
	defer cleanupEnv()
	g := refinterp.NewGen(c.Rand, refinterp.GenConfig{MaxForms: 24})
	p := g.Program()
	if refinterp.Resolve(p) != nil {
		c.Inconclusive("generator-static-error")
		return
	}
	m := refinterp.Run(p, 200000)
	if m.Status == "budget" {
		c.Count("discarded_step_budget", 1)
		return
	}
	ev := newEvaler()
	code := p.Source() + "\n"
	var s *snippet
	class, where := "", ""
	if c.I%2 == 1 {
		s = &snippets[c.Rand.Intn(len(snippets))]
		b := &builder{r: c.Rand, dir: dir, events: true}
		t := fmt.Sprintf(s.text, c.Rand.Intn(1000000))
		if s.topOnly || strings.Contains(t, "g1") || strings.Contains(t, "g2") || strings.Contains(t, "g3") {
			s = &snippets[0]
			t = fmt.Sprintf(s.text, c.Rand.Intn(1000000))
		}
		w, wh := b.wrapError(*s, t)
		code += "put MARK-after\n" + w + "\nput MARK-end\n"
		class, where = s.class, wh
	} else {
		code = "put MARK-start\n" + code
	}
	decide(c, ev, nil, code, s, class, where, "generated core-language program", dir)
}

// runCompileOnly compares `elvish -compileonly` with the in-process check.
func runCompileOnly(c *mon.Case) {
	bin := os.Getenv("VERIF_ELVISH")
	if bin == "" {
		c.Inconclusive("VERIF_ELVISH not set")
		return
	}
	if _, err := os.Stat(bin); err != nil {
		c.Inconclusive("elvish binary missing")
		return
	}
	dir := filepath.Join(c.Dir, "c16co")
	os.MkdirAll(dir, 0o755)
	defer cleanupFiles(dir)
	b := &builder{r: c.Rand, dir: dir, events: false}
	var s *snippet
	if c.Rand.Intn(4) > 0 {
		s = &snippets[c.Rand.Intn(len(snippets))]
	}
	body, class, where := b.build(s)
	code := prelude + body
	file := filepath.Join(dir, "prog.elv")
	if err := os.WriteFile(file, []byte(code), 0o644); err != nil {
		c.Inconclusive("cannot write program")
		return
	}
	defer os.Remove(file)
	ev := newEvaler()
	parseErr, _, compileErr := ev.Check(parse.Source{Name: file, Code: code, IsFile: true}, nil)
	want := parseErr != nil || compileErr != nil
	jsonMode := c.Rand.Intn(2) == 0
	args := []string{"-compileonly"}
	if jsonMode {
		args = append(args, "-json")
	}
	args = append(args, file)
	ctx, cancel := context.WithTimeout(context.Background(), 60*time.Second)
	defer cancel()
	cmd := exec.CommandContext(ctx, bin, args...)
	cmd.Env = append(os.Environ(), "HOME="+dir, "XDG_CONFIG_HOME="+dir, "XDG_STATE_HOME="+dir, "XDG_DATA_HOME="+dir)
	var stdout, stderr bytes.Buffer
	cmd.Stdout, cmd.Stderr = &stdout, &stderr
	err := cmd.Run()
	if ctx.Err() != nil {
		c.Inconclusive("compileonly-timeout")
		return
	}
	code2 := 0
	if ee, ok := err.(*exec.ExitError); ok {
		code2 = ee.ExitCode()
	} else if err != nil {
		c.Inconclusive("compileonly-not-started")
		return
	}
	c.Count("compileonly_runs", 1)
	w := map[string]any{"code": code, "args": args, "exit": code2, "stdout": stdout.String(), "stderr": stderr.String(),
		"check_parse_error": fmt.Sprint(parseErr), "check_compile_error": fmt.Sprint(compileErr), "error_class": class, "placed": where}
	got := code2 == 2
	if code2 != 0 && code2 != 2 {
		c.Violation("compileonly-exit-status", fmt.Sprintf("elvish -compileonly exited with %d", code2), w)
		return
	}
	if got != want {
		c.Violation("compileonly-disagrees", fmt.Sprintf("elvish -compileonly exit status %d, in-process Check reports error=%v", code2, want), w)
		return
	}
	if got {
		c.Count("compileonly_rejected", 1)
	} else {
		c.Count("compileonly_accepted", 1)
	}
	// nothing may have run, valid or not
	if fs := filesIn(dir); len(fs) > 0 {
		c.Violation("compileonly-ran-code", fmt.Sprintf("elvish -compileonly created files %v", fs), w)
		return
	}
	out := stdout.String()
	if jsonMode {
		var errs []map[string]any
		if strings.TrimSpace(out) != "null" && strings.TrimSpace(out) != "" {
			if jerr := json.Unmarshal([]byte(out), &errs); jerr != nil {
				c.Violation("compileonly-json", "output of -compileonly -json is not a JSON array: "+mon.Q(out), w)
				return
			}
		}
		if (len(errs) > 0) != want {
			c.Violation("compileonly-json-disagrees", fmt.Sprintf("-compileonly -json lists %d errors, in-process Check reports error=%v", len(errs), want), w)
			return
		}
		c.Count("compileonly_json_compared", 1)
	} else if strings.Contains(out, "MARK-") || strings.Contains(stderr.String(), "MARK-") && !want {
		c.Violation("compileonly-ran-code", "elvish -compileonly produced program output: "+mon.Q(out), w)
		return
	}
	c.Nontrivial("compileonly", class, where, jsonMode, len(code))
}

// Spec returns the check.
func Spec() *mon.Spec {
	return &mon.Spec{
		ID: "C16", Level: "exploration",
		Rule: "case (phase injected) = 1..6 side-effecting valid statements (value output, stdout/stderr bytes, file creation, set-env, harness event builtin, assignment to and deletion of pre-declared globals, element assignment, new variables and functions; also inside if/for/lambda/capture), then one snippet from a list of static errors (undefined variables, unknown command under `pragma unknown-command = disallow`, malformed special forms, bad pragmas, tmp at top level, del of non-local, parse errors), as a statement or inside a function/lambda/if-false body/capture/pipeline stage that would never run, then 0..3 more effects; 1 case in 6 has no injection (valid), 1 in 4 is evaluated with a private global namespace. Observed: Evaler.Check (must change nothing), then Evaler.Eval on the same context: error kind, values and bytes on both output ports, harness events, files, environment, global namespace names and values before/after. Oracle: Eval returns a parse/compilation error => no output, no event, no file, no env change, identical global namespace(s); Check reports an error <=> Eval reports a parse/compilation error (and the same kind); snippets the reference documents as rejected before execution must be rejected; valid programs must run. Phase generated does the same with programs of the C15 generator (valid ones, and with a static error appended). Phase compileonly runs `elvish -compileonly [-json]` on self-contained files and compares exit status / JSON with the in-process Check and demands that nothing ran. About 40% of the snippets are pragma / name-resolution errors and near-errors (ns-*): `pragma unknown-command = disallow` before, after, inside, in sibling and enclosing lambdas and reset in inner ones; commands and variables qualified with imported, pre-defined but un-imported (str, re, math, path, file, os, flag, doc, platform, runtime), bundled (epm, readline-binding), aliased and non-existent modules; a module imported in an enclosing vs. a sibling scope; `use` after the reference; e:/E:-qualified names; shadowed, deleted, not-yet-defined and special commands; whether Eval rejects each is left to the interpreter, but Check, CheckTree (also under a private EvalCfg.Global declaring the same names) and -compileonly must agree with it, and rejected code must not have run (counters nsr_*/nsa_* = rejected/accepted per class, with floors). Non-trivial = program for which a static error was reported and all effects were verified absent; distinct by error class, placement, evaluation mode and size.",
		Assumptions: []string{
			"only the snippets marked pinned (undefined variable, unknown command under the strict pragma, tmp at top level, try with else but no catch, unbalanced brackets/quotes, invalid escape) are required to be rejected; for the other malformed forms the check only demands consistency (if rejected, nothing ran; Check agrees with Eval)",
			"stderr is only searched for the program's own markers (compile-time deprecation warnings may legitimately be written there)",
			"`elvish -compileonly` is compared with Evaler.Check on an interpreter with the standard modules, for programs that use only builtins",
		},
		Phases: []mon.Phase{
			{Name: "injected", Quick: 12000, Thorough: 200000, Run: runInjected},
			{Name: "generated", Quick: 3000, Thorough: 40000, Run: runGenerated},
			{Name: "compileonly", Quick: 320, Thorough: 3000, Run: runCompileOnly, Procs: 8},
		},
		Floors: map[string]int{
			"programs": 5000, "static_error_reported": 3500, "compile_errors": 2500, "parse_errors": 1000, "valid_programs": 1000,
			"check_vs_eval_compared": 4000, "check_and_eval_agree_on_error": 2500, "check_and_eval_agree_on_valid": 1000,
			"static_error_with_private_namespace": 700, "distinct_nontrivial": 3000,
			"compileonly_runs": 100, "compileonly_rejected": 70, "compileonly_accepted": 20, "compileonly_json_compared": 40,
			"class_undefined-variable": 300, "class_unknown-command-disallowed": 150, "class_tmp-at-top-level": 60,
			"class_try-else-without-catch": 60, "class_parse-unclosed-paren": 60, "class_del-nonlocal": 50,
			"placed_uncalled-fn": 400, "placed_uncalled-lambda": 400, "placed_if-false-body": 400, "placed_nested-lambda": 400,
			"placed_capture": 100, "placed_pipeline-stage": 100,
			// pragma / name-resolution classes (nsr_ = rejected, nsa_ = accepted by Eval)
			"ns_programs": 1500, "ns_rejected": 700, "ns_accepted": 700, "ns_with_private_namespace": 400,
			"check_vs_eval_compared_private_namespace": 900, "checktree_compared": 3000,
			"nsr_ns-unimported-mod-cmd-strict": 100, "nsr_ns-unimported-mod-cmd-strict-nested": 25, "nsr_ns-unimported-mod-cmd-strict-toplevel": 20,
			"nsr_ns-unimported-bundled-mod-cmd-strict": 40, "nsr_ns-nonexistent-mod-cmd-strict": 25, "nsr_ns-imported-sibling-scope": 30,
			"nsr_ns-use-after-reference": 30, "nsr_ns-unimported-mod-var": 45, "nsr_ns-nonexistent-mod-var": 20, "nsr_ns-imported-mod-var-sibling": 30,
			"nsr_ns-pragma-inherited-by-inner-lambda": 30, "nsr_ns-pragma-toplevel-then-lambda": 25, "nsr_ns-user-fn-deleted-strict": 30,
			"nsa_ns-imported-mod-cmd-strict": 60, "nsa_ns-imported-enclosing-scope": 20, "nsa_ns-imported-toplevel-used-inside": 15,
			"nsa_ns-unimported-mod-cmd-lenient": 20, "nsa_ns-nonexistent-mod-cmd-lenient": 20, "nsa_ns-e-qualified-strict": 25, "nsa_ns-E-qualified-var": 25,
			"nsa_ns-pragma-after-command": 15, "nsa_ns-pragma-in-sibling-lambda": 30, "nsa_ns-pragma-reset-in-inner-lambda": 25,
			"nsa_ns-shadowed-builtin-strict": 25, "nsa_ns-user-fn-strict": 15, "nsa_ns-imported-bundled-mod": 25,
		},
	}
}
