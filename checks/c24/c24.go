// Package c24 monitors the persistent history store (pkg/store) against the
// sequential reference model refstore over random operation histories
// (property C24).
package c24

import (
	"fmt"
	"os"
	"path/filepath"
	"strings"

	"src.elv.sh/pkg/store"
	"verifharness/internal/mon"
	"verifharness/internal/refstore"
)

type step struct {
	Op  string `json:"op"`
	Got string `json:"got,omitempty"`
}

// census compares the complete observable state with the model.
func census(c *mon.Case, st store.DBStore, m *refstore.Store, when string, trace []step) bool {
	for _, o := range []refstore.Op{
		{K: refstore.OpNextSeq},
		{K: refstore.OpList, A: 0, B: -1},
		{K: refstore.OpDirs},
	} {
		got := refstore.Exec(st, o)
		if cl, what := m.Check(o, got); cl != "" {
			c.Violation("census-"+when+":"+cl, "complete state differs from the reference ("+when+"): "+what,
				map[string]any{"trace_tail": tail(trace, 30), "steps": len(trace)})
			return false
		}
	}
	return true
}

func tail(t []step, n int) []step {
	if len(t) > n {
		return t[len(t)-n:]
	}
	return t
}

func runHistory(c *mon.Case, dirHeavy bool) { runHistoryMode(c, dirHeavy, false) }

// runBulk first fills the command log with 600..2000 entries of 20..200
// bytes (a multi-level B+tree in the implementation, so that searches and
// listings cross page boundaries), then runs a random history on it.
func runBulk(c *mon.Case) { runHistoryMode(c, false, true) }

func runHistoryMode(c *mon.Case, dirHeavy, bulk bool) {
	r := c.Rand
	path := filepath.Join(c.Dir, fmt.Sprintf("c24-%s-%d.db", c.Phase, c.I))
	defer os.Remove(path)
	st, err := store.NewStore(path)
	if err != nil {
		c.Violation("open", "NewStore on a fresh file failed: "+err.Error(), nil)
		return
	}
	defer func() { st.Close() }()

	w := refstore.DefaultWeights
	ndirs := r.Intn(30)
	if dirHeavy {
		w = [refstore.NumKinds]int{refstore.OpAdd: 6, refstore.OpDel: 1, refstore.OpPrev: 1, refstore.OpNext: 1,
			refstore.OpAddDir: 60, refstore.OpDelDir: 6, refstore.OpDirs: 12}
		ndirs = 40 + r.Intn(80)
	} else {
		switch r.Intn(5) {
		case 0: // delete-heavy: the tail of the log disappears again and again
			w[refstore.OpDel] = 30
		case 1: // search-heavy
			w[refstore.OpNext], w[refstore.OpPrev] = 40, 40
		case 2:
			w[refstore.OpAddDir], w[refstore.OpDelDir], w[refstore.OpDirs] = 0, 0, 0
		}
	}
	g := refstore.NewGen(r, w, ndirs)
	g.BigTexts = r.Intn(3) == 0
	m := refstore.New()
	steps := 40 + r.Intn(261)
	var trace []step
	if bulk {
		g.W = refstore.CmdWeights
		g.W[refstore.OpAdd], g.W[refstore.OpDel] = 10, 25
		n := 600 + r.Intn(1400)
		for i := 0; i < n; i++ {
			o := refstore.Op{K: refstore.OpAdd, S: g.Text() + strings.Repeat(string(rune('a'+r.Intn(26))), 20+r.Intn(180))}
			got := refstore.Exec(st, o)
			if cl, what := m.Check(o, got); cl != "" {
				c.Violation("bulk-fill:"+cl, what, map[string]any{"added_before": i})
				return
			}
			if r.Intn(40) == 0 { // holes, also while filling
				d := refstore.Op{K: refstore.OpDel, A: 1 + r.Intn(m.MaxSeq())}
				if cl, what := m.Check(d, refstore.Exec(st, d)); cl != "" {
					c.Violation("bulk-fill:"+cl, what, nil)
					return
				}
			}
		}
		c.Count("bulk_entries", n)
		trace = append(trace, step{Op: fmt.Sprintf("(bulk fill: %d adds)", n)})
		if !census(c, st, m, "after-bulk-fill", trace) {
			return
		}
	}
	kinds := map[refstore.Kind]int{}
	var reopens, tailDeletes, delPresent, delAbsent, noMatch, found, nonEmptyList, unbounded, bigTexts, emptyTexts, prevExact, maxDirs int
	for s := 0; s < steps; s++ {
		if r.Intn(60) == 0 { // close and reopen: nothing may change
			if err := st.Close(); err != nil {
				c.Violation("close", "Close failed: "+err.Error(), map[string]any{"trace_tail": tail(trace, 30)})
				return
			}
			st, err = store.NewStore(path)
			if err != nil {
				c.Violation("reopen", "NewStore on an existing file failed: "+err.Error(), map[string]any{"trace_tail": tail(trace, 30)})
				return
			}
			reopens++
			trace = append(trace, step{Op: "close+reopen"})
			if !census(c, st, m, "after-reopen", trace) {
				return
			}
		}
		o := g.Next(m)
		// bookkeeping for the evidence counters (before the model changes)
		switch o.K {
		case refstore.OpDel:
			if _, ok := m.Cmd(o.A); ok {
				delPresent++
				if o.A == m.MaxSeq() {
					tailDeletes++
				}
			} else {
				delAbsent++
			}
		case refstore.OpAdd:
			if len(o.S) > 4096 {
				bigTexts++
			}
			if o.S == "" {
				emptyTexts++
			}
		case refstore.OpPrev:
			if _, ok := m.Cmd(o.A); ok {
				prevExact++
			}
		case refstore.OpList:
			if o.B == -1 {
				unbounded++
			}
		}
		got := refstore.Exec(st, o)
		trace = append(trace, step{Op: o.String(), Got: got.String()})
		kinds[o.K]++
		cl, what := m.Check(o, got)
		if cl != "" {
			c.Violation("op:"+cl, what, map[string]any{"step": s, "trace_tail": tail(trace, 40)})
			return
		}
		switch o.K {
		case refstore.OpNext, refstore.OpPrev, refstore.OpCmd:
			if got.Err == "" {
				found++
			} else {
				noMatch++
			}
		case refstore.OpList:
			if len(got.Cmds) > 0 {
				nonEmptyList++
			}
		}
		if m.NDirs() > maxDirs {
			maxDirs = m.NDirs()
		}
		if r.Intn(50) == 0 && !census(c, st, m, "mid", trace) {
			return
		}
	}
	if !census(c, st, m, "final", trace) {
		return
	}
	// Final: close, reopen, everything still there and the counter not reset.
	if err := st.Close(); err != nil {
		c.Violation("close", "Close failed: "+err.Error(), nil)
		return
	}
	st, err = store.NewStore(path)
	if err != nil {
		c.Violation("reopen", "NewStore on an existing file failed: "+err.Error(), nil)
		return
	}
	reopens++
	if !census(c, st, m, "after-reopen", trace) {
		return
	}
	o := refstore.Op{K: refstore.OpAdd, S: "after reopen"}
	got := refstore.Exec(st, o)
	if cl, what := m.Check(o, got); cl != "" {
		c.Violation("op-after-reopen:"+cl, what, map[string]any{"trace_tail": tail(trace, 30)})
		return
	}

	c.Evals(steps)
	for k, n := range kinds {
		c.Count("op_"+k.String(), n)
	}
	c.Count("reopens", reopens)
	c.Count("deletes_of_newest_entry", tailDeletes)
	c.Count("deletes_present", delPresent)
	c.Count("deletes_absent", delAbsent)
	c.Count("lookups_found", found)
	c.Count("lookups_no_match", noMatch)
	c.Count("listings_nonempty", nonEmptyList)
	c.Count("listings_unbounded", unbounded)
	c.Count("texts_over_4k", bigTexts)
	c.Count("texts_empty", emptyTexts)
	c.Count("prev_upto_is_present_seq", prevExact)
	c.Max("dirs_in_one_store", maxDirs)
	c.Max("cmds_in_one_store", len(m.AllCmds()))
	if maxDirs >= 60 {
		c.Count("histories_with_60_dirs", 1)
	}
	if delPresent > 0 && found > 0 && noMatch > 0 {
		c.Nontrivial(c.Phase, steps, ndirs, trace[0].Op, trace[len(trace)-1].Op, m.EncodeCmds())
	}
	c.Sample("history-"+c.Phase, map[string]any{"steps": steps, "dir_pool": ndirs, "first_ops": tail(trace[:min(len(trace), 10)], 10)})
}

func Spec() *mon.Spec {
	return &mon.Spec{
		ID: "C24", Level: "exploration",
		Rule: "case = one random history of 40..300 store API calls (NextCmdSeq, AddCmd, DelCmd, Cmd, CmdsWithSeq, NextCmd, PrevCmd, AddDir, DelDir, Dirs, close+reopen) on a fresh store.NewStore database; texts share prefixes, include empty / binary / ~10 KB texts; sequence arguments are present, deleted, adjacent, 0, around the end, far beyond the end, MaxInt64 (negative only for Cmd/DelCmd); every result is compared with the refstore model, plus a complete census (NextCmdSeq, CmdsWithSeq(0,-1), Dirs) at random points, at the end and after every reopen. Phase 'bulk' first fills the log with 600..2000 entries of 20..200 bytes (several B+tree levels) with holes, then runs a delete/search-heavy history on it. Phase 'dirs' uses 40..120 directories (long paths) so that the directory bucket spans several bbolt pages. Non-trivial = history with at least one deletion of a present entry, one successful and one failing lookup; distinct by final command state.",
		Assumptions: []string{
			"first sequence number of a fresh store is 1 (pkg/store/storetest)",
			"directory scores are compared with relative tolerance 1e-6*(visits+1): the storage precision is undocumented (implementation keeps 7 significant digits)",
			"order of directories with equal stored score is unspecified; only non-increasing order is demanded",
			"negative from/upto (other than upto=-1 for CmdsWithSeq) are not generated for CmdsWithSeq/NextCmd/PrevCmd (undocumented)",
			"the error returned when deleting an absent entry is undocumented: only 'state unchanged' is demanded",
			"on ErrNoMatchingCmd the accompanying value is not compared",
			"AddDir factors are >= 0; the empty path is not used (bbolt rejects empty keys; undocumented)",
		},
		Phases: []mon.Phase{
			{Name: "history", Quick: 1600, Thorough: 10000, Run: func(c *mon.Case) { runHistory(c, false) }},
			{Name: "dirs", Quick: 300, Thorough: 2000, Run: func(c *mon.Case) { runHistory(c, true) }},
			{Name: "bulk", Quick: 64, Thorough: 400, Run: runBulk},
		},
		Floors: map[string]int{
			"distinct_nontrivial": 400, "deletes_of_newest_entry": 100, "deletes_present": 3000, "deletes_absent": 1000,
			"lookups_found": 10000, "lookups_no_match": 5000, "listings_nonempty": 2000, "listings_unbounded": 1000,
			"texts_over_4k": 100, "texts_empty": 300, "prev_upto_is_present_seq": 3000, "reopens": 1000,
			"histories_with_60_dirs": 50, "bulk_entries": 20000, "op_AddDir": 10000, "op_Dirs": 2000,
		},
	}
}
