// Package elvq is a cheaper variant of elv.Eval for checks that evaluate very
// many small programs and only need the *values* written to stdout: the
// output port is a Go channel plus /dev/null instead of an OS pipe, so that an
// evaluation costs no system calls of its own. Bytes written to stdout are
// discarded. (New file owned by the C04/C05/C08/C09/C10 checks.)
package elvq

import (
	"src.elv.sh/pkg/eval"
	"src.elv.sh/pkg/parse"
)

// Values evaluates code and returns the values it wrote to stdout, and the
// parse error, compilation error or exception (nil = ok).
func Values(ev *eval.Evaler, code string) ([]any, error) {
	ch := make(chan any, 64)
	done := make(chan []any, 1)
	go func() {
		var vs []any
		for v := range ch {
			vs = append(vs, v)
		}
		done <- vs
	}()
	port := &eval.Port{File: eval.DevNull, Chan: ch}
	err := ev.Eval(parse.Source{Name: "[verif]", Code: code}, eval.EvalCfg{Ports: []*eval.Port{nil, port, nil}})
	close(ch)
	return <-done, err
}
