// Package gen holds input generators shared by the checks. Every generator
// draws only from the *rand.Rand it is given.
package gen

import (
	"math/rand"
	"strings"
)

// Pieces is the adversarial alphabet: Elvish metacharacters, whitespace,
// invalid UTF-8, U+FFFD, controls, wide / combining / astral runes.
var Pieces = []string{
	"$", "*", "?", "(", ")", "[", "]", "{", "}", "<", ">", ";", "|", "&", "~", "=", ",", "^", "#", "'", "\"", "\\", "`",
	" ", "\t", "\r", "\n", "\r\n",
	"\xff", "\xc0\x80", "\xe4\xb8", "\xed\xa0\x80", "\xf0\x9f", "\x80",
	"�", "\x00", "\x01", "\x1b", "\x7f", "\u0085", "\u009b", "​", " ",
	"好", "世界", "😀", "é", "́", "𝒜", "é", "ß", "Ω",
	"0", "1", "9", "-", "_", ".", ":", "/", "@", "%", "+", "!",
	"a", "b", "z", "A", "Z", "x", "e", "if", "fn", "var", "set", "put", "echo", "nop",
	"..", "..=", "&-", ">&", "2>", ">>", "<>", "?(", "$@", "~/", "e:", "-1", "0x", "1e", "Inf", "NaN",
}

// BytesAdv returns a string of 0..maxPieces pieces of the adversarial alphabet.
func BytesAdv(r *rand.Rand, maxPieces int) string {
	n := r.Intn(maxPieces + 1)
	var sb strings.Builder
	for i := 0; i < n; i++ {
		sb.WriteString(Pieces[r.Intn(len(Pieces))])
	}
	return sb.String()
}

// RandomBytes returns 0..max uniformly random bytes.
func RandomBytes(r *rand.Rand, max int) string {
	b := make([]byte, r.Intn(max+1))
	for i := range b {
		b[i] = byte(r.Intn(256))
	}
	return string(b)
}

// printable runes from all planes, no controls, no ESC.
var printable = []rune("abcxyzABC019 !#$%&'()*+,-./:;<=>?@[\\]^_`{|}~éßΩж好世界ｱ　😀𝒜\U0001F600\U00020000¡¿")

// PrintableText returns valid UTF-8 of 0..max printable runes (no C0/C1 controls, no ESC, no DEL).
func PrintableText(r *rand.Rand, max int) string {
	n := r.Intn(max + 1)
	rs := make([]rune, n)
	for i := range rs {
		rs[i] = printable[r.Intn(len(printable))]
	}
	return string(rs)
}

// ValidUTF8Adv returns a valid UTF-8 string drawn from the adversarial
// alphabet (invalid pieces are skipped).
func ValidUTF8Adv(r *rand.Rand, maxPieces int) string {
	n := r.Intn(maxPieces + 1)
	var sb strings.Builder
	for i := 0; i < n; i++ {
		p := Pieces[r.Intn(len(Pieces))]
		if strings.ToValidUTF8(p, "") != p {
			continue
		}
		sb.WriteString(p)
	}
	return sb.String()
}

// Mutate applies one byte-level mutation: truncate, insert a piece, delete a
// byte range, or duplicate a range.
func Mutate(r *rand.Rand, s string) string {
	if len(s) == 0 {
		return Pieces[r.Intn(len(Pieces))]
	}
	i := r.Intn(len(s) + 1)
	switch r.Intn(4) {
	case 0:
		return s[:i]
	case 1:
		return s[:i] + Pieces[r.Intn(len(Pieces))] + s[i:]
	case 2:
		j := i + r.Intn(len(s)-i+1)
		return s[:i] + s[j:]
	default:
		j := i + r.Intn(len(s)-i+1)
		return s[:j] + s[i:j] + s[j:]
	}
}
