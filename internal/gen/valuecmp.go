// Reference orders on value models (companion of value.go), written from the
// documentation of the `compare` builtin:
//
//   - booleans: $false < $true; typed numbers: numerically (all four
//     representations are one type), NaN equal to NaN and smaller than every
//     other number; strings: lexicographically by bytes; lists:
//     lexicographically by elements, recursively;
//   - otherwise, eq values compare 0;
//   - otherwise uncomparable — or, with &total, values of the same type compare
//     0 and values of different types compare by a fixed but unspecified order
//     of the types.
//
// Numbers are compared by exact mathematical value (every finite float64 is a
// rational), which is what "numerically" means; CmpInfo.Lossy reports that the
// comparison had to look at a pair of one exact and one inexact number whose
// exact member is not exactly representable as a float64 (or does not fit in
// an int64) — the region where the implementation's conversion of the exact
// number to float64 changes the answer.
package gen

import (
	"math"
	"math/big"
)

// CmpInfo is the result of a reference comparison.
type CmpInfo struct {
	Ord   int  // -1, 0, +1 (meaningful when OK)
	OK    bool // comparable
	Lossy bool // see package comment
}

// TypeName is the name of the model's type for the artificial total order:
// the kind, or the tag of an opaque value.
func TypeName(m *Model) string {
	if m.Kind == KOpaque {
		return m.Tag
	}
	return m.Kind.String()
}

// RefCmp is the documented `compare $a $b` (without &total).
func RefCmp(a, b *Model) CmpInfo { return refCmp(a, b, nil) }

// RefCmpTotal is the documented `compare &total $a $b`; rank gives the
// position of each type (TypeName) in the unspecified order of types.
func RefCmpTotal(a, b *Model, rank func(typeName string) int) CmpInfo {
	return refCmp(a, b, rank)
}

func sign(i int) int {
	switch {
	case i < 0:
		return -1
	case i > 0:
		return 1
	}
	return 0
}

var two63 = new(big.Rat).SetInt(pow2(63))

// FloatRepresentable reports whether the exact number m converts to float64
// without loss and fits in an int64 when it is an integer beyond int range
// (i.e. it is not a *big.Int).
func FloatRepresentable(m *Model) bool {
	if m.Rep == RepBigInt {
		return false
	}
	f, exact := m.Q.Float64()
	return exact && !math.IsInf(f, 0)
}

// NumCmp compares two number models by mathematical value, NaN == NaN < all.
func NumCmp(a, b *Model) (ord int, lossy bool) {
	if a.IsExact() != b.IsExact() {
		ex := a
		if !a.IsExact() {
			ex = b
		}
		lossy = !FloatRepresentable(ex)
	}
	an, bn := a.IsNaN(), b.IsNaN()
	switch {
	case an && bn:
		return 0, lossy
	case an:
		return -1, lossy
	case bn:
		return 1, lossy
	}
	ai, bi := infSign(a), infSign(b)
	if ai != 0 || bi != 0 {
		return sign(ai - bi), lossy
	}
	return a.Q.Cmp(b.Q), lossy
}

func infSign(m *Model) int {
	if m.Rep == RepFloat {
		if math.IsInf(m.F, 1) {
			return 1
		}
		if math.IsInf(m.F, -1) {
			return -1
		}
	}
	return 0
}

func refCmp(a, b *Model, rank func(string) int) CmpInfo {
	if rank != nil {
		if ra, rb := rank(TypeName(a)), rank(TypeName(b)); ra != rb {
			return CmpInfo{Ord: sign(ra - rb), OK: true}
		}
	}
	if a.Kind == b.Kind {
		switch a.Kind {
		case KBool:
			return CmpInfo{Ord: boolInt(a.B) - boolInt(b.B), OK: true}
		case KNum:
			o, lossy := NumCmp(a, b)
			return CmpInfo{Ord: o, OK: true, Lossy: lossy}
		case KStr:
			switch {
			case a.S < b.S:
				return CmpInfo{Ord: -1, OK: true}
			case a.S > b.S:
				return CmpInfo{Ord: 1, OK: true}
			}
			return CmpInfo{OK: true}
		case KList:
			lossy := false
			for i := 0; i < len(a.Elems) && i < len(b.Elems); i++ {
				c := refCmp(a.Elems[i], b.Elems[i], rank)
				lossy = lossy || c.Lossy
				if !c.OK || c.Ord != 0 {
					c.Lossy = lossy
					return c
				}
			}
			return CmpInfo{Ord: sign(len(a.Elems) - len(b.Elems)), OK: true, Lossy: lossy}
		}
	}
	// not an ordered type (or, without &total, different types)
	if Eq(a, b) {
		return CmpInfo{OK: true}
	}
	if rank != nil {
		return CmpInfo{OK: true} // same type, uncomparable: 0
	}
	return CmpInfo{}
}

// AnyLossyPair reports whether comparing a with b by the reference order
// inspects a lossy mixed exact/inexact pair (shortcut for RefCmp(a,b).Lossy
// that also looks at all positions of lists, not only those up to the
// deciding one; used to keep law checks away from the known-finding region).
func AnyLossyPair(a, b *Model) bool {
	if a.Kind == KNum && b.Kind == KNum {
		_, l := NumCmp(a, b)
		return l
	}
	if a.Kind == KList && b.Kind == KList {
		for i := 0; i < len(a.Elems) && i < len(b.Elems); i++ {
			if AnyLossyPair(a.Elems[i], b.Elems[i]) {
				return true
			}
		}
	}
	return false
}
