// Shared generator of Elvish *values* ("elvValue" in DESIGN.md §4).
//
// # API (stable; used by C04, C05, C08, C09, C10 and free for other checks)
//
// A generated value is a *Model: a small Go-side description that does not
// depend on package vals. From a model one obtains
//
//	m.Value()            the real Elvish value (nil, bool, string, int, *big.Int,
//	                     *big.Rat, float64, vals.List, vals.Map), freshly built
//	                     with vals.MakeList / vals.EmptyMap.Assoc; map entries
//	                     are inserted in model order; lists flagged Sub are built
//	                     as a slice of a longer list (a different Go type behind
//	                     the same Elvish list)
//	m.ValueVariant(r)    an equal value built differently: every map's entries
//	                     inserted in a random order, sometimes with detours
//	                     (extra keys inserted and dissoc'ed again, entries first
//	                     bound to another value), lists sometimes as sub-vectors
//	m.Expr()             an Elvish constructor expression (source text) that
//	                     evaluates to the value; uses only "..." strings with \xNN
//	                     escapes, (num …), [...] and [&k=v]; independent of
//	                     vals.Repr and parse.Quote
//	ModelOf(v)           reads a real Elvish value back into a model (type
//	                     switch on the Go dynamic types), ok=false for values
//	                     outside the modelled universe
//
// Constructors: Nil(), Bool(b), Str(s), Int(i), BigInt(z) and Rat(q) (both
// canonicalise: int if it fits, *big.Int only outside the int range, *big.Rat
// only for non-integers — the only forms that exist in Elvish), Float(f),
// List(elems...), Map(keys, vals) (keys must be pairwise not Eq), Opaque(v, id, tag)
// for values with identity semantics (functions ...).
//
// Relations on models, all written from the documentation, not from vals:
//
//	Eq(a,b)        the documented `eq`: same type and value, recursively; numbers
//	               of different representations are different; 0.0 eq -0.0;
//	               NaN is not eq to anything
//	Same(a,b)      round-trip identity: like Eq but NaN ≡ NaN and floats must have
//	               the same bit pattern (so +0.0 and -0.0 differ); number
//	               representation must match
//	HasNaN(m)      m is or contains a NaN (such values are not eq to themselves)
//	RefCmp(a,b)    the documented `compare` (see valuecmp.go)
//
// Generators (all draw only from the given *rand.Rand):
//
//	GenValue(r, cfg)   nested value, depth ≤ cfg.MaxDepth (default 5), width ≤
//	                   cfg.MaxWidth (default 8)
//	GenNum(r)          one number: boundary values in all four representations,
//	                   clusters around 2^53 and 2^63, random magnitudes
//	GenFloat(r), GenExact(r), GenStr(r), GenScalar(r)
//	BoundaryNums()     the fixed list of boundary numbers (deterministic order)
//	ClusterNums(c)     all representations of the numbers around integer c
//	HashCollidingStr(r, s)  a different string with the same DJB hash as s
//	EqVariant(r, m)    an Eq model differing in zero signs / list representation
//	Plain(m), HasSubList(m)  remove / detect sliced-list flags
//
// Describe(m) gives a short printable form (the constructor expression, cut).
package gen

import (
	"fmt"
	"math"
	"math/big"
	"math/rand"
	"strings"

	"src.elv.sh/pkg/eval/vals"
)

// Kind of a modelled value.
type Kind uint8

const (
	KNil Kind = iota
	KBool
	KStr
	KNum
	KList
	KMap
	KOpaque
)

func (k Kind) String() string {
	return [...]string{"nil", "bool", "string", "number", "list", "map", "opaque"}[k]
}

// Rep is the Go representation of a number.
type Rep uint8

const (
	RepInt Rep = iota
	RepBigInt
	RepBigRat
	RepFloat
)

func (r Rep) String() string { return [...]string{"int", "*big.Int", "*big.Rat", "float64"}[r] }

// Model describes one Elvish value.
type Model struct {
	Kind Kind
	B    bool   // KBool
	S    string // KStr
	// KNum
	Rep Rep
	Q   *big.Rat // exact mathematical value of every finite number (also of finite floats); nil for ±Inf and NaN
	F   float64  // RepFloat only
	// KList
	Elems []*Model
	Sub   bool // build as a sub-vector of a longer list
	// KMap: entries in model order; keys pairwise not Eq
	Keys, Vals []*Model
	// KOpaque: a value with identity semantics
	Opaque any
	ID     int
	Tag    string
}

func Nil() *Model             { return &Model{Kind: KNil} }
func Bool(b bool) *Model      { return &Model{Kind: KBool, B: b} }
func Str(s string) *Model     { return &Model{Kind: KStr, S: s} }
func Int(i int) *Model        { return &Model{Kind: KNum, Rep: RepInt, Q: new(big.Rat).SetInt64(int64(i))} }
func List(e ...*Model) *Model { return &Model{Kind: KList, Elems: e} }
func Opaque(v any, id int, tag string) *Model {
	return &Model{Kind: KOpaque, Opaque: v, ID: id, Tag: tag}
}

var (
	minInt = big.NewInt(math.MinInt64)
	maxInt = big.NewInt(math.MaxInt64)
)

// BigInt returns the canonical model of the integer z.
func BigInt(z *big.Int) *Model {
	q := new(big.Rat).SetInt(z)
	if z.Cmp(minInt) >= 0 && z.Cmp(maxInt) <= 0 {
		return &Model{Kind: KNum, Rep: RepInt, Q: q}
	}
	return &Model{Kind: KNum, Rep: RepBigInt, Q: q}
}

// Rat returns the canonical model of the rational q.
func Rat(q *big.Rat) *Model {
	if q.IsInt() {
		return BigInt(new(big.Int).Set(q.Num()))
	}
	return &Model{Kind: KNum, Rep: RepBigRat, Q: new(big.Rat).Set(q)}
}

// Float returns the model of the float64 f.
func Float(f float64) *Model {
	m := &Model{Kind: KNum, Rep: RepFloat, F: f}
	if !math.IsNaN(f) && !math.IsInf(f, 0) {
		m.Q = new(big.Rat).SetFloat64(f)
	}
	return m
}

// Map builds a map model; the caller guarantees pairwise non-Eq keys.
func Map(keys, vs []*Model) *Model { return &Model{Kind: KMap, Keys: keys, Vals: vs} }

// IsNaN reports whether m is the number NaN.
func (m *Model) IsNaN() bool { return m.Kind == KNum && m.Rep == RepFloat && math.IsNaN(m.F) }

// IsExact reports whether m is an exact number.
func (m *Model) IsExact() bool { return m.Kind == KNum && m.Rep != RepFloat }

// ---------------------------------------------------------------------------
// building real values

// Value builds the real Elvish value.
func (m *Model) Value() any {
	switch m.Kind {
	case KNil:
		return nil
	case KBool:
		return m.B
	case KStr:
		return m.S
	case KNum:
		switch m.Rep {
		case RepInt:
			return int(m.Q.Num().Int64())
		case RepBigInt:
			return new(big.Int).Set(m.Q.Num())
		case RepBigRat:
			return new(big.Rat).Set(m.Q)
		default:
			return m.F
		}
	case KList:
		vs := make([]any, len(m.Elems))
		for i, e := range m.Elems {
			vs[i] = e.Value()
		}
		return makeList(vs, m.Sub, len(m.Elems))
	case KMap:
		mp := vals.EmptyMap
		for i, k := range m.Keys {
			mp = mp.Assoc(k.Value(), m.Vals[i].Value())
		}
		return mp
	default:
		return m.Opaque
	}
}

func makeList(vs []any, sub bool, salt int) vals.List {
	if !sub {
		return vals.MakeList(vs...)
	}
	// a slice of a longer list: junk before and/or after
	pre, post := salt%3, (salt/3)%2+boolInt(salt%3 == 0)
	all := make([]any, 0, len(vs)+pre+post)
	for i := 0; i < pre; i++ {
		all = append(all, "junk-before")
	}
	all = append(all, vs...)
	for i := 0; i < post; i++ {
		all = append(all, "junk-after")
	}
	return vals.MakeList(all...).SubVector(pre, pre+len(vs))
}

func boolInt(b bool) int {
	if b {
		return 1
	}
	return 0
}

// ValueVariant builds a value equal to m.Value() through a different
// construction history.
func (m *Model) ValueVariant(r *rand.Rand) any {
	switch m.Kind {
	case KList:
		vs := make([]any, len(m.Elems))
		for i, e := range m.Elems {
			vs[i] = e.ValueVariant(r)
		}
		if m.Sub || r.Intn(4) > 0 {
			return makeList(vs, m.Sub, r.Intn(6))
		}
		// built by Conj from a shorter list, then element replaced
		l := vals.EmptyList
		for _, v := range vs {
			l = l.Conj("placeholder")
			l = l.Assoc(l.Len()-1, v)
		}
		return l
	case KMap:
		n := len(m.Keys)
		perm := r.Perm(n)
		mp := vals.EmptyMap
		detour := r.Intn(2) == 0
		var extra []any
		if detour {
			for i := 0; i < 1+r.Intn(4); i++ {
				k := any(fmt.Sprintf("\x00detour-%d", r.Intn(1000)))
				if r.Intn(2) == 0 {
					k = 1_000_000_007 + r.Intn(1000)
				}
				extra = append(extra, k)
				mp = mp.Assoc(k, "x")
			}
		}
		for _, i := range perm {
			k := m.Keys[i].ValueVariant(r)
			if detour && r.Intn(3) == 0 && !HasNaN(m.Keys[i]) { // (a NaN key is never found again, so no detour through it)
				mp = mp.Assoc(k, "temporary")
				if r.Intn(2) == 0 {
					mp = mp.Dissoc(m.Keys[i].Value())
				}
			}
			mp = mp.Assoc(k, m.Vals[i].ValueVariant(r))
		}
		for _, k := range extra {
			mp = mp.Dissoc(k)
		}
		return mp
	default:
		return m.Value()
	}
}

// EqVariant returns a copy of m that is Eq to m (when m holds no NaN) but
// differs where eq does not look: the sign of float zeros is flipped at
// random and lists are flagged Sub at random. Combine with ValueVariant to
// get an equal value with a different construction history.
func EqVariant(r *rand.Rand, m *Model) *Model {
	c := *m
	if c.Kind == KNum && c.Rep == RepFloat && c.F == 0 && r.Intn(2) == 0 {
		if math.Signbit(m.F) {
			c.F = 0
		} else {
			c.F = math.Copysign(0, -1)
		}
	}
	if c.Kind == KList {
		c.Sub = r.Intn(3) == 0
		c.Elems = nil
		for _, e := range m.Elems {
			c.Elems = append(c.Elems, EqVariant(r, e))
		}
	}
	if c.Kind == KMap {
		c.Keys, c.Vals = nil, nil
		for i := range m.Keys {
			c.Keys = append(c.Keys, EqVariant(r, m.Keys[i]))
			c.Vals = append(c.Vals, EqVariant(r, m.Vals[i]))
		}
	}
	return &c
}

// Plain returns a copy of m in which no list is flagged Sub.
func Plain(m *Model) *Model {
	c := *m
	c.Sub = false
	c.Elems = nil
	for _, e := range m.Elems {
		c.Elems = append(c.Elems, Plain(e))
	}
	c.Keys, c.Vals = nil, nil
	for i := range m.Keys {
		c.Keys = append(c.Keys, Plain(m.Keys[i]))
		c.Vals = append(c.Vals, Plain(m.Vals[i]))
	}
	return &c
}

// HasSubList reports whether m is or contains a list flagged Sub.
func HasSubList(m *Model) bool {
	found := false
	Walk(m, func(x *Model) {
		if x.Kind == KList && x.Sub {
			found = true
		}
	})
	return found
}

// ---------------------------------------------------------------------------
// constructor expressions

func isPlainByte(c byte) bool {
	return 'a' <= c && c <= 'z' || 'A' <= c && c <= 'Z' || '0' <= c && c <= '9' || c == ' ' || c == '-' || c == '_' || c == '.' || c == '/'
}

// StrExpr returns a double-quoted Elvish string literal for s, with every
// byte outside [A-Za-z0-9 ._/-] written as \xNN.
func StrExpr(s string) string {
	var sb strings.Builder
	sb.WriteByte('"')
	for i := 0; i < len(s); i++ {
		if isPlainByte(s[i]) {
			sb.WriteByte(s[i])
		} else {
			fmt.Fprintf(&sb, `\x%02x`, s[i])
		}
	}
	sb.WriteByte('"')
	return sb.String()
}

// NumText returns a documented literal text for the number m (decimal integer,
// a/b, or a float text that identifies the float64 uniquely).
func (m *Model) NumText() string {
	switch m.Rep {
	case RepInt, RepBigInt:
		return m.Q.Num().String()
	case RepBigRat:
		return m.Q.Num().String() + "/" + m.Q.Denom().String()
	}
	f := m.F
	switch {
	case math.IsNaN(f):
		return "NaN"
	case math.IsInf(f, 1):
		return "+Inf"
	case math.IsInf(f, -1):
		return "-Inf"
	case f == 0 && math.Signbit(f):
		return "-0.0"
	}
	// the shortest decimal that identifies f at 53 bits, in scientific
	// notation (a documented float syntax), produced by math/big rather than
	// strconv
	return big.NewFloat(f).Text('e', -1)
}

// Expr returns an Elvish expression that evaluates to the value.
func (m *Model) Expr() string {
	switch m.Kind {
	case KNil:
		return "$nil"
	case KBool:
		if m.B {
			return "$true"
		}
		return "$false"
	case KStr:
		return StrExpr(m.S)
	case KNum:
		return "(num " + m.NumText() + ")"
	case KList:
		var sb strings.Builder
		sb.WriteByte('[')
		for i, e := range m.Elems {
			if i > 0 {
				sb.WriteByte(' ')
			}
			sb.WriteString(e.Expr())
		}
		sb.WriteByte(']')
		if m.Sub {
			return "[junk " + sb.String()[1:] + "[1..]"
		}
		return sb.String()
	case KMap:
		if len(m.Keys) == 0 {
			return "[&]"
		}
		var sb strings.Builder
		sb.WriteByte('[')
		for i, k := range m.Keys {
			if i > 0 {
				sb.WriteByte(' ')
			}
			sb.WriteString("&" + k.Expr() + "=" + m.Vals[i].Expr())
		}
		sb.WriteByte(']')
		return sb.String()
	default:
		return fmt.Sprintf("<opaque %s#%d>", m.Tag, m.ID)
	}
}

// Describe is a short printable form for witnesses.
func Describe(m *Model) string {
	s := m.Expr()
	if len(s) > 400 {
		s = s[:400] + "…"
	}
	return s
}

// ---------------------------------------------------------------------------
// reading real values back

// ModelOf converts a real Elvish value into a model. ok is false when v (or
// something inside it) is not nil/bool/string/number/list/map.
func ModelOf(v any) (m *Model, ok bool) {
	switch v := v.(type) {
	case nil:
		return Nil(), true
	case bool:
		return Bool(v), true
	case string:
		return Str(v), true
	case int:
		return Int(v), true
	case *big.Int:
		// deliberately NOT canonicalised: the representation is part of the model
		return &Model{Kind: KNum, Rep: RepBigInt, Q: new(big.Rat).SetInt(v)}, true
	case *big.Rat:
		return &Model{Kind: KNum, Rep: RepBigRat, Q: new(big.Rat).Set(v)}, true
	case float64:
		return Float(v), true
	case vals.List:
		lm := &Model{Kind: KList}
		for it := v.Iterator(); it.HasElem(); it.Next() {
			e, ok := ModelOf(it.Elem())
			if !ok {
				return nil, false
			}
			lm.Elems = append(lm.Elems, e)
		}
		if n := v.Len(); n != len(lm.Elems) {
			return nil, false
		}
		return lm, true
	case vals.Map:
		mm := &Model{Kind: KMap}
		for it := v.Iterator(); it.HasElem(); it.Next() {
			k, val := it.Elem()
			km, ok1 := ModelOf(k)
			vm, ok2 := ModelOf(val)
			if !ok1 || !ok2 {
				return nil, false
			}
			mm.Keys = append(mm.Keys, km)
			mm.Vals = append(mm.Vals, vm)
		}
		if v.Len() != len(mm.Keys) {
			return nil, false
		}
		return mm, true
	}
	return nil, false
}

// ---------------------------------------------------------------------------
// relations

// Eq is the documented `eq`.
func Eq(a, b *Model) bool { return rel(a, b, false) }

// Same is round-trip identity (NaN ≡ NaN, float bit patterns, representation).
func Same(a, b *Model) bool { return rel(a, b, true) }

func rel(a, b *Model, same bool) bool {
	if a.Kind != b.Kind {
		return false
	}
	switch a.Kind {
	case KNil:
		return true
	case KBool:
		return a.B == b.B
	case KStr:
		return a.S == b.S
	case KNum:
		if a.Rep != b.Rep {
			return false
		}
		if a.Rep == RepFloat {
			if same {
				if math.IsNaN(a.F) || math.IsNaN(b.F) {
					return math.IsNaN(a.F) && math.IsNaN(b.F)
				}
				return math.Float64bits(a.F) == math.Float64bits(b.F)
			}
			return a.F == b.F // IEEE: NaN != NaN, 0.0 == -0.0
		}
		return a.Q.Cmp(b.Q) == 0
	case KList:
		if len(a.Elems) != len(b.Elems) {
			return false
		}
		for i := range a.Elems {
			if !rel(a.Elems[i], b.Elems[i], same) {
				return false
			}
		}
		return true
	case KMap:
		if len(a.Keys) != len(b.Keys) {
			return false
		}
		used := make([]bool, len(b.Keys))
	outer:
		for i, k := range a.Keys {
			for j, k2 := range b.Keys {
				if !used[j] && rel(k, k2, same) {
					if !rel(a.Vals[i], b.Vals[j], same) {
						// with `same`, two NaN-containing keys may both match; try others
						if same {
							continue
						}
						return false
					}
					used[j] = true
					continue outer
				}
			}
			return false
		}
		return true
	default:
		return a.ID == b.ID
	}
}

// HasNaN reports whether m is or contains a NaN.
func HasNaN(m *Model) bool {
	switch m.Kind {
	case KNum:
		return m.IsNaN()
	case KList:
		for _, e := range m.Elems {
			if HasNaN(e) {
				return true
			}
		}
	case KMap:
		for i := range m.Keys {
			if HasNaN(m.Keys[i]) || HasNaN(m.Vals[i]) {
				return true
			}
		}
	}
	return false
}

// Walk calls f on m and everything inside it.
func Walk(m *Model, f func(*Model)) {
	f(m)
	for _, e := range m.Elems {
		Walk(e, f)
	}
	for i := range m.Keys {
		Walk(m.Keys[i], f)
		Walk(m.Vals[i], f)
	}
}

// ---------------------------------------------------------------------------
// numbers

func pow2(n int) *big.Int { return new(big.Int).Lsh(big.NewInt(1), uint(n)) }

func addInt(z *big.Int, d int64) *big.Int { return new(big.Int).Add(z, big.NewInt(d)) }

var boundaryNums []*Model

// BoundaryNums returns the fixed list of boundary numbers in all four
// representations (callers must not modify the models).
func BoundaryNums() []*Model {
	if boundaryNums != nil {
		return boundaryNums
	}
	var out []*Model
	add := func(m *Model) { out = append(out, m) }
	// integers around powers of two, both signs
	for _, p := range []int{0, 1, 5, 31, 32, 52, 53, 54, 62, 63, 64, 65, 127, 128, 1023, 1024} {
		for d := int64(-2); d <= 2; d++ {
			z := addInt(pow2(p), d)
			add(BigInt(z))
			add(BigInt(new(big.Int).Neg(z)))
		}
	}
	ten := func(n int) *big.Int { return new(big.Int).Exp(big.NewInt(10), big.NewInt(int64(n)), nil) }
	for _, n := range []int{14, 15, 16, 18, 19, 20, 21, 22, 40, 308, 309, 400} {
		add(BigInt(ten(n)))
		add(BigInt(addInt(ten(n), -1)))
		add(BigInt(new(big.Int).Neg(ten(n))))
	}
	// 2^1024 - 2^970: the smallest integer that rounds to +Inf
	add(BigInt(new(big.Int).Sub(pow2(1024), pow2(970))))
	add(BigInt(addInt(new(big.Int).Sub(pow2(1024), pow2(970)), -1)))
	// rationals
	rat := func(a, b *big.Int) {
		add(Rat(new(big.Rat).SetFrac(a, b)))
		add(Rat(new(big.Rat).SetFrac(new(big.Int).Neg(a), b)))
	}
	rat(big.NewInt(1), big.NewInt(2))
	rat(big.NewInt(1), big.NewInt(3))
	rat(big.NewInt(2), big.NewInt(3))
	rat(big.NewInt(1), big.NewInt(10))
	rat(big.NewInt(22), big.NewInt(7))
	rat(addInt(pow2(53), 1), big.NewInt(2))
	rat(addInt(pow2(54), 1), big.NewInt(2))
	rat(addInt(pow2(63), 1), big.NewInt(2))
	rat(addInt(pow2(64), -1), big.NewInt(2))
	rat(pow2(63), big.NewInt(3))
	rat(big.NewInt(1), pow2(64))
	rat(big.NewInt(1), pow2(1074))
	rat(big.NewInt(1), pow2(1075))
	rat(big.NewInt(1), addInt(pow2(63), 0))
	rat(ten(40), big.NewInt(3))
	rat(big.NewInt(1), ten(400))
	rat(addInt(ten(400), 1), ten(399))
	rat(big.NewInt(3602879701896397), big.NewInt(36028797018963968)) // exact value of 0.1
	// floats
	fl := []float64{0, math.Copysign(0, -1), 1, -1, 0.5, -0.5, 0.1, 0.2, 0.3, 1.5, 2, 10, 100,
		math.Inf(1), math.Inf(-1), math.NaN(),
		math.SmallestNonzeroFloat64, -math.SmallestNonzeroFloat64, 2 * math.SmallestNonzeroFloat64,
		2.2250738585072009e-308, 2.2250738585072014e-308, 2.225073858507202e-308, // max subnormal, min normal, next
		math.MaxFloat64, -math.MaxFloat64, math.Nextafter(math.MaxFloat64, 0),
		1e14, 1e15, 1e16, 1e20, 1e21, 1e22, 1e23, 1e100, 1e-4, 1e-5, 1e-6, 1e-7, 0.0001234, 0.00001234, 0.000001234,
		123456789012345, 1234567890123456, 12345678901234567, 99999999999999, 100000000000000, 100000000000001, 999999999999990, 1e14 + 10,
		4503599627370496, 9007199254740991, 9007199254740992, 9007199254740994, 9007199254740996, 18014398509481984,
		2147483648, 4294967296, 9223372036854775808, 9223372036854774784, 9223372036854777856, 18446744073709551616,
		-9223372036854775808, -9223372036854774784, -9223372036854777856,
		3.141592653589793, 2.718281828459045, 1.7976931348623157e308, 4.9406564584124654e-324, 1.0000000000000002, 0.9999999999999999,
		5e-324, 1e-323, 1e-322, 123.456, 1.0e10, 33, 4294967263}
	for _, f := range fl {
		add(Float(f))
	}
	// float with a NaN payload different from math.NaN()
	add(Float(math.Float64frombits(0x7ff8000000000001)))
	add(Float(math.Float64frombits(0xfff0000000000001)))
	boundaryNums = out
	return out
}

// ClusterNums returns all representations of the numbers around the integer
// c: integers c-3..c+3, half- and third-integers between them, float64(c) and
// its neighbours, and (for exactly representable ones) the float of each
// integer.
func ClusterNums(c *big.Int) []*Model {
	var out []*Model
	for d := int64(-3); d <= 3; d++ {
		z := addInt(c, d)
		out = append(out, BigInt(z))
		half := new(big.Rat).SetFrac(addInt(new(big.Int).Lsh(z, 1), 1), big.NewInt(2))
		out = append(out, Rat(half))
		if d == 0 || d == 1 {
			third := new(big.Rat).SetFrac(addInt(new(big.Int).Mul(z, big.NewInt(3)), 1), big.NewInt(3))
			out = append(out, Rat(third))
		}
	}
	f, _ := new(big.Float).SetInt(c).Float64()
	fs := []float64{f}
	up, down := f, f
	for i := 0; i < 3; i++ {
		up = math.Nextafter(up, math.Inf(1))
		down = math.Nextafter(down, math.Inf(-1))
		fs = append(fs, up, down)
	}
	for _, x := range fs {
		out = append(out, Float(x))
	}
	return out
}

var clusterCenters = []*big.Int{pow2(53), new(big.Int).Neg(pow2(53)), pow2(63), new(big.Int).Neg(pow2(63)), pow2(64), pow2(31), pow2(32), pow2(1024), big.NewInt(0)}

// GenFloat returns a float64 model: boundary value, random bit pattern,
// random value of a "human" magnitude, subnormal, or neighbour of a power of two.
func GenFloat(r *rand.Rand) *Model {
	switch r.Intn(8) {
	case 0:
		for {
			m := BoundaryNums()[r.Intn(len(BoundaryNums()))]
			if m.Rep == RepFloat {
				return m
			}
		}
	case 1, 2:
		return Float(math.Float64frombits(r.Uint64()))
	case 3: // subnormal
		return Float(math.Float64frombits(r.Uint64()&(1<<52-1) | uint64(r.Intn(2))<<63))
	case 4: // integer-valued floats of all sizes (exercise the ".0" / exponent switch)
		digits := 1 + r.Intn(22)
		f := math.Floor(math.Pow(10, float64(digits)) * r.Float64())
		if r.Intn(3) == 0 { // trailing zeros
			f = math.Floor(f/1000) * 1000
		}
		if r.Intn(2) == 0 {
			f = -f
		}
		return Float(f)
	case 5: // small magnitudes around the 0.0000 boundary
		f := r.Float64() * math.Pow(10, -float64(r.Intn(9)))
		if r.Intn(2) == 0 {
			f = -f
		}
		return Float(f)
	case 6: // neighbours of powers of two
		p := r.Intn(2100) - 1075
		f := math.Ldexp(1, p)
		for i := r.Intn(3); i > 0; i-- {
			f = math.Nextafter(f, math.Inf(1-2*r.Intn(2)))
		}
		if r.Intn(2) == 0 {
			f = -f
		}
		return Float(f)
	default: // decimal-looking
		f := float64(r.Intn(2000000)-1000000) / math.Pow(10, float64(r.Intn(7)))
		return Float(f)
	}
}

// GenExact returns an exact number model (int, big int or rational).
func GenExact(r *rand.Rand) *Model {
	switch r.Intn(8) {
	case 0:
		for {
			m := BoundaryNums()[r.Intn(len(BoundaryNums()))]
			if m.Rep != RepFloat {
				return m
			}
		}
	case 1:
		return Int(r.Intn(201) - 100)
	case 2:
		return BigInt(big.NewInt(int64(r.Uint64())))
	case 3: // around a power of two
		z := addInt(pow2(r.Intn(130)), int64(r.Intn(7)-3))
		if r.Intn(2) == 0 {
			z.Neg(z)
		}
		return BigInt(z)
	case 4: // random big integer
		z := randBig(r, 1+r.Intn(300))
		if r.Intn(2) == 0 {
			z.Neg(z)
		}
		return BigInt(z)
	case 5: // small rational
		return Rat(big.NewRat(int64(r.Intn(2001)-1000), int64(1+r.Intn(1000))))
	case 6: // big rational
		a, b := randBig(r, 1+r.Intn(200)), randBig(r, 1+r.Intn(200))
		if b.Sign() == 0 {
			b.SetInt64(1)
		}
		if r.Intn(2) == 0 {
			a.Neg(a)
		}
		return Rat(new(big.Rat).SetFrac(a, b))
	default: // cluster member
		c := clusterCenters[r.Intn(len(clusterCenters))]
		for {
			cl := ClusterNums(c)
			m := cl[r.Intn(len(cl))]
			if m.Rep != RepFloat {
				return m
			}
		}
	}
}

func randBig(r *rand.Rand, bits int) *big.Int {
	z := new(big.Int)
	for z.BitLen() < bits {
		z.Lsh(z, 32)
		z.Or(z, big.NewInt(int64(r.Uint32())))
	}
	return z.Rsh(z, uint(z.BitLen()-bits))
}

// GenNum returns a number in any representation.
func GenNum(r *rand.Rand) *Model {
	switch r.Intn(10) {
	case 0, 1:
		return BoundaryNums()[r.Intn(len(BoundaryNums()))]
	case 2:
		cl := ClusterNums(clusterCenters[r.Intn(len(clusterCenters))])
		return cl[r.Intn(len(cl))]
	case 3, 4, 5:
		return GenFloat(r)
	default:
		return GenExact(r)
	}
}

// ---------------------------------------------------------------------------
// strings

var specialStrs = []string{"", " ", "~", "~a", "~/x", "a=b", "=", ",", "1", "-1", "0x10", "1/2", "1.0", "NaN", "+Inf", "1e3",
	"\n", "\t", "\r", "a b", "a\nb", "'", "''", "\"", "\\", "\\n", "$nil", "$true", "[&]", "[]", "(num 1)", "&", "&a=b", "#", "#x",
	"*", "?", "a*b", "{a,b}", "|", ";", "<", ">", ">>", "$", "$x", "@", "^", "`", "(", ")", "[", "]", "{", "}",
	"\x00", "\x7f", "\x1b[0m", "\u0085", "\u200b", "\ufeff", "\xff", "\xc0\x80", "\xed\xa0\x80", "\xe4\xb8", "a\xffb",
	"好", "世界", "😀", "é", "\U0001F600‍", "ab", "bA", "key", "value", "stem", "name"}

// HashCollidingStr returns a string different from s with the same DJB (×33)
// hash: a byte pair (x,y) is replaced by (x+1,y-33). ok=false if s has no
// suitable pair.
func HashCollidingStr(r *rand.Rand, s string) (string, bool) {
	b := []byte(s)
	for _, i := range r.Perm(len(b)) {
		if i+1 < len(b) && b[i] < 255 && b[i+1] >= 33 {
			b[i]++
			b[i+1] -= 33
			return string(b), true
		}
	}
	return "", false
}

// GenStr returns an adversarial string.
func GenStr(r *rand.Rand) string {
	switch r.Intn(8) {
	case 0, 1:
		return specialStrs[r.Intn(len(specialStrs))]
	case 2:
		return RandomBytes(r, 6)
	case 3:
		return PrintableText(r, 8)
	case 4: // bareword-like
		const letters = "abcxyzABC019-_./:@%+!,"
		n := 1 + r.Intn(6)
		b := make([]byte, n)
		for i := range b {
			b[i] = letters[r.Intn(len(letters))]
		}
		return string(b)
	case 5: // family of full hash collisions: prefix + ("ab"|"bA") + suffix
		pre := []string{"", "k", "xy"}[r.Intn(3)]
		mid := []string{"ab", "bA", "c ", "ab", "bA"}[r.Intn(5)]
		return pre + mid + []string{"", "z"}[r.Intn(2)]
	default:
		return BytesAdv(r, 5)
	}
}

// GenScalar returns nil, a bool, a string or a number.
func GenScalar(r *rand.Rand) *Model {
	switch k := r.Intn(20); {
	case k == 0:
		return Nil()
	case k <= 2:
		return Bool(r.Intn(2) == 0)
	case k <= 10:
		return Str(GenStr(r))
	default:
		return GenNum(r)
	}
}

// ---------------------------------------------------------------------------
// nested values

// ValueCfg bounds GenValue.
type ValueCfg struct {
	MaxDepth int     // default 5
	MaxWidth int     // default 8
	SubLists float64 // probability that a list is built as a sub-vector
	NoNaN    bool    // never generate NaN
	NaNKeys  bool    // allow a NaN (or NaN-containing) map key (at most one per map)
	// Scalar overrides the leaf generator (default GenScalar).
	Scalar func(r *rand.Rand) *Model
}

// GenValue returns a nested value. Map keys are pairwise not Eq (and, unless
// cfg.NaNKeys, free of NaN).
func GenValue(r *rand.Rand, cfg ValueCfg) *Model {
	if cfg.MaxDepth == 0 {
		cfg.MaxDepth = 5
	}
	if cfg.MaxWidth == 0 {
		cfg.MaxWidth = 8
	}
	budget := 8 + r.Intn(60)
	return genValue(r, &cfg, 0, &budget, 1+r.Intn(cfg.MaxDepth+1))
}

func genValue(r *rand.Rand, cfg *ValueCfg, depth int, budget *int, maxDepth int) *Model {
	*budget--
	leaf := func() *Model {
		for {
			var m *Model
			if cfg.Scalar != nil {
				m = cfg.Scalar(r)
			} else {
				m = GenScalar(r)
			}
			if cfg.NoNaN && m.IsNaN() {
				continue
			}
			return m
		}
	}
	if depth >= maxDepth || *budget <= 0 || (depth > 0 && r.Intn(100) < 35) {
		return leaf()
	}
	width := r.Intn(cfg.MaxWidth + 1)
	if r.Intn(3) == 0 {
		width = r.Intn(3)
	}
	if r.Intn(2) == 0 {
		l := &Model{Kind: KList, Sub: r.Float64() < cfg.SubLists}
		for i := 0; i < width; i++ {
			l.Elems = append(l.Elems, genValue(r, cfg, depth+1, budget, maxDepth))
		}
		return l
	}
	mp := &Model{Kind: KMap}
	nanKey := false
	for i := 0; i < width; i++ {
		var k *Model
		if r.Intn(4) == 0 {
			k = genValue(r, cfg, depth+1, budget, maxDepth)
		} else {
			k = leaf()
		}
		if r.Intn(8) == 0 && len(mp.Keys) > 0 { // a key with the same hash as an earlier string key
			if prev := mp.Keys[r.Intn(len(mp.Keys))]; prev.Kind == KStr {
				if s, ok := HashCollidingStr(r, prev.S); ok {
					k = Str(s)
				}
			}
		}
		if HasNaN(k) {
			if !cfg.NaNKeys || nanKey {
				continue
			}
			nanKey = true
		}
		dup := false
		for _, k0 := range mp.Keys {
			if Eq(k0, k) || Same(k0, k) {
				dup = true
				break
			}
		}
		if dup {
			continue
		}
		mp.Keys = append(mp.Keys, k)
		mp.Vals = append(mp.Vals, genValue(r, cfg, depth+1, budget, maxDepth))
	}
	return mp
}
