package gen

import (
	"math/rand"
	"testing"

	"src.elv.sh/pkg/parse"
)

// The generator promises "almost always valid" and coverage of every primary
// type and form feature; this test measures both with the real parser.
func TestElvProgramValidityAndCoverage(t *testing.T) {
	r := rand.New(rand.NewSource(1))
	const n = 20000
	invalid := 0
	types := map[parse.PrimaryType]int{}
	feat := map[string]int{}
	var firstBad []string
	for i := 0; i < n; i++ {
		tree0 := ElvProgramTree(r, SyntaxOpt{MaxForms: 4, InvalidUTF8: i%4 == 0})
		src := tree0.Source()
		tree, err := parse.Parse(parse.Source{Name: "t", Code: src}, parse.Config{})
		if err != nil {
			invalid++
			if len(firstBad) < 15 {
				firstBad = append(firstBad, src+"\n    => "+err.Error())
			}
			continue
		}
		var walk func(parse.Node)
		walk = func(n parse.Node) {
			switch n := n.(type) {
			case *parse.Primary:
				types[n.Type]++
			case *parse.Redir:
				feat["redir"]++
				if n.Left != nil {
					feat["redir-left"]++
				}
				if n.RightIsFd {
					feat["redir-fd"]++
				}
			case *parse.Form:
				if len(n.Opts) > 0 {
					feat["opts"]++
				}
			case *parse.Pipeline:
				if n.Background {
					feat["bg"]++
				}
				if len(n.Forms) > 1 {
					feat["pipe"]++
				}
			case *parse.Indexing:
				if len(n.Indices) > 0 {
					feat["index"]++
				}
			case *parse.Compound:
				if len(n.Indexings) > 1 {
					feat["compound"]++
				}
			}
			for _, ch := range parse.Children(n) {
				walk(ch)
			}
		}
		walk(tree.Root)
	}
	t.Logf("invalid %d of %d; primary types %v; features %v", invalid, n, types, feat)
	for _, b := range firstBad {
		t.Logf("invalid: %q", b)
	}
	if invalid*100 > n*2 {
		t.Errorf("too many invalid programs: %d of %d", invalid, n)
	}
	for ty := parse.Bareword; ty <= parse.Braced; ty++ {
		if types[ty] < 50 {
			t.Errorf("primary type %v generated only %d times", ty, types[ty])
		}
	}
	for _, f := range []string{"redir", "redir-left", "redir-fd", "opts", "bg", "pipe", "index", "compound"} {
		if feat[f] < 50 {
			t.Errorf("feature %s generated only %d times", f, feat[f])
		}
	}
}
