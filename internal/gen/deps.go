package gen

// Blank imports that pin the third-party modules used by some checks in
// go.mod/go.sum, so that adding a check never needs a module download.
import (
	_ "github.com/anishathalye/porcupine"
	_ "github.com/sourcegraph/jsonrpc2"
	_ "github.com/yuin/goldmark"
	_ "go.etcd.io/bbolt"
	_ "pkg.nimblebun.works/go-lsp"
)
