// Grammar-based generator of syntactically valid Elvish source ("elvSyntax" in
// DESIGN.md §4). Shared by the parser, prefix, highlighting, LSP and diag checks.
//
// # API
//
//	ElvProgram(r, maxForms) string        source of a program with 0..maxForms top-level pipelines
//	ElvProgramTree(r, opt) *SynNode       the same as a tree (own AST); .Source(), .Kinds(), .Leaves()
//	ElvExpr(r) string                     one compound expression (argument position)
//	ElvMutate(r, src) string              one token-/byte-level mutation (usually makes src invalid)
//
// The generator builds its own small tree (SynNode: inner nodes carry a Kind,
// leaves carry Kind + literal Text; the source is the concatenation of the
// leaves) and renders it to text. It is written from the language reference
// (website/ref/language.md), not from the parser, and covers every
// parse.PrimaryType (bareword, single/double-quoted string with all escape
// kinds, variable incl. quoted names / @ sigil / namespaces, wildcard, tilde,
// output capture, exception capture, list, map, lambda with and without
// signature, braced list with spaces and commas), indexing (incl. several
// indices and slices), compounding, options, redirections (with and without
// destination fd, &fd, &-), pipelines, background, all pipeline separators
// (newline, CR, CRLF, semicolon), comments, line continuations, multi-line
// lists/maps/lambdas, and the special forms (if/elif/else, while, for, try,
// fn, var, set, tmp, del, and/or, use, pragma) as ordinary forms.
//
// SOUNDNESS: "valid" is an intention, not a guarantee. A consumer must
// establish validity with the real parser (parse.Parse → no error) and skip /
// count the rest. At the time of writing > 99% of the generated programs parse
// without error. Programs are syntactically valid only: most do not compile
// (undefined variables) and none is meant to be executed.
//
// Every random choice is drawn from the *rand.Rand passed in.
package gen

import (
	"fmt"
	"math/rand"
	"sort"
	"strings"
	"unicode/utf8"
)

// SynNode is a node of the generator's own syntax tree. Leaves have Text and
// no Kids; the source text is the concatenation of all leaves in order.
type SynNode struct {
	Kind string // e.g. "chunk", "pipeline", "form", "redir", "option", "compound", "indexing", "list", "map", "lambda", "braced", "outcap", "exccap" or a leaf kind: "bareword", "squote", "dquote", "var", "wildcard", "tilde", "space", "newline", "comment", "continuation", "punct"
	Text string
	Kids []*SynNode
}

func leaf(kind, text string) *SynNode { return &SynNode{Kind: kind, Text: text} }

func inner(kind string, kids ...*SynNode) *SynNode {
	n := &SynNode{Kind: kind}
	n.add(kids...)
	return n
}

func (n *SynNode) add(kids ...*SynNode) {
	for _, k := range kids {
		if k != nil {
			n.Kids = append(n.Kids, k)
		}
	}
}

// Source renders the tree.
func (n *SynNode) Source() string {
	var sb strings.Builder
	n.render(&sb)
	return sb.String()
}

func (n *SynNode) render(sb *strings.Builder) {
	if len(n.Kids) == 0 {
		sb.WriteString(n.Text)
		return
	}
	for _, k := range n.Kids {
		k.render(sb)
	}
}

// Leaves returns the leaves in source order.
func (n *SynNode) Leaves() []*SynNode {
	var out []*SynNode
	var walk func(*SynNode)
	walk = func(m *SynNode) {
		if len(m.Kids) == 0 {
			out = append(out, m)
			return
		}
		for _, k := range m.Kids {
			walk(k)
		}
	}
	walk(n)
	return out
}

// Kinds returns the sorted set of node kinds (inner and leaf) in the tree.
func (n *SynNode) Kinds() []string {
	set := map[string]bool{}
	var walk func(*SynNode)
	walk = func(m *SynNode) {
		set[m.Kind] = true
		for _, k := range m.Kids {
			walk(k)
		}
	}
	walk(n)
	out := make([]string, 0, len(set))
	for k := range set {
		out = append(out, k)
	}
	sort.Strings(out)
	return out
}

// SyntaxOpt tunes ElvProgramTree.
type SyntaxOpt struct {
	MaxForms    int  // maximum number of top-level pipelines (0 allowed: trivia-only program)
	MaxDepth    int  // maximum nesting of lambdas / captures / lists / braces; default 4
	Budget      int  // approximate maximum number of compounds; default 60
	InvalidUTF8 bool // also put invalid UTF-8 bytes into quoted strings, comments and barewords
	ASCIIOnly   bool // no non-ASCII text at all
}

// ElvProgram returns the source of a generated program with at most maxForms
// top-level pipelines (valid UTF-8).
func ElvProgram(r *rand.Rand, maxForms int) string {
	return ElvProgramTree(r, SyntaxOpt{MaxForms: maxForms}).Source()
}

// ElvProgramTree returns a generated program as a tree.
func ElvProgramTree(r *rand.Rand, o SyntaxOpt) *SynNode {
	g := newSynGen(r, o)
	n := 0
	if o.MaxForms > 0 {
		n = r.Intn(o.MaxForms + 1)
		if n == 0 && r.Intn(4) > 0 { // trivia-only programs are rare
			n = 1
		}
	}
	return g.chunk(0, n, true)
}

// ElvExpr returns one compound expression usable in argument position.
func ElvExpr(r *rand.Rand) string {
	g := newSynGen(r, SyntaxOpt{Budget: 12, MaxDepth: 3})
	return g.compound(1, ctxNormal).Source()
}

type synGen struct {
	r      *rand.Rand
	o      SyntaxOpt
	budget int
}

func newSynGen(r *rand.Rand, o SyntaxOpt) *synGen {
	if o.MaxDepth <= 0 {
		o.MaxDepth = 4
	}
	if o.Budget <= 0 {
		o.Budget = 60
	}
	return &synGen{r: r, o: o, budget: o.Budget}
}

// expression contexts, as in the language reference: "=" terminates map and
// option keys, "," separates braced-list items, "<>*^" are ordinary
// characters in command position only.
type synCtx int

const (
	ctxNormal synCtx = iota
	ctxCmd
	ctxKey
	ctxBraced
)

func (g *synGen) pick(ss ...string) string { return ss[g.r.Intn(len(ss))] }
func (g *synGen) chance(pct int) bool       { return g.r.Intn(100) < pct }

// ---- trivia -----------------------------------------------------------------

var synCommentTexts = []string{"", " comment", " a 'b' \"c\" $d ( [ { | & ; ^", "#", " 好 é 😀", " x\ty", " ^"}

func (g *synGen) commentText() string {
	s := g.pick(synCommentTexts...)
	if g.o.ASCIIOnly {
		s = strings.Map(func(r rune) rune {
			if r > 0x7f {
				return 'u'
			}
			return r
		}, s)
	}
	if g.o.InvalidUTF8 && g.chance(30) {
		s += g.pick("\xff", "\xc0\x80", "\xe4\xb8", "\xed\xa0\x80", "\x80")
	}
	return "#" + s
}

// inlineSpace returns a separator between the parts of one form: spaces,
// tabs, or a line continuation. Never empty.
func (g *synGen) inlineSpace() *SynNode {
	switch k := g.r.Intn(20); {
	case k < 13:
		return leaf("space", " ")
	case k < 15:
		return leaf("space", g.pick("  ", "\t", " \t ", "   "))
	case k < 18:
		return inner("spaces", leaf("space", " "), leaf("continuation", g.pick("^\n", "^\r\n")), leaf("space", g.pick("", " ", "  ", "\t")))
	default:
		return inner("spaces", leaf("space", " "), leaf("continuation", "^\n"), leaf("continuation", "^\n"), leaf("space", " "))
	}
}

// wideSpace returns whitespace for places where newlines are whitespace too
// (inside lists, maps, braced lists, after "|" and around signatures). May be
// empty unless need is set.
func (g *synGen) wideSpace(need bool) *SynNode {
	k := g.r.Intn(20)
	switch {
	case k < 6 && !need:
		return nil
	case k < 12:
		return leaf("space", " ")
	case k < 14:
		return leaf("newline", "\n")
	case k < 16:
		return inner("spaces", leaf("newline", "\n"), leaf("space", g.pick("  ", "\t", "    ")))
	case k < 17:
		return inner("spaces", leaf("space", " "), leaf("comment", g.commentText()), leaf("newline", "\n"), leaf("space", " "))
	case k < 18:
		return leaf("newline", g.pick("\r\n", "\r", "\n\n"))
	case k < 19:
		return inner("spaces", leaf("space", " "), leaf("continuation", "^\n"))
	default:
		return leaf("space", "  ")
	}
}

// pipelineSep returns a separator between two pipelines of a chunk (contains
// at least one newline, CR or semicolon).
func (g *synGen) pipelineSep(multiline bool) *SynNode {
	k := g.r.Intn(20)
	if !multiline && k < 12 {
		return inner("seps", leaf("punct", ";"), leaf("space", g.pick(" ", "", "  ")))
	}
	switch {
	case k < 9:
		return leaf("newline", "\n")
	case k < 11:
		return inner("seps", leaf("newline", "\n"), leaf("space", g.pick("  ", "\t")))
	case k < 13:
		return inner("seps", leaf("space", " "), leaf("comment", g.commentText()), leaf("newline", "\n"))
	case k < 14:
		return leaf("newline", "\r\n")
	case k < 15:
		return leaf("newline", "\r")
	case k < 16:
		return inner("seps", leaf("newline", "\n"), leaf("comment", g.commentText()), leaf("newline", "\n"), leaf("newline", "\n"))
	case k < 18:
		return inner("seps", leaf("space", g.pick("", " ")), leaf("punct", ";"), leaf("space", g.pick("", " ")))
	case k < 19:
		return inner("seps", leaf("punct", ";"), leaf("punct", ";"), leaf("newline", "\n"))
	default:
		return leaf("newline", "\n\n")
	}
}

// ---- chunk / pipeline / form ---------------------------------------------------

// chunk generates n pipelines. top says whether this is the whole program
// (leading/trailing trivia, newline-heavy separators).
func (g *synGen) chunk(depth, n int, top bool) *SynNode {
	c := inner("chunk")
	multiline := top || g.chance(25)
	if top {
		switch g.r.Intn(12) {
		case 0:
			c.add(leaf("comment", g.commentText()), leaf("newline", "\n"))
		case 1:
			c.add(leaf("newline", "\n"))
		case 2:
			c.add(leaf("space", " "))
		case 3:
			c.add(leaf("comment", "#!/usr/bin/env elvish"), leaf("newline", "\n"))
		}
	}
	for i := 0; i < n; i++ {
		c.add(g.pipeline(depth))
		if i < n-1 {
			c.add(g.pipelineSep(multiline))
		}
	}
	if top {
		switch g.r.Intn(8) {
		case 0, 1, 2:
			c.add(leaf("newline", "\n"))
		case 3:
			c.add(leaf("space", " "), leaf("comment", g.commentText()))
		case 4:
			c.add(leaf("punct", ";"))
		case 5:
			if n == 0 {
				c.add(leaf("space", g.pick(" ", "\t", "")))
			}
		}
	}
	if len(c.Kids) == 0 {
		c.add(leaf("space", ""))
	}
	return c
}

func (g *synGen) pipeline(depth int) *SynNode {
	p := inner("pipeline")
	nforms := 1
	if g.chance(22) {
		nforms = 2 + g.r.Intn(2)
	}
	for i := 0; i < nforms; i++ {
		if i > 0 {
			// " | ", "|", " |\n  "
			switch g.r.Intn(6) {
			case 0:
				p.add(leaf("punct", "|"))
			case 1:
				p.add(leaf("space", " "), leaf("punct", "|"), leaf("newline", "\n"), leaf("space", "  "))
			case 2:
				p.add(leaf("space", " "), leaf("punct", "|"), leaf("space", " "), leaf("comment", g.commentText()), leaf("newline", "\n"))
			default:
				p.add(leaf("space", " "), leaf("punct", "|"), leaf("space", " "))
			}
		}
		p.add(g.form(depth))
	}
	if g.chance(5) {
		p.add(leaf("space", g.pick(" ", "")), leaf("punct", "&"))
		if g.chance(30) {
			p.add(leaf("space", " "))
		}
	} else if g.chance(6) {
		p.add(leaf("space", " "))
	}
	return p
}

var synCommands = []string{"echo", "put", "nop", "each", "count", "range", "print", "all", "str:join", "e:ls", "+", "-", "*", "==", "<", ">=", "keys", "assoc", "f", "a.b", "./run", "/bin/true", "math:max", "printf", "path:base", "x~y", "has-key", "only-values", "styled", "edit:complete-getopt"}

func (g *synGen) form(depth int) *SynNode {
	if g.budget > 0 && depth < g.o.MaxDepth && g.chance(28) {
		return g.specialForm(depth)
	}
	f := inner("form")
	// head
	switch k := g.r.Intn(40); {
	case k < 30 || g.budget <= 0:
		f.add(leaf("bareword", g.pick(synCommands...)))
	case k < 32:
		f.add(inner("compound", leaf("var", "$"+g.pick("f~", "put~", "fn", "e:cat~", "str:join~"))))
	case k < 34:
		f.add(g.lambda(depth + 1))
	case k < 35:
		f.add(leaf("bareword", g.pick("^", "a^b", "a*", "<", ">x", "a,b", "k=v", "!", "%", "\\x", "@", ":", "..")))
	case k < 36:
		f.add(g.quoted())
	default:
		f.add(g.compound(depth+1, ctxCmd))
	}
	nargs := g.r.Intn(4)
	if g.chance(10) {
		nargs += 3
	}
	for i := 0; i < nargs; i++ {
		f.add(g.inlineSpace())
		switch k := g.r.Intn(20); {
		case k < 14:
			f.add(g.compound(depth+1, ctxNormal))
		case k < 17:
			f.add(g.option(depth + 1))
		default:
			f.add(g.redir(depth + 1))
		}
	}
	return f
}

func (g *synGen) option(depth int) *SynNode {
	o := inner("option", leaf("punct", "&"))
	o.add(g.key(depth))
	switch g.r.Intn(6) {
	case 0: // &flag
	case 1: // &k=
		o.add(leaf("punct", "="))
	default:
		o.add(leaf("punct", "="), g.compound(depth, ctxNormal))
	}
	return o
}

func (g *synGen) key(depth int) *SynNode {
	if g.chance(80) || g.budget <= 0 {
		return leaf("bareword", g.pick("k", "key", "a-b", "num-workers", "x", "0", "sep", "好", "a,b", "a.b/c"))
	}
	return g.compound(depth, ctxKey)
}

func (g *synGen) redir(depth int) *SynNode {
	rd := inner("redir")
	if g.chance(45) {
		rd.add(leaf("bareword", g.pick("0", "1", "2", "3", "stdin", "stdout", "stderr", "10")))
	} else if g.chance(8) {
		rd.add(g.pick2(leaf("var", "$fd"), leaf("squote", "'2'")))
	}
	rd.add(leaf("punct", g.pick("<", ">", ">>", "<>", ">", ">")))
	if g.chance(25) {
		rd.add(leaf("space", g.pick(" ", "  ", "\t")))
	}
	switch k := g.r.Intn(10); {
	case k < 2:
		rd.add(leaf("punct", "&"), leaf("bareword", g.pick("0", "1", "2", "stderr", "stdout")))
	case k < 3:
		rd.add(leaf("punct", "&"), leaf("bareword", "-"))
	case k < 7:
		rd.add(leaf("bareword", g.pick("file", "/dev/null", "out.txt", "a/b.c", "log-1")))
	default:
		rd.add(g.compound(depth, ctxNormal))
	}
	return rd
}

func (g *synGen) pick2(a, b *SynNode) *SynNode {
	if g.r.Intn(2) == 0 {
		return a
	}
	return b
}

// block returns " { body }"-style lambda used by the special forms.
func (g *synGen) block(depth int) *SynNode { return g.lambdaSig(depth, false) }

func (g *synGen) specialForm(depth int) *SynNode {
	f := inner("form")
	sp := func() { f.add(g.inlineSpace()) }
	word := func(s string) { f.add(leaf("bareword", s)) }
	arg := func() { f.add(g.compound(depth+1, ctxNormal)) }
	name := func() string { return g.pick("x", "y", "foo", "a-b", "i", "好", "v1", "f~", "ns:x", "_") }
	switch g.r.Intn(14) {
	case 0, 1: // if
		word("if")
		sp()
		arg()
		sp()
		f.add(g.block(depth + 1))
		for g.chance(30) {
			sp()
			word("elif")
			sp()
			arg()
			sp()
			f.add(g.block(depth + 1))
		}
		if g.chance(50) {
			sp()
			word("else")
			sp()
			f.add(g.block(depth + 1))
		}
	case 2: // while
		word("while")
		sp()
		arg()
		sp()
		f.add(g.block(depth + 1))
		if g.chance(20) {
			sp()
			word("else")
			sp()
			f.add(g.block(depth + 1))
		}
	case 3: // for
		word("for")
		sp()
		word(name())
		sp()
		arg()
		sp()
		f.add(g.block(depth + 1))
	case 4: // try
		word("try")
		sp()
		f.add(g.block(depth + 1))
		if g.chance(70) {
			sp()
			word("catch")
			if g.chance(80) {
				sp()
				word(name())
			}
			sp()
			f.add(g.block(depth + 1))
		}
		if g.chance(20) {
			sp()
			word("else")
			sp()
			f.add(g.block(depth + 1))
		}
		if g.chance(40) {
			sp()
			word("finally")
			sp()
			f.add(g.block(depth + 1))
		}
	case 5, 6: // fn
		word("fn")
		sp()
		word(g.pick("f", "my-fn", "g", "好", "a:b", "-x"))
		sp()
		f.add(g.lambdaSig(depth+1, g.chance(70)))
	case 7, 8: // var
		word("var")
		n := 1 + g.r.Intn(3)
		for i := 0; i < n; i++ {
			sp()
			if i == n-1 && g.chance(15) {
				word("@" + name())
			} else if g.chance(10) {
				f.add(leaf("squote", g.pick("'a b'", "'x/y'", "''", "'it''s'")))
			} else {
				word(name())
			}
		}
		if g.chance(85) {
			sp()
			word("=")
			for i := 0; i < n; i++ {
				sp()
				arg()
			}
		}
	case 9: // set / tmp, with element assignment
		word(g.pick("set", "tmp", "set"))
		sp()
		if g.chance(35) {
			f.add(inner("compound", inner("indexing", leaf("bareword", name()), leaf("punct", "["), g.compound(depth+1, ctxNormal), leaf("punct", "]"))))
		} else {
			word(name())
		}
		sp()
		word("=")
		sp()
		arg()
	case 10: // del
		word("del")
		sp()
		if g.chance(50) {
			f.add(inner("compound", inner("indexing", leaf("bareword", name()), leaf("punct", "["), leaf("bareword", "k"), leaf("punct", "]"))))
		} else {
			word(name())
		}
	case 11: // and / or / coalesce
		word(g.pick("and", "or", "coalesce"))
		n := g.r.Intn(4)
		for i := 0; i < n; i++ {
			sp()
			arg()
		}
	case 12: // use / pragma
		if g.chance(60) {
			word("use")
			sp()
			word(g.pick("str", "math", "./lib", "../a/b", "github.com/foo/bar", "re"))
			if g.chance(20) {
				sp()
				word("alias")
			}
		} else {
			word("pragma")
			sp()
			word("unknown-command")
			sp()
			word("=")
			sp()
			word(g.pick("disallow", "external"))
		}
	default: // with
		word("with")
		sp()
		f.add(inner("list", leaf("punct", "["), leaf("bareword", name()), leaf("space", " "), leaf("bareword", "="), leaf("space", " "), g.compound(depth+1, ctxNormal), leaf("punct", "]")))
		sp()
		f.add(g.block(depth + 1))
	}
	return f
}

// ---- expressions ----------------------------------------------------------------

// compound generates one compound expression in the given context.
func (g *synGen) compound(depth int, ctx synCtx) *SynNode {
	g.budget--
	c := inner("compound")
	n := 1
	if g.chance(25) {
		n = 2 + g.r.Intn(2)
	}
	if g.budget <= 0 || depth > g.o.MaxDepth {
		c.add(g.simplePrimary(ctx, true))
		return c
	}
	if g.chance(6) && ctx != ctxCmd {
		// tilde only has a meaning at the very beginning
		c.add(leaf("tilde", "~"))
		if g.chance(70) {
			c.add(leaf("bareword", g.pick("/foo", "user/x", "/", "root", "/*.go")))
		}
		return c
	}
	for i := 0; i < n; i++ {
		c.add(g.indexing(depth, ctx, i == 0))
	}
	return c
}

// indexing generates a primary followed by zero or more [index] parts.
func (g *synGen) indexing(depth int, ctx synCtx, first bool) *SynNode {
	p := g.primary(depth, ctx, first)
	if !g.chance(12) || g.budget <= 0 {
		return p
	}
	in := inner("indexing", p)
	nidx := 1 + g.r.Intn(2)
	for i := 0; i < nidx; i++ {
		in.add(leaf("punct", "["))
		switch k := g.r.Intn(10); {
		case k < 4:
			in.add(leaf("bareword", g.pick("0", "-1", "1..", "..2", "1..=3", "k", "..")))
		case k < 5:
			// empty index list
		case k < 7:
			in.add(g.wideSpace(false), g.compound(depth+1, ctxNormal), g.wideSpace(true), g.compound(depth+1, ctxNormal), g.wideSpace(false))
		default:
			in.add(g.compound(depth+1, ctxNormal))
		}
		in.add(leaf("punct", "]"))
	}
	return in
}

var synBarewords = []string{"a", "foo", "bar.txt", "1", "-1", "0x1F", "1e3", "3/4", "1.5", "+inf", "NaN", "a-b_c", "x:y", "/usr/bin", "..", "a@b.c", "100%", "C:\\x", "!", "好", "世界", "é", "Ω", "a~", "--long", "-s", "++"}

func (g *synGen) bareword(ctx synCtx) *SynNode {
	s := g.pick(synBarewords...)
	if g.o.ASCIIOnly && !isASCII(s) {
		s = "w"
	}
	switch {
	case g.chance(6) && ctx != ctxKey:
		s += g.pick("=", "=b", "==")
	case g.chance(6) && ctx != ctxBraced:
		s += g.pick(",", ",c")
	case g.chance(15) && ctx == ctxCmd:
		s += g.pick("<", ">", "*", "^", "^x")
	case g.chance(2) && g.o.InvalidUTF8:
		s += g.pick("\xff", "\xe4\xb8", "\x80a")
	}
	return leaf("bareword", s)
}

func isASCII(s string) bool {
	for i := 0; i < len(s); i++ {
		if s[i] >= 0x80 {
			return false
		}
	}
	return true
}

var synSingle = []string{"", "a", "a b", "it''s", "''", "$x * ? ( ) [ ] { } < > ; | & # ^", "line1\nline2", "tab\there", "\\n", "\"", "好 😀", "~", "a''''b", "\r\n"}

var synDoubleParts = []string{"a", " ", "b c", "\\n", "\\t", "\\\\", "\\\"", "\\a", "\\b", "\\e", "\\f", "\\r", "\\v", "\\x41", "\\xff", "\\x00", "\\101", "\\377", "\\000", "\\u00e9", "\\u597d", "\\uFFFD", "\\U0001F600", "\\U0010ffff", "\\^I", "\\^?", "\\^@", "\\^_", "\\cA", "\\c[", "'", "$x", "#", "^", "\n", "好", "😀", "{|}", "é"}

func (g *synGen) quoted() *SynNode {
	if g.chance(50) {
		s := g.pick(synSingle...)
		if g.o.ASCIIOnly && !isASCII(s) {
			s = "q"
		}
		if g.o.InvalidUTF8 && g.chance(20) {
			s += g.pick("\xff", "\xc0\x80", "\xe4\xb8", "\xed\xa0\x80", "\xf0\x9f")
		}
		return leaf("squote", "'"+s+"'")
	}
	var sb strings.Builder
	sb.WriteByte('"')
	for n := g.r.Intn(5); n > 0; n-- {
		p := g.pick(synDoubleParts...)
		if g.o.ASCIIOnly && !isASCII(p) {
			p = "d"
		}
		sb.WriteString(p)
	}
	if g.o.InvalidUTF8 && g.chance(20) {
		sb.WriteString(g.pick("\xff", "\xc0\x80", "\xe4\xb8", "\xed\xa0\x80", "\xf0\x9f"))
	}
	sb.WriteByte('"')
	return leaf("dquote", sb.String())
}

var synVars = []string{"x", "foo", "a-b", "_", "-", "x~", "ns:x", "ns:sub:f~", "e:ls~", "E:HOME", "@x", "@rest", "好", "true", "nil", "args", "1", "pid", "edit:prompt", "x:"}

func (g *synGen) variable() *SynNode {
	switch k := g.r.Intn(20); {
	case k < 16:
		s := g.pick(synVars...)
		if g.o.ASCIIOnly && !isASCII(s) {
			s = "u"
		}
		return leaf("var", "$"+s)
	case k < 18:
		return leaf("var", "$"+g.pick("'a b'", "'it''s'", "'a/b'", "''", "'$'"))
	default:
		return leaf("var", "$"+g.pick("\"a b\"", "\"\\n\"", "\"\\x41\"", "\"a\\\"b\""))
	}
}

// simplePrimary returns a leaf primary. first says whether it is the first
// part of its compound.
func (g *synGen) simplePrimary(ctx synCtx, first bool) *SynNode {
	switch k := g.r.Intn(20); {
	case k < 9:
		return g.bareword(ctx)
	case k < 13:
		return g.quoted()
	case k < 18:
		return g.variable()
	default:
		return leaf("wildcard", g.pick("*", "**", "?", "*", "***"))
	}
}

func (g *synGen) primary(depth int, ctx synCtx, first bool) *SynNode {
	if g.budget <= 0 || depth >= g.o.MaxDepth || g.chance(62) {
		return g.simplePrimary(ctx, first)
	}
	k := g.r.Intn(20)
	// A '[' directly after another primary would be an index, so list and
	// map literals only start a compound.
	if !first && k >= 8 && k < 14 {
		k = g.r.Intn(8)
	}
	switch {
	case k < 3:
		return g.outputCapture(depth)
	case k < 4:
		return g.exceptionCapture(depth)
	case k < 6:
		return g.braced(depth)
	case k < 8:
		return g.lambda(depth)
	case k < 11:
		return g.list(depth)
	case k < 14:
		return g.mapLit(depth)
	case k < 17:
		return g.lambda(depth)
	default:
		return g.outputCapture(depth)
	}
}

func (g *synGen) innerChunk(depth int) *SynNode {
	n := 1
	switch k := g.r.Intn(10); {
	case k < 1:
		n = 0
	case k < 8:
		n = 1
	default:
		n = 2 + g.r.Intn(2)
	}
	if g.budget <= 0 {
		n = g.r.Intn(2)
	}
	return g.chunk(depth, n, false)
}

func (g *synGen) outputCapture(depth int) *SynNode {
	n := inner("outcap", leaf("punct", "("))
	if g.chance(20) {
		n.add(g.wideSpace(true))
	}
	n.add(g.innerChunk(depth + 1))
	if g.chance(20) {
		n.add(g.wideSpace(true))
	}
	n.add(leaf("punct", ")"))
	return n
}

func (g *synGen) exceptionCapture(depth int) *SynNode {
	n := inner("exccap", leaf("punct", "?("))
	n.add(g.innerChunk(depth + 1))
	n.add(leaf("punct", ")"))
	return n
}

func (g *synGen) list(depth int) *SynNode {
	n := inner("list", leaf("punct", "["))
	cnt := g.r.Intn(4)
	n.add(g.wideSpace(false))
	for i := 0; i < cnt; i++ {
		n.add(g.compound(depth+1, ctxNormal))
		if i < cnt-1 {
			n.add(g.wideSpace(true))
		}
	}
	n.add(g.wideSpace(false))
	n.add(leaf("punct", "]"))
	return n
}

func (g *synGen) mapLit(depth int) *SynNode {
	n := inner("map", leaf("punct", "["))
	cnt := g.r.Intn(4)
	n.add(g.wideSpace(false))
	if cnt == 0 {
		n.add(leaf("punct", "&"))
		n.add(g.wideSpace(false))
	}
	for i := 0; i < cnt; i++ {
		p := inner("mappair", leaf("punct", "&"), g.key(depth+1))
		switch g.r.Intn(8) {
		case 0: // key only
		case 1:
			p.add(leaf("punct", "="))
		case 2:
			p.add(leaf("punct", "="), g.wideSpace(true), g.compound(depth+1, ctxNormal))
		default:
			p.add(leaf("punct", "="), g.compound(depth+1, ctxNormal))
		}
		n.add(p)
		if i < cnt-1 {
			n.add(g.wideSpace(true))
		}
	}
	n.add(g.wideSpace(false))
	n.add(leaf("punct", "]"))
	return n
}

func (g *synGen) lambda(depth int) *SynNode { return g.lambdaSig(depth, g.chance(45)) }

func (g *synGen) lambdaSig(depth int, sig bool) *SynNode {
	n := inner("lambda", leaf("punct", "{"))
	if sig {
		if g.chance(30) {
			n.add(g.wideSpace(true))
		}
		n.add(leaf("punct", "|"))
		n.add(g.wideSpace(false))
		cnt := g.r.Intn(4)
		for i := 0; i < cnt; i++ {
			switch k := g.r.Intn(10); {
			case k < 6:
				n.add(leaf("bareword", g.pick("a", "b", "x", "elem", "好", "f~", "_")))
			case k < 8 && i == cnt-1:
				n.add(leaf("bareword", g.pick("@rest", "@args", "@")))
			default:
				p := inner("mappair", leaf("punct", "&"), leaf("bareword", g.pick("opt", "k", "long-name")), leaf("punct", "="))
				if g.chance(80) {
					p.add(g.compound(depth+1, ctxNormal))
				}
				n.add(p)
			}
			if i < cnt-1 {
				n.add(g.wideSpace(true))
			} else {
				n.add(g.wideSpace(false))
			}
		}
		n.add(leaf("punct", "|"))
		n.add(g.wideSpace(false))
	} else {
		// a lambda without signature needs whitespace (or ;) right after {
		n.add(leaf("space", g.pick(" ", " ", " ", "\n", "\n  ", "\t", " \n")))
		if g.chance(5) {
			n.Kids[len(n.Kids)-1] = leaf("punct", ";")
		}
	}
	n.add(g.innerChunk(depth + 1))
	switch g.r.Intn(6) {
	case 0:
	case 1:
		n.add(leaf("newline", "\n"))
	case 2:
		n.add(leaf("punct", ";"), leaf("space", " "))
	default:
		n.add(leaf("space", " "))
	}
	n.add(leaf("punct", "}"))
	return n
}

func (g *synGen) braced(depth int) *SynNode {
	n := inner("braced", leaf("punct", "{"))
	cnt := g.r.Intn(4)
	for i := 0; i < cnt; i++ {
		if i == 0 && g.chance(8) {
			// empty first item: {,a}
		} else {
			n.add(g.compound(depth+1, ctxBraced))
		}
		if i < cnt-1 {
			switch g.r.Intn(6) {
			case 0:
				n.add(leaf("space", " "))
			case 1:
				n.add(leaf("punct", ","), leaf("space", " "))
			case 2:
				n.add(leaf("newline", "\n"), leaf("punct", ","), leaf("space", " "))
			case 3:
				n.add(leaf("space", " "), leaf("newline", "\n"), leaf("space", " "))
			default:
				n.add(leaf("punct", ","))
			}
		}
	}
	n.add(leaf("punct", "}"))
	return n
}

// ---- mutation ---------------------------------------------------------------

var synMeta = []string{"$", "*", "?", "(", ")", "[", "]", "{", "}", "<", ">", ";", "|", "&", "~", "=", ",", "^", "#", "'", "\"", "\\", " ", "\n", "\r", "\t", "?(", "[&", "{|", "^\n", ">&", "&-"}

var synInvalid = []string{"\xff", "\xc0\x80", "\xe4\xb8", "\xed\xa0\x80", "\xf0\x9f", "\x80", "\xfe", "\xf8\x88\x80\x80\x80"}

func synClass(c byte) int {
	switch {
	case c == ' ' || c == '\t' || c == '\n' || c == '\r':
		return 0
	case strings.IndexByte("$*?()[]{}<>;|&=,^#'\"", c) >= 0:
		return 1 + int(c)
	default:
		return 1
	}
}

// synTokens splits src into maximal runs: whitespace, one metacharacter,
// other text. (A lexical approximation; good enough for mutation.)
func synTokens(src string) []string {
	var out []string
	for i := 0; i < len(src); {
		j := i + 1
		cl := synClass(src[i])
		if cl <= 1 {
			for j < len(src) && synClass(src[j]) == cl {
				j++
			}
		}
		out = append(out, src[i:j])
		i = j
	}
	return out
}

// ElvMutate applies one mutation to src: truncate at a rune boundary, insert
// a metacharacter, insert an invalid UTF-8 sequence, delete / duplicate /
// swap lexical tokens, or replace a token by another token of the program.
func ElvMutate(r *rand.Rand, src string) string {
	if src == "" {
		return synMeta[r.Intn(len(synMeta))]
	}
	runeCut := func() int {
		i := r.Intn(len(src) + 1)
		for i > 0 && i < len(src) && !utf8.RuneStart(src[i]) {
			i--
		}
		return i
	}
	toks := synTokens(src)
	join := func(ts []string) string { return strings.Join(ts, "") }
	switch r.Intn(9) {
	case 0:
		return src[:runeCut()]
	case 1:
		i := runeCut()
		return src[:i] + synMeta[r.Intn(len(synMeta))] + src[i:]
	case 2:
		i := r.Intn(len(src) + 1)
		return src[:i] + synInvalid[r.Intn(len(synInvalid))] + src[i:]
	case 3: // delete a token
		i := r.Intn(len(toks))
		return join(toks[:i]) + join(toks[i+1:])
	case 4: // duplicate a token
		i := r.Intn(len(toks))
		return join(toks[:i+1]) + join(toks[i:])
	case 5: // swap two tokens
		i, j := r.Intn(len(toks)), r.Intn(len(toks))
		ts := append([]string(nil), toks...)
		ts[i], ts[j] = ts[j], ts[i]
		return join(ts)
	case 6: // replace a token by another one
		i, j := r.Intn(len(toks)), r.Intn(len(toks))
		ts := append([]string(nil), toks...)
		ts[i] = toks[j]
		return join(ts)
	case 7: // cut the head off (suffix)
		return src[runeCut():]
	default: // byte-level: overwrite one byte
		b := []byte(src)
		b[r.Intn(len(b))] = byte(r.Intn(256))
		return string(b)
	}
}

var _ = fmt.Sprint
