package gen

// Markdown generators for the pkg/md checks (C35, C36). Two styles:
//
//   - MdDoc: grammar-based documents (containers, leaf blocks, inline
//     constructs) including deliberately awkward but well-defined shapes
//     (lazy continuation, under-indented list content, unbalanced delimiter
//     runs, nested parentheses in destinations, ...).
//   - MdSoup: lines assembled from a Markdown-flavoured token alphabet.
//
// Neither generator knows the expected rendering; they are used with
// differential and metamorphic oracles. MdInSubset is the textual guard that
// keeps a document inside the part of CommonMark that pkg/md documents as
// supported and that is identical in CommonMark 0.30 and 0.31.2.

import (
	"math/rand"
	"regexp"
	"strings"
	"unicode"
)

func pick(r *rand.Rand, xs ...string) string { return xs[r.Intn(len(xs))] }

var mdWords = []string{"a", "b", "foo", "bar", "baz", "x1", "Qux", "hello", "world", "é", "好", "ß9", "it", "1", "42", "2024", "I", "see"}

var mdPunct = []string{".", ",", ";", ":", "!", "?", "(", ")", "'", "\"", "-", "+", "=", "/", "|", "~", "^", "$", "%", "@", "#", "{", "}"}

func mdWord(r *rand.Rand) string { return mdWords[r.Intn(len(mdWords))] }

// mdDest returns a link destination (without the surrounding parentheses).
func mdDest(r *rand.Rand) string {
	base := pick(r, "/url", "http://a.b/c", "x", "#frag", "a/b.html", "mailto:x@y.z", "u?q=1", "", "/p_q-r~s")
	switch r.Intn(14) {
	case 0:
		return base + "(" + mdWord(r) + ")"
	case 1:
		return base + "(a(b)c)"
	case 2:
		return base + "\\(" + mdWord(r)
	case 3:
		return base + "\\)" // escaped closer
	case 4:
		return "<" + base + " " + mdWord(r) + ">"
	case 5:
		return "<" + base + ">"
	case 6:
		return base + "&amp;" + mdWord(r)
	case 7:
		return base + "&" + mdWord(r) + "=1"
	case 8:
		return base + "&#35;x"
	case 9:
		return base + "(" + mdWord(r) // unbalanced: not a link
	case 10:
		return "<" + base + "\\>" + mdWord(r) + ">"
	case 11:
		return base + "\\*" + "\\a"
	}
	return base
}

func mdTitle(r *rand.Rand) string {
	t := pick(r, "t", "my title", "a&amp;b", "q\\\"q", "it's", "(p)", "x&#65;", "two\nlines", "*s*", "")
	switch r.Intn(4) {
	case 0:
		return "\"" + strings.ReplaceAll(t, "\"", "") + "\""
	case 1:
		return "'" + strings.ReplaceAll(t, "'", "") + "'"
	case 2:
		return "(" + strings.NewReplacer("(", "", ")", "").Replace(t) + ")"
	}
	return "\"" + t + "\"" // may be malformed on purpose
}

func mdLinkTail(r *rand.Rand) string {
	d := mdDest(r)
	sp := pick(r, "", "", "", " ", "  ")
	if r.Intn(3) == 0 && d != "" {
		return "(" + sp + d + pick(r, " ", "  ", "\n") + mdTitle(r) + sp + ")"
	}
	return "(" + sp + d + sp + ")"
}

var mdEntities = []string{"&amp;", "&lt;", "&gt;", "&apos;", "&nbsp;", "&NewLine;", "&Tab;",
	"&#0;", "&#x0;", "&#35;", "&#x41;", "&#X3c;", "&#42;", "&#95;", "&#96;", "&#91;", "&#32;", "&#10;", "&#1234;", "&#x10FFFF;",
	"&#xD800;", "&#1114112;", "&#9999999;", "&#xFFFFFF;",
	"&#12345678;", "&#;", "&#x;", "&#xg;", "&amp", "&", "& ", "&xyzzy;", "&a1b2;", "&#35", "&#x41"}

var mdRawHTML = []string{"<b>", "</b>", "<a href=\"x\">", "<br/>", "<br />", "<x y='1' z=2>", "<i class=\"c d\">", "</i >",
	"<?pi x?>", "<!-- c -->", "<!-- two words -->", "<![CDATA[x&y]]>", "<!DOCTYPE x>", "<a  b\n c>",
	"<33>", "<a h*#ref=\"hi\">", "< a>", "<a href='x\"y>", "<a/", "<>", "</>", "<b", "<a href=\"x\"title=\"y\">", "<del>"}

var mdAutolinks = []string{"<http://a.b/c?d=e&f>", "<https://x.y>", "<mailto:x@y.z>", "<x@y.z>", "<a+b:c>", "<m:abc>",
	"<http://a b>", "<h:x>", "<x.y+z@a-b.c>", "<http://a.b/%20&amp;>", "<http://a.b/*_c_*>", "<foo.bar.baz>", "<ftp://x\\y>", "<x@y_z.a>"}

// MdInlineOpts restricts inline generation.
type mdCtx struct {
	inLink  bool
	heading bool // no braces, no newlines
	depth   int
}

// mdInline returns inline content of roughly n atoms. It may contain "\n"
// unless ctx.heading.
func mdInline(r *rand.Rand, n int, ctx mdCtx) string {
	var sb strings.Builder
	for i := 0; i < n; i++ {
		if i > 0 {
			switch r.Intn(10) {
			case 0, 1, 2, 3, 4, 5:
				sb.WriteByte(' ')
			case 6:
				if !ctx.heading {
					sb.WriteString(pick(r, "\n", "\n", "  \n", "\\\n", " \n", "\n ", "\n  ", "   \n   "))
				} else {
					sb.WriteByte(' ')
				}
			case 7:
				sb.WriteString("  ")
			}
		}
		sb.WriteString(mdAtom(r, ctx))
	}
	return sb.String()
}

func mdAtom(r *rand.Rand, ctx mdCtx) string {
	sub := ctx
	sub.depth++
	k := r.Intn(40)
	if ctx.depth >= 3 && k >= 12 && k < 24 {
		k = r.Intn(12)
	}
	switch k {
	case 0, 1, 2, 3, 4, 5:
		return mdWord(r)
	case 6:
		p := mdPunct[r.Intn(len(mdPunct))]
		if ctx.heading && (p == "{" || p == "}") {
			p = "."
		}
		return p
	case 7:
		return mdWord(r) + mdPunct[r.Intn(12)]
	case 8:
		return mdEntities[r.Intn(len(mdEntities))]
	case 9:
		return pick(r, "\\*", "\\_", "\\\\", "\\[", "\\]", "\\<", "\\&amp;", "\\a", "\\`", "\\#", "\\>", "\\-", "\\!", "\\(", "\\ ", "\\")
	case 10:
		return mdRawHTML[r.Intn(len(mdRawHTML))]
	case 11:
		return mdAutolinks[r.Intn(len(mdAutolinks))]
	case 12, 13, 14: // well-formed emphasis
		d := pick(r, "*", "_", "**", "__", "***", "___", "*", "**")
		return d + mdInline(r, 1+r.Intn(3), sub) + d
	case 15: // emphasis glued to words / punctuation
		d := pick(r, "*", "_", "**", "__")
		return pick(r, "", mdWord(r), "(", "\"", ".") + d + mdInline(r, 1+r.Intn(2), sub) + d + pick(r, "", mdWord(r), ")", "\"", ".", "!")
	case 16: // unbalanced / rule-of-three shapes
		return pick(r,
			"**a*", "*a**", "*a**b*", "**a*b**", "*foo**bar**baz*", "*foo**bar*", "***a**b*", "***a*b**", "*a _b* c_", "_a *b_ c*",
			"**a**b**", "*a*b*", "__a__b__", "_a_b_", "a*b*c", "a_b_c", "a**b**c", "a__b__c", "*a *b", "** a**", "**a **", "_ a_", "*(*a*)*",
			"_(_a_)_", "*a**", "****a****", "*****a*****", "*a**b***c****", "__a*b__*", "*[a*](u)", "*`a*`", "**<b c=\"**\">", "*a\n*", "_a\n_b_", "*a_", "_a*",
			"a***b", "a___b", "*_*a*_*", "_*_a_*_", "**_a_**", "__*a*__", "***a***b", "*a*_b_", "*a***b**", "**a***b*")
	case 17, 18: // code spans
		c := pick(r, "x", "a b", " a ", "  ", " ", "a`b", "``", "&amp;", "\\*", "*a*", "<b>", "[x](y)", "a\nb", " `x` ", "a  b", "`")
		d := pick(r, "`", "`", "``", "```")
		if strings.Contains(c, "`") && d == "`" {
			d = "``"
		}
		return d + c + d
	case 19: // unmatched backticks
		return pick(r, "`a", "a`", "``a`", "`a``", "```", "`a``b`", "``a`b``c`")
	case 20, 21, 22: // links
		if ctx.inLink && r.Intn(8) > 0 {
			return mdWord(r)
		}
		in := sub
		in.inLink = true
		return "[" + mdInline(r, 1+r.Intn(3), in) + "]" + mdLinkTail(r)
	case 23: // images
		if ctx.inLink && r.Intn(4) > 0 {
			return mdWord(r)
		}
		in := sub
		in.inLink = true
		return "![" + mdInline(r, r.Intn(3), in) + "]" + mdLinkTail(r)
	case 24: // broken link shapes (no reference definitions exist, so these are text)
		return pick(r, "[a]", "[a] (b)", "[a](b", "[a]()", "[](x)", "[a](<b)", "[a](b c)", "[[a](b)](c)", "![[a](b)](c)", "[![a](b)](c)",
			"[a](b \"t)", "[a](b 't' x)", "[a][b]", "[a][]", "![a]", "[a\\](b)", "\\[a](b)", "!\\[a](b)", "[a](\\(b)", "[a](b\\))", "[a]](b)", "[a [b](c)", "] [", "[a]((b))", "[a](b(c)", "[*a](b)*", "*[a*](b)", "[`a](b)`", "[<a href=\"](b)\">", "[a](<b>c)", "[a](\"t\")", "[a](\n b \n)")
	case 25:
		return mdWord(r) + pick(r, "*", "_", "**", "`", "!", "<", ">", "&", "\\", "]", "*", "_") + mdWord(r)
	case 26:
		return pick(r, "1.", "2)", "-", "+", "*", ">", "#", "##", "```", "~~~", "***", "___", "- - -", "<div>", "</p>", "10.", "1.a", "-a", "#a")
	}
	return mdWord(r)
}

type mdLine struct {
	s    string
	lazy bool // a paragraph continuation line: container prefixes may be omitted
}

func mdPara(r *rand.Rand) []mdLine {
	txt := mdInline(r, 1+r.Intn(7), mdCtx{})
	lines := strings.Split(txt, "\n")
	out := make([]mdLine, 0, len(lines))
	for i, l := range lines {
		if strings.TrimSpace(l) == "" {
			// a blank line would end the paragraph; keep the text one paragraph
			l = mdWord(r)
		}
		if i == 0 {
			l = pick(r, "", "", "", "", " ", "  ", "   ") + l
		}
		out = append(out, mdLine{l, i > 0})
	}
	return out
}

func mdLeaf(r *rand.Rand, afterBlank bool) []mdLine {
	ind := pick(r, "", "", "", " ", "  ", "   ")
	switch r.Intn(16) {
	case 0, 1, 2, 3, 4, 5:
		return mdPara(r)
	case 6, 7: // ATX heading
		h := strings.Repeat("#", 1+r.Intn(6))
		if r.Intn(12) == 0 {
			h = "#######"
		}
		c := mdInline(r, r.Intn(4), mdCtx{heading: true})
		c = strings.NewReplacer("{", "(", "}", ")").Replace(c)
		closer := pick(r, "", "", "", " #", " ##", " ###   ", "#", " \\#", " # #")
		sep := pick(r, " ", " ", " ", "  ", "")
		if c == "" {
			sep = pick(r, "", " ")
		}
		return []mdLine{{ind + h + sep + c + closer, false}}
	case 8: // thematic break
		hr := pick(r, "***", "___", "* * *", "_ _ _", "- - -", "*****", " **  * ** * ** * **", "_____________", "- - - -", "**", "__", "*-*", "+++")
		if afterBlank && r.Intn(3) == 0 {
			hr = pick(r, "---", "----", "--- ", "--")
		}
		return []mdLine{{ind + hr, false}}
	case 9, 10: // fenced code
		f := pick(r, "```", "```", "~~~", "````", "~~~~")
		info := pick(r, "", "", "go", " elvish", "sh extra words", "a&amp;b", "x\\*y", "é", "&#35;", "~", "a~b")
		if f[0] == '`' {
			info = strings.ReplaceAll(info, "`", "")
		}
		n := r.Intn(4)
		out := []mdLine{{ind + f + info, false}}
		for i := 0; i < n; i++ {
			out = append(out, mdLine{pick(r, "", "", " ", "  ", "    ", "     ") + pick(r, "code", "x", "*a*", "<b>", "&amp;", "``", "~~", "# x", "- y", "> z", "    deep", "a  ", "\\n", f[:2], f+"x"), false})
		}
		switch r.Intn(6) {
		case 0: // unclosed: runs to the end of the container
		case 1:
			out = append(out, mdLine{pick(r, "", " ", "   ") + f + string(f[0]) + pick(r, "", "  "), false})
		default:
			out = append(out, mdLine{pick(r, "", "", "  ") + f, false})
		}
		return out
	case 11: // indented code
		n := 1 + r.Intn(3)
		var out []mdLine
		for i := 0; i < n; i++ {
			if i > 0 && r.Intn(4) == 0 {
				out = append(out, mdLine{pick(r, "", "", "", "      "), false})
			}
			out = append(out, mdLine{pick(r, "    ", "    ", "     ", "      ") + pick(r, "code", "*a*", "<b> &amp;", "- x", "> y", "# z", "`q`", "a  "), false})
		}
		return out
	case 12, 13: // HTML blocks
		switch r.Intn(10) {
		case 0:
			return []mdLine{{ind + "<pre>", false}, {"*a*", false}, {"", false}, {"b</pre> *c*", false}}
		case 1:
			return []mdLine{{ind + "<!-- c" + pick(r, " -->", " d -->*e*", " -->\n*f*"), false}}
		case 2:
			return []mdLine{{ind + "<?php", false}, {"echo '>';", false}, {"?>", false}}
		case 3:
			return []mdLine{{ind + "<!DOCTYPE html>", false}}
		case 4:
			return []mdLine{{ind + "<![CDATA[", false}, {"*x*", false}, {"]]>", false}}
		case 5:
			return []mdLine{{ind + pick(r, "<div>", "<DIV class=\"a\">", "</div>", "<table>", "<p>", "<h1>", "<hr/>", "<div", "<ul", "<details>"), false}, {pick(r, "*a*", "b", "<b>", "  c"), false}}
		case 6:
			return []mdLine{{ind + pick(r, "<a href=\"x\">", "<span class=\"y\">", "</span>", "<b>", "<del>", "<x-y z='1'>", "<preface>", "</style>", "</pre>", "<styled>", "<prev a=\"b\">") + pick(r, "", "", " ", " t"), false}, {pick(r, "*a*", "b"), false}}
		case 7:
			return []mdLine{{ind + pick(r, "<script>", "<style>", "<textarea>"), false}, {"x = '*y*'", false}, {"", false}, {pick(r, "</script>", "</style>", "y</textarea >z", "</pre>"), false}}
		case 8:
			return []mdLine{{ind + "<div>*a*</div>", false}}
		default:
			return []mdLine{{ind + "<div>", false}, {"", false}, {"*a*", false}, {"", false}, {"</div>", false}}
		}
	case 14: // text that looks like a block start
		return []mdLine{{ind + pick(r, "#a", "#######  b", "1.a", "-a", "+", "-", "1)", "2.", "> ", ">", "10000000000. x", "``` `", "~~~ ~", "\\# h", "\\- i", "1\\. j", "\\> k", "&#35; l", "    "+mdWord(r)) + pick(r, "", " "+mdWord(r)), false}}
	}
	return mdPara(r)
}

var bulletMarkers = []string{"-", "-", "*", "+"}

// mdBlocks renders a sequence of blocks at the given nesting depth.
func mdBlocks(r *rand.Rand, n, depth, maxDepth int) []mdLine {
	var out []mdLine
	afterBlank := true
	for i := 0; i < n; i++ {
		if i > 0 {
			switch r.Intn(8) {
			case 0: // no separation: interruption cases
				afterBlank = false
			case 1:
				out = append(out, mdLine{"", false}, mdLine{pick(r, "", "", "", "", " ", "  "), false})
				afterBlank = true
			default:
				out = append(out, mdLine{pick(r, "", "", "", "", "", "", "", "", "", "", " ", "    "), false})
				afterBlank = true
			}
		}
		k := r.Intn(10)
		if depth >= maxDepth {
			k = 0
		}
		switch k {
		case 6, 7: // block quote
			inner := mdBlocks(r, 1+r.Intn(3), depth+1, maxDepth)
			pre := pick(r, "> ", "> ", ">", " > ", "   >  ", ">  ")
			for j, l := range inner {
				switch {
				case l.lazy && r.Intn(3) == 0:
					out = append(out, mdLine{l.s, true})
				case strings.TrimSpace(l.s) == "" && j > 0 && r.Intn(6) == 0:
					out = append(out, mdLine{"", false}) // ends the quote
				default:
					p := pre
					if r.Intn(5) == 0 {
						p = pick(r, "> ", ">", " > ")
					}
					out = append(out, mdLine{p + l.s, l.lazy})
				}
			}
		case 8, 9: // list
			ordered := r.Intn(3) == 0
			items := 1 + r.Intn(3)
			bullet := bulletMarkers[r.Intn(len(bulletMarkers))]
			num := []int{1, 1, 1, 0, 2, 7, 10, 123456789, 3}[r.Intn(9)]
			delim := pick(r, ".", ".", ")")
			loose := r.Intn(2) == 0
			lead := pick(r, "", "", "", " ", "  ", "   ")
			for it := 0; it < items; it++ {
				if it > 0 && loose {
					out = append(out, mdLine{"", false})
				}
				marker := bullet
				if ordered {
					marker = itoa(num+it) + delim
				}
				if r.Intn(10) == 0 { // change of marker: starts a new list
					marker = pick(r, "-", "*", "+", "1.", "1)")
				}
				space := pick(r, " ", " ", " ", "  ", "   ", "    ", "     ")
				inner := mdBlocks(r, 1+r.Intn(2), depth+1, maxDepth)
				if r.Intn(12) == 0 { // item starting with a blank line
					inner = append([]mdLine{{"", false}}, inner...)
					space = pick(r, "", " ")
				}
				width := len(lead) + len(marker) + len(space)
				if len(space) >= 5 {
					width = len(lead) + len(marker) + 1
				}
				if strings.TrimSpace(inner[0].s) == "" {
					width = len(lead) + len(marker) + 1
				}
				cont := strings.Repeat(" ", width)
				for j, l := range inner {
					switch {
					case j == 0:
						out = append(out, mdLine{lead + marker + space + l.s, false})
						if strings.TrimSpace(l.s) == "" {
							out[len(out)-1].s = strings.TrimRight(lead+marker+space, " ") + pick(r, "", " ")
						}
					case l.lazy && r.Intn(4) == 0:
						out = append(out, mdLine{l.s, true})
					case strings.TrimSpace(l.s) == "":
						out = append(out, mdLine{pick(r, "", "", "", "", cont), false})
					case r.Intn(14) == 0 && width > 1: // under-indented by one
						out = append(out, mdLine{cont[1:] + l.s, l.lazy})
					case r.Intn(20) == 0: // over-indented by one
						out = append(out, mdLine{cont + " " + l.s, l.lazy})
					default:
						out = append(out, mdLine{cont + l.s, l.lazy})
					}
				}
			}
		default:
			out = append(out, mdLeaf(r, afterBlank)...)
		}
	}
	return out
}

func itoa(n int) string {
	if n == 0 {
		return "0"
	}
	var b []byte
	for n > 0 {
		b = append([]byte{byte('0' + n%10)}, b...)
		n /= 10
	}
	return string(b)
}

// MdDoc returns a grammar-generated Markdown document with at most maxBlocks
// top-level blocks and container nesting up to maxDepth.
func MdDoc(r *rand.Rand, maxBlocks, maxDepth int) string {
	lines := mdBlocks(r, 1+r.Intn(maxBlocks), 0, maxDepth)
	var sb strings.Builder
	for i, l := range lines {
		sb.WriteString(l.s)
		if i < len(lines)-1 || r.Intn(4) > 0 {
			sb.WriteByte('\n')
		}
	}
	return sb.String()
}

// MdInlineDoc returns a single paragraph of inline constructs.
func MdInlineDoc(r *rand.Rand, atoms int) string {
	return mdInline(r, 1+r.Intn(atoms), mdCtx{}) + "\n"
}

var soupLineStarts = []string{"", "", "", "", "> ", ">", "- ", "* ", "+ ", "1. ", "2) ", "10. ", "# ", "## ", "###### ", "    ", "  ", "   ", " ",
	"```", "~~~", "***", "___", "<div>", "</div>", "<!-- c -->", "<b>", "-", "1.", ">>", "> - ", "- > ", "1. - ", "  - ", "    - ", "   > "}

var soupTokens = []string{"*", "_", "**", "__", "***", "`", "``", "[", "]", "(", ")", "![", "](", "](/u)", "](/u \"t\")", "<", ">", "\\", "&", "!", "#",
	" ", " ", " ", " ", "  ", "a", "b", "foo", "é", "好", "1", ".", ",", "\"", "'", "-", "+", "=", "~", ":", "/", "&amp;", "&#42;", "&lt;", "\\*", "\\_", "\\[", "\\`", "\\\\",
	"<b>", "</b>", "<a href=\"u\">", "<http://u.v>", "<x@y.z>", "<!-- c -->", "<?p?>", "a*", "*a", "_a", "a_", "`a`", "[a](b)", "![a](b)", "*a*", "_a_", "**a**", "(b)", "(<b c>)"}

// MdSoup returns lines assembled from a Markdown token alphabet.
func MdSoup(r *rand.Rand, maxLines, maxTokens int) string {
	n := 1 + r.Intn(maxLines)
	var sb strings.Builder
	for i := 0; i < n; i++ {
		if r.Intn(6) == 0 {
			sb.WriteString(pick(r, "", "", " ", ">"))
			sb.WriteByte('\n')
			continue
		}
		sb.WriteString(soupLineStarts[r.Intn(len(soupLineStarts))])
		k := r.Intn(maxTokens + 1)
		for j := 0; j < k; j++ {
			sb.WriteString(soupTokens[r.Intn(len(soupTokens))])
		}
		if r.Intn(10) == 0 {
			sb.WriteString(pick(r, "  ", "\\", " "))
		}
		if i < n-1 || r.Intn(3) > 0 {
			sb.WriteByte('\n')
		}
	}
	return sb.String()
}

var (
	mdContainerPrefix = regexp.MustCompile(`^(?:[ >]|[-+*](?: |$)|[0-9]{1,9}[.)](?: |$))*`)
	mdSetextLike      = regexp.MustCompile(`^(?:=+|-+) *$`)
	mdBlankish        = regexp.MustCompile(`^[ >]*$`)
	mdNamedEntity     = regexp.MustCompile(`&([a-zA-Z][a-zA-Z0-9]*);`)
	mdHeadingAttr     = regexp.MustCompile(`#.*\}[ #]*$`)
	mdSafeComment     = regexp.MustCompile(`^<!-- [a-zA-Z0-9. ]*-->`)
	mdVersionTags     = regexp.MustCompile(`(?i)</?(?:search|source)|</textarea`)
	mdOKEntities      = map[string]bool{"lt": true, "gt": true, "amp": true, "apos": true, "nbsp": true, "Tab": true, "NewLine": true, "xyzzy": true, "a1b2": true}
)

// MdInSubset reports (as an empty string) that s stays inside the part of
// CommonMark that pkg/md documents as supported and that did not change
// between CommonMark 0.30 and 0.31.2; otherwise it names the reason. The
// test is textual and deliberately over-approximates the exclusions.
func MdInSubset(s string) string {
	for _, c := range s {
		switch {
		case c == '\t' || c == '\r':
			return "tab-or-cr"
		case c < 0x20 && c != '\n' || c == 0x7f:
			return "control-char"
		case c >= 0x80 && !unicode.IsLetter(c):
			return "non-ascii-non-letter" // 0.31 changed the Unicode punctuation class
		}
	}
	if strings.Contains(s, "]:") {
		return "link-reference-definition-shape"
	}
	for _, m := range mdNamedEntity.FindAllStringSubmatch(s, -1) {
		if !mdOKEntities[m[1]] {
			return "named-entity"
		}
	}
	if mdVersionTags.MatchString(s) {
		return "html-tag-changed-in-0.31"
	}
	for i := 0; ; {
		j := strings.Index(s[i:], "<!-")
		if j < 0 {
			break
		}
		if !mdSafeComment.MatchString(s[i+j:]) {
			return "html-comment-shape"
		}
		i += j + 3
	}
	lines := strings.Split(s, "\n")
	for i, l := range lines {
		if mdHeadingAttr.MatchString(l) {
			return "heading-attribute-extension"
		}
		body := l[len(mdContainerPrefix.FindString(l)):]
		if mdSetextLike.MatchString(body) || mdSetextLike.MatchString(strings.TrimLeft(l, " >")) {
			if i > 0 && !mdBlankish.MatchString(lines[i-1]) {
				return "setext-underline-shape"
			}
		}
	}
	return ""
}
