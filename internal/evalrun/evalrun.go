// Package evalrun runs Elvish programs on a real eval.Evaler under a
// monitor: the evaluation happens on its own goroutine, with an interrupt
// context, capped capture ports and a watcher that classifies an evaluation
// that does not come back (definitive hang / all goroutines blocked / still
// running). It is shared by the checks C17, C40 and C42.
//
// Panics on the evaluation goroutine are caught *and reported* (Outcome.Panic
// with the stack and a signature in the framework's format); they are never
// swallowed. Panics on other goroutines kill the process and are attributed
// by the framework's journal.
package evalrun

import (
	"context"
	"fmt"
	"io"
	"os"
	"regexp"
	"runtime"
	"runtime/debug"
	"sort"
	"strconv"
	"strings"
	"sync"
	"sync/atomic"
	"time"

	"src.elv.sh/pkg/eval"
	"src.elv.sh/pkg/parse"
)

// Limits bound what one evaluation may produce / how long it may take.
type Limits struct {
	MaxValues int           // capture cancels the evaluation after this many values
	MaxBytes  int           // ... or this many bytes
	Deadline  time.Duration // the interrupt context is cancelled after this long
	Grace     time.Duration // extra time after the cancel before the evaluation is given up
}

// DefaultLimits are suitable for small generated programs.
var DefaultLimits = Limits{MaxValues: 10000, MaxBytes: 1 << 20, Deadline: 1500 * time.Millisecond, Grace: 1500 * time.Millisecond}

// Outcome is everything observed about one evaluation.
type Outcome struct {
	Err    error
	Values []any
	Bytes  []byte
	// Values2 / Bytes2: what was written to port 2.
	Values2 []any
	Bytes2  []byte

	Capped    bool // the capture limit was hit and the evaluation was cancelled
	TimedOut  bool // the deadline cancelled the evaluation (it still returned)
	Panic     any  // non-nil: the evaluation goroutine panicked
	PanicSig  string
	Stack     string
	Abandoned bool   // the evaluation never returned; see Hang*
	HangSig   string // non-empty: it is blocked for good (violation class)
	HangDump  string
	Running   bool // abandoned while some goroutine was still runnable (resource/time: inconclusive)
}

// Finished reports whether the evaluation came back by itself.
func (o *Outcome) Finished() bool { return !o.Abandoned && o.Panic == nil }

// ---------------------------------------------------------------------------
// signatures (same format as the framework uses for recovered panics)

var frameRe = regexp.MustCompile(`(?m)^(src\.elv\.sh/[^\s(]+(?:\([^)]*\))?[^\s(]*)\(`)

// InnermostFrame extracts the innermost src.elv.sh function from a stack.
func InnermostFrame(stack string) string {
	m := frameRe.FindStringSubmatch(stack)
	if m == nil {
		return "?"
	}
	return m[1]
}

var numRe = regexp.MustCompile(`0x[0-9a-f]+|\d+`)

// NormMsg normalises a panic message: first line, numbers replaced by N.
func NormMsg(s string) string {
	s = strings.SplitN(s, "\n", 2)[0]
	s = numRe.ReplaceAllString(s, "N")
	if len(s) > 120 {
		s = s[:120]
	}
	return s
}

// PanicSig builds "panic:<msg>@<innermost src.elv.sh frame>".
func PanicSig(r any, stack string) string {
	if k := strings.Index(stack, "panic("); k >= 0 {
		stack = stack[k:]
	}
	return "panic:" + NormMsg(fmt.Sprint(r)) + "@" + InnermostFrame(stack)
}

// ---------------------------------------------------------------------------
// goroutine dumps

// G is one goroutine of a dump.
type G struct {
	ID    int
	State string // e.g. "chan receive (nil chan)", "running", "IO wait"
	Text  string
	Elv   bool   // has a src.elv.sh frame
	Top   string // innermost src.elv.sh frame ("" if none)
}

var gHeadRe = regexp.MustCompile(`^goroutine (\d+) (?:gp=\S+ m=\S+ (?:mp=\S+ )?)?\[([^\]]*)\]`)

// Goroutines returns the parsed dump of all goroutines.
func Goroutines() []G {
	buf := make([]byte, 64<<10)
	for {
		n := runtime.Stack(buf, true)
		if n < len(buf) {
			buf = buf[:n]
			break
		}
		buf = make([]byte, 2*len(buf))
	}
	return ParseDump(string(buf))
}

// ParseDump parses the text form of a goroutine dump.
func ParseDump(dump string) []G {
	var gs []G
	for _, blk := range strings.Split(dump, "\n\n") {
		blk = strings.TrimLeft(blk, "\n")
		m := gHeadRe.FindStringSubmatch(blk)
		if m == nil {
			continue
		}
		id, _ := strconv.Atoi(m[1])
		st := m[2]
		// drop ", 3 minutes" and ", locked to thread"
		if k := strings.Index(st, ","); k >= 0 {
			st = st[:k]
		}
		g := G{ID: id, State: st, Text: blk}
		if fm := frameRe.FindStringSubmatch(blk); fm != nil {
			g.Elv = true
			g.Top = fm[1]
		}
		gs = append(gs, g)
	}
	return gs
}

// GoID returns the id of the calling goroutine.
func GoID() int {
	var buf [64]byte
	n := runtime.Stack(buf[:], false)
	m := gHeadRe.FindSubmatch(buf[:n])
	if m == nil {
		return -1
	}
	id, _ := strconv.Atoi(string(m[1]))
	return id
}

// ForeverBlocked reports whether the state can never be left.
func ForeverBlocked(state string) bool {
	return strings.Contains(state, "(nil chan)") || strings.Contains(state, "(no cases)")
}

// Live reports whether a goroutine in this state can make progress by itself.
func Live(state string) bool {
	switch {
	case strings.HasPrefix(state, "running"), strings.HasPrefix(state, "runnable"),
		strings.HasPrefix(state, "syscall"), strings.HasPrefix(state, "sleep"),
		strings.HasPrefix(state, "GC"), strings.HasPrefix(state, "timer"),
		strings.HasPrefix(state, "preempted"), strings.HasPrefix(state, "copystack"):
		return true
	}
	return false
}

// ---------------------------------------------------------------------------

// Runner owns one evaler and runs programs on it.
type Runner struct {
	// New builds a fresh evaler (called lazily and after every abnormal end).
	New    func() *eval.Evaler
	Limits Limits

	ev *eval.Evaler
	// goroutines given up in earlier evaluations; ignored by the hang analysis
	lost map[int]bool
	// Fresh counts how many evalers were built.
	Fresh int
	// IOWaitIsHang: every file an evaluation can read from is fed from inside
	// the evaluation (no outside writer exists), so an evaluation goroutine
	// that waits in a read while every other interpreter goroutine is blocked
	// is a deadlock as well.
	IOWaitIsHang bool
}

// Evaler returns the current evaler, building one if needed.
func (r *Runner) Evaler() *eval.Evaler {
	if r.ev == nil {
		r.ev = r.New()
		r.Fresh++
	}
	return r.ev
}

// Reset drops the current evaler.
func (r *Runner) Reset() { r.ev = nil }

// Cfg tunes one evaluation.
type Cfg struct {
	// Stdin, if non-nil, is used as port 0 (the caller owns it).
	Stdin *eval.Port
	// ExtraPorts are appended after port 2 (entries may be nil).
	ExtraPorts []*eval.Port
	// Global, if non-nil, is a private global namespace.
	Global *eval.Ns
	// Name of the source.
	Name string
	// OnStart, if set, is called with the function that interrupts this
	// evaluation, before the evaluation starts.
	OnStart func(cancel func())
}

type capture struct {
	mu     sync.Mutex
	values []any
	bytes  []byte
	capped atomic.Bool
}

func newCapturePort(lim Limits, cancel func(), capped *atomic.Bool) (*eval.Port, *capture, func(), error) {
	c := &capture{}
	port, done, err := eval.PipePort(
		func(ch <-chan any) {
			n := 0
			for v := range ch {
				n++
				if n <= lim.MaxValues {
					c.mu.Lock()
					c.values = append(c.values, v)
					c.mu.Unlock()
				} else if n == lim.MaxValues+1 {
					capped.Store(true)
					cancel()
				}
			}
		},
		func(r *os.File) {
			buf := make([]byte, 4<<10)
			total := 0
			for {
				n, err := r.Read(buf)
				if n > 0 {
					if total < lim.MaxBytes {
						c.mu.Lock()
						c.bytes = append(c.bytes, buf[:n]...)
						c.mu.Unlock()
					}
					total += n
					if total >= lim.MaxBytes && !capped.Load() {
						capped.Store(true)
						cancel()
					}
				}
				if err != nil {
					if err != io.EOF {
						_ = err
					}
					return
				}
			}
		})
	return port, c, done, err
}

// Run evaluates code and returns what happened. It never blocks for longer
// than Deadline+Grace plus the settle time of the hang analysis.
func (r *Runner) Run(code string, cfg Cfg) *Outcome {
	lim := r.Limits
	if lim.Deadline == 0 {
		lim = DefaultLimits
	}
	ev := r.Evaler()
	out := &Outcome{}
	ctx, cancel := context.WithCancel(context.Background())
	defer cancel()
	var capped atomic.Bool
	p1, c1, done1, err := newCapturePort(lim, cancel, &capped)
	if err != nil {
		out.Err = err
		return out
	}
	p2, c2, done2, err := newCapturePort(lim, cancel, &capped)
	if err != nil {
		done1()
		out.Err = err
		return out
	}
	ports := []*eval.Port{cfg.Stdin, p1, p2}
	ports = append(ports, cfg.ExtraPorts...)
	name := cfg.Name
	if name == "" {
		name = "[verif]"
	}
	ecfg := eval.EvalCfg{Ports: ports, Interrupts: ctx, Global: cfg.Global}

	if cfg.OnStart != nil {
		cfg.OnStart(cancel)
	}
	var gid atomic.Int64
	gid.Store(-1)
	fin := make(chan struct{})
	// res is written by the evaluation goroutine and read only after fin.
	res := &struct {
		err   error
		panic any
		stack string
	}{}
	go func() {
		defer close(fin)
		defer func() {
			if p := recover(); p != nil {
				res.panic = p
				res.stack = string(debug.Stack())
			}
		}()
		gid.Store(int64(GoID()))
		res.err = ev.Eval(parse.Source{Name: name, Code: code}, ecfg)
	}()

	deadline := time.NewTimer(lim.Deadline)
	defer deadline.Stop()
	polls := []time.Duration{30 * time.Millisecond, 120 * time.Millisecond, 400 * time.Millisecond}
	start := time.Now()
	pi := 0
	finished := false
	timedOut := false
loop:
	for {
		var pollC <-chan time.Time
		if pi < len(polls) {
			d := polls[pi] - time.Since(start)
			if d < 0 {
				d = 0
			}
			pollC = time.After(d)
		}
		select {
		case <-fin:
			finished = true
			break loop
		case <-pollC:
			pi++
			// early, timing-independent verdict: a goroutine of this
			// evaluation blocked on a nil channel while the evaluation
			// goroutine is blocked too can never finish.
			if sig, dump := r.foreverBlocked(int(gid.Load())); sig != "" {
				// confirm that the evaluation really is not finishing
				select {
				case <-fin:
					finished = true
					break loop
				case <-time.After(50 * time.Millisecond):
				}
				out.HangSig, out.HangDump = sig, dump
				break loop
			}
		case <-deadline.C:
			timedOut = true
			cancel()
			select {
			case <-fin:
				finished = true
			case <-time.After(lim.Grace):
			}
			break loop
		}
	}
	if finished {
		out.Err = res.err
		if res.panic != nil {
			out.Panic, out.Stack = res.panic, res.stack
			out.PanicSig = PanicSig(res.panic, res.stack)
		}
		done1()
		done2()
		out.Values, out.Bytes = c1.values, c1.bytes
		out.Values2, out.Bytes2 = c2.values, c2.bytes
		out.Capped = capped.Load()
		out.TimedOut = timedOut
		if out.Panic != nil {
			r.Reset()
		}
		return out
	}
	// The evaluation did not come back.
	out.Abandoned = true
	cancel()
	if out.HangSig == "" {
		out.HangSig, out.HangDump, out.Running = r.settledHang(int(gid.Load()))
	}
	// everything this evaluation left behind is ignored from now on
	if r.lost == nil {
		r.lost = map[int]bool{}
	}
	for _, g := range Goroutines() {
		if g.Elv && !isBaseline(g) {
			r.lost[g.ID] = true
		}
	}
	r.Reset()
	return out
}

func isBaseline(g G) bool {
	return strings.Contains(g.Text, "eval.getBlackholeChan")
}

// foreverBlocked looks for the timing-independent hang: the evaluation
// goroutine is blocked and some goroutine with Elvish frames is in a state it
// can never leave.
func (r *Runner) foreverBlocked(evalGID int) (sig, dump string) {
	gs := Goroutines()
	var evalG *G
	for i := range gs {
		if gs[i].ID == evalGID {
			evalG = &gs[i]
		}
	}
	if evalG == nil || Live(evalG.State) {
		return "", ""
	}
	for _, g := range gs {
		if !g.Elv || r.lost[g.ID] || isBaseline(g) {
			continue
		}
		if ForeverBlocked(g.State) {
			return "hang:nil-chan@" + g.Top, g.Text + "\n\n" + evalG.Text
		}
	}
	return "", ""
}

type snap struct {
	key     string
	live    bool
	evalG   *G
	allText string
}

func (r *Runner) snapshot(evalGID int) snap {
	gs := Goroutines()
	var keys []string
	var s snap
	var sb strings.Builder
	for i := range gs {
		g := gs[i]
		if g.ID == evalGID {
			s.evalG = &gs[i]
		}
		if !g.Elv || r.lost[g.ID] || isBaseline(g) {
			continue
		}
		if Live(g.State) {
			s.live = true
		}
		keys = append(keys, fmt.Sprintf("%d|%s|%s", g.ID, g.State, g.Top))
		sb.WriteString(g.Text)
		sb.WriteString("\n\n")
	}
	sort.Strings(keys)
	s.key = strings.Join(keys, ";")
	s.allText = sb.String()
	return s
}

// settledHang decides, for an evaluation that did not return after the
// cancel, between "everything blocked" (two identical snapshots, no goroutine
// able to run, the evaluation goroutine waiting on a channel/lock rather than
// on I/O) and "still running" (resource exhaustion; inconclusive).
func (r *Runner) settledHang(evalGID int) (sig, dump string, running bool) {
	a := r.snapshot(evalGID)
	if a.evalG == nil {
		return "", "", true
	}
	if ForeverBlocked(a.evalG.State) {
		return "hang:nil-chan@" + a.evalG.Top, a.evalG.Text, false
	}
	if !Live(a.evalG.State) {
		for _, g := range ParseDump(a.allText) {
			if g.Elv && ForeverBlocked(g.State) {
				return "hang:nil-chan@" + g.Top, g.Text + "\n\n" + a.evalG.Text, false
			}
		}
	}
	time.Sleep(1200 * time.Millisecond)
	b := r.snapshot(evalGID)
	if a.live || b.live || a.key != b.key || b.evalG == nil {
		return "", b.allText, true
	}
	st := b.evalG.State
	if strings.HasPrefix(st, "IO wait") && !r.IOWaitIsHang {
		// waiting for input from outside the evaluation: not a deadlock
		return "", b.allText, false
	}
	// the class of the deadlock: where the evaluation goroutine waits, and
	// where the other interpreter goroutines of this evaluation are stuck
	// (the harness's own capture readers are not part of it)
	tops := map[string]bool{}
	for _, g := range ParseDump(b.allText) {
		if g.ID == b.evalG.ID || !g.Elv || strings.Contains(g.Text, "evalrun.newCapturePort") {
			continue
		}
		tops[g.Top] = true
	}
	var ts []string
	for t := range tops {
		ts = append(ts, strings.TrimPrefix(t, "src.elv.sh/pkg/"))
	}
	sort.Strings(ts)
	return "hang:" + st + "@" + b.evalG.Top + "[" + strings.Join(ts, ",") + "]", b.allText, false
}
