package refstore

import (
	"math"
	"math/rand"
	"strings"
)

// Gen generates random store operations. All choices come from R; the
// arguments are chosen relative to the current model state so that present
// and absent sequence numbers, both ends of the log and out-of-range bounds
// are all hit often.
type Gen struct {
	R *rand.Rand
	// Weights per Kind (0 = never).
	W [NumKinds]int
	// BigTexts allows occasional ~10 KB command texts (bbolt overflow pages).
	BigTexts bool
	// Unique makes every AddCmd text unique by appending "#<Tag><n>".
	Unique bool
	Tag    string

	stems   []string
	tails   []string
	dirPool []string
	deleted []int
	n       int
}

// DefaultWeights is a mix with all operations.
var DefaultWeights = [NumKinds]int{OpNextSeq: 4, OpAdd: 30, OpDel: 9, OpCmd: 8, OpList: 8, OpNext: 12, OpPrev: 12, OpAddDir: 10, OpDelDir: 2, OpDirs: 5}

// CmdWeights only has command-history operations.
var CmdWeights = [NumKinds]int{OpNextSeq: 4, OpAdd: 30, OpDel: 9, OpCmd: 8, OpList: 8, OpNext: 12, OpPrev: 12}

// NewGen builds a generator with a fresh pool of texts and paths.
func NewGen(r *rand.Rand, w [NumKinds]int, ndirs int) *Gen {
	g := &Gen{R: r, W: w}
	// Stems that are prefixes of one another, so prefix searches have near misses.
	families := [][]string{
		{"", "e", "ec", "echo", "echo ", "echo a", "echo ab"},
		{"", "p", "pu", "put", "put ", "put x"},
		{"", "\xff", "\xff\x00", "\xff\x00\xfe", "\xff\x01"},
		{"", "ls", "ls ", "ls -", "ls -l", "l"},
		{"", " ", "  ", "\n", "\n\n"},
		{"", "é", "é́", "\xc3", "日本", "日"},
	}
	for _, k := range r.Perm(len(families))[:2+r.Intn(2)] {
		g.stems = append(g.stems, families[k]...)
	}
	nt := 1 + r.Intn(6)
	for i := 0; i < nt; i++ {
		g.tails = append(g.tails, randBytes(r, r.Intn(6)))
	}
	g.tails = append(g.tails, "")
	for i := 0; i < ndirs; i++ {
		var p string
		switch r.Intn(6) {
		case 0: // long path: forces bbolt leaf pages to split early
			p = "/" + strings.Repeat(string(rune('a'+r.Intn(26))), 100+r.Intn(300)) + "/" + randName(r)
		case 1: // arbitrary bytes
			p = "/" + randBytes(r, 1+r.Intn(12))
		default:
			p = "/" + randName(r) + "/" + randName(r)
		}
		g.dirPool = append(g.dirPool, p)
	}
	return g
}

func randName(r *rand.Rand) string {
	const al = "abcdefghijklmnopqrstuvwxyz0123456789-_. "
	n := 1 + r.Intn(10)
	b := make([]byte, n)
	for i := range b {
		b[i] = al[r.Intn(len(al))]
	}
	return string(b)
}

func randBytes(r *rand.Rand, n int) string {
	b := make([]byte, n)
	for i := range b {
		switch r.Intn(4) {
		case 0:
			b[i] = byte(r.Intn(256))
		case 1:
			b[i] = "\x00\n\xff\x80 "[r.Intn(5)]
		default:
			b[i] = byte('a' + r.Intn(4))
		}
	}
	return string(b)
}

// Text returns a command text from the pool (duplicates are frequent).
func (g *Gen) Text() string {
	r := g.R
	var t string
	switch k := r.Intn(40); {
	case k == 0:
		t = ""
	case k == 1 && g.BigTexts:
		t = g.stems[r.Intn(len(g.stems))] + strings.Repeat(randBytes(r, 7), 1200+r.Intn(600))
	case k < 6:
		t = g.stems[r.Intn(len(g.stems))] + randBytes(r, r.Intn(20))
	default:
		t = g.stems[r.Intn(len(g.stems))] + g.tails[r.Intn(len(g.tails))]
	}
	return t
}

// Prefix returns a search prefix: a stem, a stem plus a byte, a whole stored
// text, or something absent.
func (g *Gen) Prefix(m *Store) string {
	r := g.R
	switch k := r.Intn(10); {
	case k < 6:
		return g.stems[r.Intn(len(g.stems))]
	case k < 8 && len(m.cmds) > 0:
		t := m.cmds[r.Intn(len(m.cmds))].Text
		if len(t) > 64 {
			t = t[:64]
		}
		if len(t) > 0 && r.Intn(2) == 0 {
			t = t[:r.Intn(len(t)+1)]
		}
		return t
	case k < 9:
		return g.stems[r.Intn(len(g.stems))] + randBytes(r, 1)
	}
	return "zz-absent"
}

// Seq picks a sequence number argument. neg allows negative numbers.
func (g *Gen) Seq(m *Store, neg bool) int {
	r := g.R
	for {
		var v int
		switch k := r.Intn(20); {
		case k < 8 && len(m.cmds) > 0: // a present one
			v = m.cmds[r.Intn(len(m.cmds))].Seq
		case k < 10 && len(m.cmds) > 0: // next to a present one
			v = m.cmds[r.Intn(len(m.cmds))].Seq + 1 - 2*r.Intn(2)
		case k < 12 && len(g.deleted) > 0: // a deleted one
			v = g.deleted[r.Intn(len(g.deleted))]
		case k < 13:
			v = r.Intn(3) // 0, 1, 2: the low end
		case k < 15:
			v = m.next - 2 + r.Intn(5) // around the high end
		case k < 16:
			v = m.next + 1 + r.Intn(1000)
		case k < 17:
			v = []int{math.MaxInt64, math.MaxInt64 - 1, math.MaxInt32, math.MaxInt32 + 1, 1 << 40, 255, 256, 257, 65536}[r.Intn(9)]
		case k < 18:
			v = -1 - r.Intn(3)
			if r.Intn(3) == 0 {
				v = math.MinInt64 + r.Intn(2)
			}
		default:
			v = 1 + r.Intn(m.next+1)
		}
		if v < 0 && !neg {
			continue
		}
		return v
	}
}

func (g *Gen) pick() Kind {
	tot := 0
	for _, w := range g.W {
		tot += w
	}
	x := g.R.Intn(tot)
	for k, w := range g.W {
		if x < w {
			return Kind(k)
		}
		x -= w
	}
	return OpNextSeq
}

// Dir picks a path from the pool.
func (g *Gen) Dir() string { return g.dirPool[g.R.Intn(len(g.dirPool))] }

// Next generates the next operation for the model state m. It does not
// change m; the caller applies the operation.
func (g *Gen) Next(m *Store) Op {
	r := g.R
	k := g.pick()
	if (k == OpAddDir || k == OpDelDir || k == OpDirs) && len(g.dirPool) == 0 {
		k = OpAdd
	}
	switch k {
	case OpAdd:
		t := g.Text()
		if g.Unique {
			g.n++
			t += "#" + g.Tag + itoa(g.n)
		}
		return Op{K: OpAdd, S: t}
	case OpDel:
		o := Op{K: OpDel, A: g.Seq(m, true)}
		if _, ok := m.Cmd(o.A); ok {
			g.deleted = append(g.deleted, o.A)
		}
		return o
	case OpCmd:
		return Op{K: OpCmd, A: g.Seq(m, true)}
	case OpList:
		o := Op{K: OpList, A: g.Seq(m, false), B: g.Seq(m, false)}
		switch r.Intn(6) {
		case 0, 1:
			o.B = -1
		case 2:
			o.A = 0
		case 3:
			if o.A > o.B {
				o.A, o.B = o.B, o.A
			}
		}
		return o
	case OpNext:
		return Op{K: OpNext, A: g.Seq(m, false), S: g.Prefix(m)}
	case OpPrev:
		return Op{K: OpPrev, A: g.Seq(m, false), S: g.Prefix(m)}
	case OpAddDir:
		f := 1.0
		if r.Intn(4) == 0 {
			f = []float64{0.5, 2, 0.1, 3.75, 1e-3, 100, 0}[r.Intn(7)]
		}
		return Op{K: OpAddDir, S: g.Dir(), F: f}
	case OpDelDir:
		return Op{K: OpDelDir, S: g.Dir()}
	case OpDirs:
		var bl []string
		if r.Intn(3) > 0 {
			n := r.Intn(1 + len(g.dirPool)/2)
			for i := 0; i < n; i++ {
				bl = append(bl, g.Dir())
			}
			if r.Intn(2) == 0 {
				bl = append(bl, "/never-added")
			}
		}
		return Op{K: OpDirs, BL: bl}
	}
	return Op{K: OpNextSeq}
}

func itoa(n int) string {
	if n == 0 {
		return "0"
	}
	var b [20]byte
	i := len(b)
	for n > 0 {
		i--
		b[i] = byte('0' + n%10)
		n /= 10
	}
	return string(b[i:])
}
