// Package refstore is a small sequential reference model of the Elvish
// history store (command history + directory history), written from the
// documentation of the store API:
//
//   - pkg/store/storedefs (interface Store, ErrNoMatchingCmd),
//   - the doc comments in pkg/store/cmd.go and pkg/store/dir.go
//     ("NextCmd finds the first command after the given sequence number
//     (inclusive) with the given prefix", "PrevCmd finds the last command
//     before the given sequence number (exclusive) ...", "Dirs lists all
//     directories ... not in the blacklist ... ordered by scores in descending
//     order", constants DirScoreDecay = 0.986, DirScoreIncrement = 10),
//   - pkg/mods/store/store.d.elv ("Use -1 for $upto to not set an upper
//     bound", "add-dir ... will also cause the scores of all other directories
//     to decrease", "del-dir ... has no impact on the scores of other
//     directories"),
//   - pkg/store/storetest (first sequence number of a fresh store is 1).
//
// It deliberately shares no code or data layout with the bbolt
// implementation: commands live in a sorted slice, directories in a Go map
// with exact float64 scores.
//
// The package is used by the checks C24 (sequential histories), C25 (crash
// recovery), C26 (linearizability through the daemon) and C29 (history
// cursors).
package refstore

import (
	"fmt"
	"math"
	"sort"
	"strconv"
	"strings"
)

// Documented parameters of the directory scores (pkg/store/dir.go).
const (
	DirScoreDecay     = 0.986
	DirScoreIncrement = 10.0
)

// FirstSeq is the first sequence number handed out by a fresh store
// (pkg/store/storetest: NextCmdSeq() on a fresh store is 1).
const FirstSeq = 1

// NoMatch is the text of storedefs.ErrNoMatchingCmd. Errors are compared by
// text because they cross an RPC boundary in the daemon checks.
const NoMatch = "no matching command line"

// Cmd is one command history entry.
type Cmd struct {
	Seq  int
	Text string
}

// Dir is one directory history entry.
type Dir struct {
	Path  string
	Score float64
}

// Store is the sequential model. The zero value is not usable; use New.
type Store struct {
	cmds    []Cmd // ascending Seq
	next    int   // the next sequence number to hand out; never decreases
	dirs    map[string]float64
	dirAdds int // number of AddDir calls so far (each rounds every stored score once)
}

// New returns the model of a fresh database.
func New() *Store { return &Store{next: FirstSeq, dirs: map[string]float64{}} }

// Clone returns an independent copy.
func (s *Store) Clone() *Store {
	n := &Store{cmds: append([]Cmd(nil), s.cmds...), next: s.next, dirs: make(map[string]float64, len(s.dirs)), dirAdds: s.dirAdds}
	for k, v := range s.dirs {
		n.dirs[k] = v
	}
	return n
}

// NextCmdSeq is the sequence number the next AddCmd will return.
func (s *Store) NextCmdSeq() int { return s.next }

// AddCmd appends a command and returns its sequence number.
func (s *Store) AddCmd(text string) int {
	seq := s.next
	s.next++
	s.cmds = append(s.cmds, Cmd{seq, text})
	return seq
}

func (s *Store) find(seq int) int {
	return sort.Search(len(s.cmds), func(i int) bool { return s.cmds[i].Seq >= seq })
}

// DelCmd removes the entry with the given number, if any. Sequence numbers
// are never handed out again.
func (s *Store) DelCmd(seq int) bool {
	i := s.find(seq)
	if i < len(s.cmds) && s.cmds[i].Seq == seq {
		s.cmds = append(s.cmds[:i:i], s.cmds[i+1:]...)
		return true
	}
	return false
}

// Cmd looks up one entry.
func (s *Store) Cmd(seq int) (string, bool) {
	i := s.find(seq)
	if i < len(s.cmds) && s.cmds[i].Seq == seq {
		return s.cmds[i].Text, true
	}
	return "", false
}

// CmdsWithSeq lists the entries with from <= seq < upto in ascending order;
// upto == -1 means no upper bound.
func (s *Store) CmdsWithSeq(from, upto int) []Cmd {
	var out []Cmd
	for _, c := range s.cmds {
		if c.Seq >= from && (upto == -1 || c.Seq < upto) {
			out = append(out, c)
		}
	}
	return out
}

// NextCmd: the entry with the smallest seq >= from whose text starts with prefix.
func (s *Store) NextCmd(from int, prefix string) (Cmd, bool) {
	for _, c := range s.cmds {
		if c.Seq >= from && strings.HasPrefix(c.Text, prefix) {
			return c, true
		}
	}
	return Cmd{}, false
}

// PrevCmd: the entry with the largest seq < upto whose text starts with prefix.
func (s *Store) PrevCmd(upto int, prefix string) (Cmd, bool) {
	for i := len(s.cmds) - 1; i >= 0; i-- {
		c := s.cmds[i]
		if c.Seq < upto && strings.HasPrefix(c.Text, prefix) {
			return c, true
		}
	}
	return Cmd{}, false
}

// AllCmds returns every stored entry in ascending order (shared slice; do not modify).
func (s *Store) AllCmds() []Cmd { return s.cmds }

// MaxSeq returns the largest sequence number ever handed out (FirstSeq-1 if none).
func (s *Store) MaxSeq() int { return s.next - 1 }

// AddDir records a visit: every stored score is multiplied by the decay, then
// the increment scaled by factor is added to the visited directory.
func (s *Store) AddDir(path string, factor float64) {
	for k, v := range s.dirs {
		s.dirs[k] = v * DirScoreDecay
	}
	s.dirs[path] += DirScoreIncrement * factor
	s.dirAdds++
}

// DelDir removes a directory; other scores are unaffected.
func (s *Store) DelDir(path string) { delete(s.dirs, path) }

// DirAdds is the number of visits recorded so far.
func (s *Store) DirAdds() int { return s.dirAdds }

// NDirs is the number of stored directories.
func (s *Store) NDirs() int { return len(s.dirs) }

// Dirs lists the non-blacklisted directories by descending exact score (ties
// by path, for determinism of the model only).
func (s *Store) Dirs(blacklist map[string]struct{}) []Dir {
	var out []Dir
	for k, v := range s.dirs {
		if _, bad := blacklist[k]; !bad {
			out = append(out, Dir{k, v})
		}
	}
	sort.Slice(out, func(i, j int) bool {
		if out[i].Score != out[j].Score {
			return out[i].Score > out[j].Score
		}
		return out[i].Path < out[j].Path
	})
	return out
}

// ScoreTolerance is the relative tolerance used when comparing a stored score
// with the exact one: the storage precision is not documented (the
// implementation keeps 7 significant digits, i.e. a relative rounding error of
// at most 5e-7 per visit), so 1e-6 per recorded visit is allowed.
func (s *Store) ScoreTolerance() float64 { return 1e-6 * float64(s.dirAdds+1) }

// CheckDirs compares a listing returned by the real store with the model.
// It returns "" if the listing is acceptable, otherwise a short class name
// and a description.
func (s *Store) CheckDirs(got []Dir, blacklist map[string]struct{}) (class, what string) {
	want := s.Dirs(blacklist)
	seen := make(map[string]bool, len(got))
	tol := s.ScoreTolerance()
	for i, d := range got {
		if seen[d.Path] {
			return "dirs-duplicate", fmt.Sprintf("path %q listed twice", d.Path)
		}
		seen[d.Path] = true
		if _, bad := blacklist[d.Path]; bad {
			return "dirs-blacklisted", fmt.Sprintf("blacklisted path %q is listed", d.Path)
		}
		w, ok := s.dirs[d.Path]
		if !ok {
			return "dirs-unknown", fmt.Sprintf("path %q is listed but was never added (or was deleted)", d.Path)
		}
		if math.IsNaN(d.Score) || math.Abs(d.Score-w) > tol*math.Abs(w)+1e-300 {
			return "dirs-score", fmt.Sprintf("score of %q is %v, reference %v (relative tolerance %.2g after %d visits)", d.Path, d.Score, w, tol, s.dirAdds)
		}
		if i > 0 && got[i-1].Score < d.Score {
			return "dirs-order", fmt.Sprintf("listing not in descending score order at index %d: %v then %v", i, got[i-1].Score, d.Score)
		}
	}
	if len(got) != len(want) {
		for _, w := range want {
			if !seen[w.Path] {
				return "dirs-missing", fmt.Sprintf("path %q (score %v) missing from the listing (%d listed, reference %d)", w.Path, w.Score, len(got), len(want))
			}
		}
	}
	return "", ""
}

// EncodeCmds is a canonical encoding of the command part of the state
// (entries + next counter), used for state equality.
func (s *Store) EncodeCmds() string {
	var b strings.Builder
	b.WriteString(strconv.Itoa(s.next))
	for _, c := range s.cmds {
		b.WriteByte('|')
		b.WriteString(strconv.Itoa(c.Seq))
		b.WriteByte('=')
		b.WriteString(strconv.Quote(c.Text))
	}
	return b.String()
}
