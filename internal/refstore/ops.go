package refstore

import (
	"fmt"
	"reflect"
	"strconv"

	"src.elv.sh/pkg/store/storedefs"
)

// Kind names a store operation.
type Kind int

const (
	OpNextSeq Kind = iota // NextCmdSeq()
	OpAdd                 // AddCmd(S)
	OpDel                 // DelCmd(A)
	OpCmd                 // Cmd(A)
	OpList                // CmdsWithSeq(A, B)
	OpNext                // NextCmd(A, S)
	OpPrev                // PrevCmd(A, S)
	OpAddDir              // AddDir(S, F)
	OpDelDir              // DelDir(S)
	OpDirs                // Dirs(BL)
	NumKinds
)

var kindNames = [...]string{"NextCmdSeq", "AddCmd", "DelCmd", "Cmd", "CmdsWithSeq", "NextCmd", "PrevCmd", "AddDir", "DelDir", "Dirs"}

func (k Kind) String() string { return kindNames[k] }

// Op is one call of the store API. Strings may hold arbitrary bytes.
type Op struct {
	K  Kind
	A  int
	B  int
	S  string
	F  float64
	BL []string
}

func (o Op) String() string {
	switch o.K {
	case OpNextSeq:
		return "NextCmdSeq()"
	case OpAdd:
		return "AddCmd(" + short(o.S) + ")"
	case OpDel, OpCmd:
		return fmt.Sprintf("%v(%d)", o.K, o.A)
	case OpList:
		return fmt.Sprintf("CmdsWithSeq(%d, %d)", o.A, o.B)
	case OpNext, OpPrev:
		return fmt.Sprintf("%v(%d, %s)", o.K, o.A, short(o.S))
	case OpAddDir:
		return fmt.Sprintf("AddDir(%s, %v)", short(o.S), o.F)
	case OpDelDir:
		return "DelDir(" + short(o.S) + ")"
	case OpDirs:
		return fmt.Sprintf("Dirs(blacklist %d paths)", len(o.BL))
	}
	return "?"
}

func short(s string) string {
	if len(s) > 40 {
		return strconv.Quote(s[:40]) + fmt.Sprintf("...(%d bytes)", len(s))
	}
	return strconv.Quote(s)
}

// Mutates reports whether the operation can change the state.
func (o Op) Mutates() bool {
	switch o.K {
	case OpAdd, OpDel, OpAddDir, OpDelDir:
		return true
	}
	return false
}

// Result is the observable outcome of an Op.
type Result struct {
	Seq  int
	Text string
	Cmds []Cmd
	Dirs []Dir
	Err  string // "" = nil error
}

func (r Result) String() string {
	s := fmt.Sprintf("{seq=%d text=%s err=%q", r.Seq, short(r.Text), r.Err)
	if r.Cmds != nil {
		s += fmt.Sprintf(" cmds=%d:", len(r.Cmds))
		for i, c := range r.Cmds {
			if i == 6 {
				s += " ..."
				break
			}
			s += fmt.Sprintf(" %d=%s", c.Seq, short(c.Text))
		}
	}
	if r.Dirs != nil {
		s += fmt.Sprintf(" dirs=%d", len(r.Dirs))
	}
	return s + "}"
}

func errText(err error) string {
	if err == nil {
		return ""
	}
	if err.Error() == "" {
		return "<empty error text>"
	}
	return err.Error()
}

func blacklist(bl []string) map[string]struct{} {
	m := make(map[string]struct{}, len(bl))
	for _, p := range bl {
		m[p] = struct{}{}
	}
	return m
}

// Exec runs the operation against a real store (or daemon client).
func Exec(st storedefs.Store, o Op) Result {
	var r Result
	var err error
	switch o.K {
	case OpNextSeq:
		r.Seq, err = st.NextCmdSeq()
	case OpAdd:
		r.Seq, err = st.AddCmd(o.S)
	case OpDel:
		err = st.DelCmd(o.A)
	case OpCmd:
		r.Text, err = st.Cmd(o.A)
	case OpList:
		var cmds []storedefs.Cmd
		cmds, err = st.CmdsWithSeq(o.A, o.B)
		r.Cmds = make([]Cmd, len(cmds))
		for i, c := range cmds {
			r.Cmds[i] = Cmd{c.Seq, c.Text}
		}
	case OpNext, OpPrev:
		var c storedefs.Cmd
		if o.K == OpNext {
			c, err = st.NextCmd(o.A, o.S)
		} else {
			c, err = st.PrevCmd(o.A, o.S)
		}
		r.Seq, r.Text = c.Seq, c.Text
	case OpAddDir:
		err = st.AddDir(o.S, o.F)
	case OpDelDir:
		err = st.DelDir(o.S)
	case OpDirs:
		var dirs []storedefs.Dir
		dirs, err = st.Dirs(blacklist(o.BL))
		r.Dirs = make([]Dir, len(dirs))
		for i, d := range dirs {
			r.Dirs[i] = Dir{d.Path, d.Score}
		}
	}
	r.Err = errText(err)
	return r
}

// Apply runs the operation on the model and returns the expected result.
// For OpDirs the expected listing is the exact-score one; use Check (which
// uses CheckDirs) to compare.
func (s *Store) Apply(o Op) Result {
	var r Result
	switch o.K {
	case OpNextSeq:
		r.Seq = s.NextCmdSeq()
	case OpAdd:
		r.Seq = s.AddCmd(o.S)
	case OpDel:
		s.DelCmd(o.A)
	case OpCmd:
		t, ok := s.Cmd(o.A)
		if !ok {
			r.Err = NoMatch
		}
		r.Text = t
	case OpList:
		r.Cmds = s.CmdsWithSeq(o.A, o.B)
		if r.Cmds == nil {
			r.Cmds = []Cmd{}
		}
	case OpNext, OpPrev:
		var c Cmd
		var ok bool
		if o.K == OpNext {
			c, ok = s.NextCmd(o.A, o.S)
		} else {
			c, ok = s.PrevCmd(o.A, o.S)
		}
		if !ok {
			r.Err = NoMatch
		}
		r.Seq, r.Text = c.Seq, c.Text
	case OpAddDir:
		s.AddDir(o.S, o.F)
	case OpDelDir:
		s.DelDir(o.S)
	case OpDirs:
		r.Dirs = s.Dirs(blacklist(o.BL))
	}
	return r
}

// Check applies o to the model and compares the real result got with the
// model's. It returns ("", "") on agreement, otherwise a short class
// (stable, suitable for a violation signature) and a description.
//
// What is compared: the error (nil vs ErrNoMatchingCmd text vs anything
// else); on success the returned seq / text / listing. On a no-match error
// the accompanying value is not compared (undocumented).
func (s *Store) Check(o Op, got Result) (class, what string) {
	if o.K == OpDirs {
		if got.Err != "" {
			return "Dirs-error", "Dirs returned error " + strconv.Quote(got.Err)
		}
		c, w := s.CheckDirs(got.Dirs, blacklist(o.BL))
		return c, w
	}
	// Deleting something that is not there: the documentation does not say
	// whether that is an error, so only the state (unchanged) is demanded.
	absentDelete := false
	switch o.K {
	case OpDel:
		_, present := s.Cmd(o.A)
		absentDelete = !present
	case OpDelDir:
		_, present := s.dirs[o.S]
		absentDelete = !present
	}
	want := s.Apply(o)
	if absentDelete {
		return "", ""
	}
	name := o.K.String()
	if got.Err != want.Err {
		if want.Err == "" {
			return name + "-error", fmt.Sprintf("%v returned error %q, reference result %v", o, got.Err, want)
		}
		if got.Err == "" {
			return name + "-noerror", fmt.Sprintf("%v returned %v, reference says %q", o, got, want.Err)
		}
		return name + "-error", fmt.Sprintf("%v returned error %q, reference says %q", o, got.Err, want.Err)
	}
	if want.Err != "" {
		return "", ""
	}
	switch o.K {
	case OpNextSeq, OpAdd:
		if got.Seq != want.Seq {
			return name + "-seq", fmt.Sprintf("%v returned %d, reference %d", o, got.Seq, want.Seq)
		}
	case OpCmd:
		if got.Text != want.Text {
			return name + "-text", fmt.Sprintf("%v returned %s, reference %s", o, short(got.Text), short(want.Text))
		}
	case OpNext, OpPrev:
		if got.Seq != want.Seq || got.Text != want.Text {
			return name + "-result", fmt.Sprintf("%v returned (%d, %s), reference (%d, %s)", o, got.Seq, short(got.Text), want.Seq, short(want.Text))
		}
	case OpList:
		if len(got.Cmds) != len(want.Cmds) || (len(got.Cmds) > 0 && !reflect.DeepEqual(got.Cmds, want.Cmds)) {
			return name + "-listing", fmt.Sprintf("%v returned %v, reference %v", o, got, want)
		}
	}
	return "", ""
}
