package numcall

import (
	"fmt"
	"regexp"
	"strings"

	"verifharness/internal/model/refnum"
)

var numRe = regexp.MustCompile(`0x[0-9a-f]+|\d+`)

// PanicClass normalises a panic value into a short class string.
func PanicClass(p any) string {
	s := strings.SplitN(fmt.Sprint(p), "\n", 2)[0]
	s = numRe.ReplaceAllString(s, "N")
	if len(s) > 80 {
		s = s[:80]
	}
	return s
}

// ShowVal renders a model value.
func ShowVal(v refnum.Val) string {
	if v.Exact {
		return "exact " + short(v.R.RatString())
	}
	return "inexact " + Show(v.F)[8:]
}

func showVals(vs []refnum.Val) []string {
	out := make([]string, len(vs))
	for i, v := range vs {
		out[i] = ShowVal(v)
	}
	if len(out) > 12 {
		out = append(out[:12], fmt.Sprintf("… %d values", len(vs)))
	}
	return out
}

// Verdict of one call against the model.
type Verdict struct {
	Class string // "" = agrees; otherwise the class of the disagreement
	What  string
}

// Judge compares what the command did with what the documentation demands.
// The returned class is stable across inputs (it names the kind of
// disagreement, not the operands).
func Judge(want refnum.Outcome, res Result) Verdict {
	if res.Panic != nil {
		return Verdict{"panic:" + PanicClass(res.Panic), fmt.Sprintf("the command panicked: %v", res.Panic)}
	}
	if want.Unspecified {
		return Verdict{}
	}
	if res.Err != nil {
		if want.Raise || want.Either {
			return Verdict{}
		}
		return Verdict{"unexpected-exception", fmt.Sprintf("raised %q, documentation demands %v", res.Err.Error(), showVals(want.Vals))}
	}
	if want.Raise && !want.Either {
		return Verdict{"missing-exception", fmt.Sprintf("output %v instead of raising (%s)", trunc(ShowAll(res.Out)), want.Rule)}
	}
	if res.Overflow || len(res.Out) != len(want.Vals) {
		return Verdict{"output-count", fmt.Sprintf("%d values output, documentation demands %d: got %v want %v",
			len(res.Out), len(want.Vals), trunc(ShowAll(res.Out)), showVals(want.Vals))}
	}
	for i, o := range res.Out {
		got, canon, ok := refnum.FromGo(o)
		if !ok {
			return Verdict{"not-a-number", fmt.Sprintf("output #%d is %s (%s)", i, Show(o), canon)}
		}
		w := want.Vals[i]
		if got.Exact != w.Exact {
			return Verdict{"exactness", fmt.Sprintf("output #%d is %s, documentation demands %s", i, Show(o), ShowVal(w))}
		}
		if !refnum.Same(got, w) {
			return Verdict{"wrong-value", fmt.Sprintf("output #%d is %s, documentation demands %s", i, Show(o), ShowVal(w))}
		}
		if canon != "" {
			return Verdict{"noncanonical", fmt.Sprintf("output #%d is %s: %s", i, Show(o), canon)}
		}
	}
	return Verdict{}
}

func trunc(ss []string) []string {
	if len(ss) > 12 {
		return append(append([]string{}, ss[:12]...), fmt.Sprintf("… %d values", len(ss)))
	}
	return ss
}
