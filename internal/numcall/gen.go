package numcall

import (
	"math"
	"math/big"
	"math/rand"
	"strconv"
	"strings"

	"verifharness/internal/model/refnum"
)

// Arg is one generated argument.
type Arg struct {
	V     refnum.Val // what the model sees
	Go    any        // what is passed to the command: a typed number or its string representation
	Typed any        // the canonical typed form (for snapshots / repr)
	Class string     // generator class, for coverage counters
}

func pow2(k uint) *big.Int { return new(big.Int).Lsh(big.NewInt(1), k) }
func bi(i int64) *big.Int  { return big.NewInt(i) }
func add(a *big.Int, d int64) *big.Int {
	return new(big.Int).Add(a, bi(d))
}
func neg(a *big.Int) *big.Int  { return new(big.Int).Neg(a) }
func ratI(a *big.Int) *big.Rat { return new(big.Rat).SetInt(a) }

// boundary integers: around ±2^63 (machine/big boundary), ±2^64, 2^31, 2^32,
// 2^53 and floor(sqrt(2^63)).
func boundaryInt(r *rand.Rand) *big.Int {
	var base *big.Int
	switch r.Intn(9) {
	case 0, 1, 2:
		base = pow2(63)
	case 3:
		base = pow2(64)
	case 4:
		base = pow2(31)
	case 5:
		base = pow2(32)
	case 6:
		base = pow2(53)
	case 7:
		base = bi(3037000500) // ceil(sqrt(2^63))
	default:
		base = pow2(62)
	}
	z := add(base, int64(r.Intn(5)-2))
	if r.Intn(2) == 0 {
		z.Neg(z)
		if r.Intn(2) == 0 { // -2^63 itself and its neighbours
			z = add(z, int64(r.Intn(3)-1))
		}
	}
	return z
}

func randBits(r *rand.Rand, lo, hi int) *big.Int {
	n := lo + r.Intn(hi-lo+1)
	z := new(big.Int).Rand(r, pow2(uint(n)))
	z.SetBit(z, n-1, 1)
	if r.Intn(2) == 0 {
		z.Neg(z)
	}
	return z
}

// Exact draws an exact number; wide additionally enables magnitudes near the
// limits of the double range (for the conversion rules of C12).
func Exact(r *rand.Rand, wide bool) (*big.Rat, string) {
	n := 13
	if wide {
		n = 17
	}
	switch r.Intn(n) {
	case 0:
		return big.NewRat([]int64{0, 0, 1, -1, 2, -2, 3, 10}[r.Intn(8)], 1), "tiny-int"
	case 1:
		return big.NewRat(int64(r.Intn(2001)-1000), 1), "small-int"
	case 2, 3:
		return ratI(boundaryInt(r)), "boundary-int"
	case 4:
		return ratI(randBits(r, 1, 64)), "int-upto-64-bits"
	case 5:
		return ratI(randBits(r, 65, 200)), "big-int"
	case 6:
		q := int64(2 + r.Intn(11))
		return big.NewRat(int64(r.Intn(61)-30), q), "small-rat"
	case 7: // exact halves, small and at the machine boundary
		var k *big.Int
		if r.Intn(2) == 0 {
			k = bi(int64(r.Intn(21) - 10))
		} else {
			k = boundaryInt(r)
		}
		odd := add(new(big.Int).Lsh(k, 1), 1)
		return new(big.Rat).SetFrac(odd, bi(2)), "half"
	case 8: // boundary plus a small fraction
		f := big.NewRat(int64(r.Intn(11)-5), int64(2+r.Intn(5)))
		return f.Add(f, ratI(boundaryInt(r))), "boundary-plus-fraction"
	case 9:
		d := randBits(r, 2, 200)
		d.Abs(d)
		return new(big.Rat).SetFrac(randBits(r, 1, 200), d), "big-rat"
	case 10: // reciprocal of a boundary / of a small integer
		z := boundaryInt(r)
		if r.Intn(3) == 0 {
			z = bi(int64(1 + r.Intn(9)))
		}
		return new(big.Rat).SetFrac(bi(int64(1+r.Intn(3))), z), "reciprocal"
	case 11:
		return ratI(new(big.Int).Mul(boundaryInt(r), bi(int64(r.Intn(7)-3)))), "boundary-multiple"
	case 12: // numerator and denominator need more than 53 bits but fit 64: conversions that go through doubles or machine ints go wrong here
		d := randBits(r, 54, 63)
		d.Abs(d)
		return new(big.Rat).SetFrac(randBits(r, 54, 63), d), "rat-54-to-63-bits"
	case 16: // integers in (2^63, 2^70) and below -2^63
		z := add(pow2(uint(63+r.Intn(8))), int64(r.Intn(3)))
		if r.Intn(2) == 0 {
			z.Neg(z)
		}
		return ratI(z), "int-just-outside-int64"
	case 13: // rationals around the overflow threshold 2^1024 - 2^970
		th := new(big.Int).Sub(pow2(1024), pow2(970))
		x := ratI(add(th, int64(r.Intn(3)-1)))
		x.Add(x, big.NewRat(int64(r.Intn(5)-2), 3))
		if r.Intn(4) == 0 {
			x.Mul(x, big.NewRat(int64(1+r.Intn(4)), int64(1+r.Intn(4))))
		}
		if r.Intn(2) == 0 {
			x.Neg(x)
		}
		return x, "rat-near-overflow"
	case 14: // rationals around half the smallest subnormal, and subnormal range
		k := uint(1070 + r.Intn(8))
		x := new(big.Rat).SetFrac(bi(int64(1+r.Intn(9))), pow2(k))
		if r.Intn(2) == 0 {
			x.Add(x, new(big.Rat).SetFrac(bi(int64(r.Intn(3)-1)), pow2(1300)))
		}
		if r.Intn(3) == 0 {
			x.Mul(x, big.NewRat(1, 3))
		}
		if r.Intn(2) == 0 {
			x.Neg(x)
		}
		return x, "rat-near-underflow"
	default: // midpoints between adjacent doubles, and their neighbours
		f := math.Float64frombits(r.Uint64() &^ (1 << 63))
		if r.Intn(2) == 0 {
			f = math.Float64frombits(uint64(r.Intn(1<<12)) | uint64(1023+r.Intn(80)-10)<<52)
		}
		next := math.Float64frombits(math.Float64bits(f) + 1)
		if !refnum.Finite(f) || !refnum.Finite(next) {
			f, next = 1, math.Float64frombits(math.Float64bits(1)+1)
		}
		a := refnum.ExactOfDouble(f)
		ulpHalf := new(big.Rat).Sub(refnum.ExactOfDouble(next), a)
		ulpHalf.Quo(ulpHalf, big.NewRat(2, 1))
		a.Add(a, ulpHalf)
		a.Add(a, new(big.Rat).SetFrac(bi(int64(r.Intn(3)-1)), pow2(1200)))
		if r.Intn(2) == 0 {
			a.Neg(a)
		}
		return a, "double-midpoint"
	}
}

// Related derives an exact number from an earlier one so that cancellations
// and results exactly on a boundary happen.
func Related(r *rand.Rand, prev *big.Rat) (*big.Rat, string) {
	switch r.Intn(6) {
	case 0:
		return new(big.Rat).Set(prev), "copy"
	case 1:
		return new(big.Rat).Neg(prev), "negation"
	case 2:
		if prev.Sign() != 0 {
			return new(big.Rat).Inv(prev), "reciprocal-of-prev"
		}
		return new(big.Rat), "copy"
	case 3: // boundary - prev: a sum lands exactly on the boundary
		return new(big.Rat).Sub(ratI(boundaryInt(r)), prev), "boundary-minus-prev"
	case 4: // boundary / prev: a product lands exactly on the boundary
		if prev.Sign() != 0 {
			return new(big.Rat).Quo(ratI(boundaryInt(r)), prev), "boundary-over-prev"
		}
		return new(big.Rat), "copy"
	default: // same denominator
		return new(big.Rat).Add(prev, big.NewRat(int64(r.Intn(7)-3), 1)), "prev-plus-small"
	}
}

func underscore(r *rand.Rand, digits string) string {
	if len(digits) < 2 {
		return digits
	}
	var sb strings.Builder
	for i, c := range digits {
		if i > 0 && r.Intn(3) == 0 {
			sb.WriteByte('_')
		}
		sb.WriteRune(c)
	}
	return sb.String()
}

// ExactString returns a documented string representation of the exact number
// (decimal, 0x / 0o / 0b integers, underscores between digits, rationals as
// "p/q" possibly not in lowest terms), case varied.
func ExactString(r *rand.Rand, x *big.Rat) string {
	if x.IsInt() {
		z := x.Num()
		sign := ""
		a := new(big.Int).Abs(z)
		if z.Sign() < 0 {
			sign = "-"
		}
		switch r.Intn(8) {
		case 0:
			s := "0x" + a.Text(16)
			if r.Intn(2) == 0 {
				s = "0X" + strings.ToUpper(a.Text(16))
			}
			return sign + s
		case 1:
			return sign + "0o" + a.Text(8)
		case 2:
			return sign + "0b" + a.Text(2)
		case 3:
			return sign + underscore(r, a.String())
		case 4: // integer written as a fraction
			k := bi(int64(1 + r.Intn(12)))
			return sign + new(big.Int).Mul(a, k).String() + "/" + k.String()
		default:
			return z.String()
		}
	}
	k := bi(1)
	if r.Intn(3) == 0 {
		k = bi(int64(2 + r.Intn(9)))
	}
	return new(big.Int).Mul(x.Num(), k).String() + "/" + new(big.Int).Mul(x.Denom(), k).String()
}

// ExactArg wraps an exact number as a call argument: typed (canonical) or
// as a string.
func ExactArg(r *rand.Rand, x *big.Rat, class string, stringPct int) Arg {
	typed := refnum.Canonical(x)
	a := Arg{V: refnum.Ex(new(big.Rat).Set(x)), Go: typed, Typed: typed, Class: class}
	if r.Intn(100) < stringPct {
		a.Go = ExactString(r, x)
	}
	return a
}

// Float draws a double from bit patterns.
func Float(r *rand.Rand) (float64, string) {
	fb := math.Float64frombits
	sign := uint64(r.Intn(2)) << 63
	switch r.Intn(16) {
	case 0:
		return fb(sign), "zero"
	case 1:
		return fb(sign | 2047<<52), "inf"
	case 2:
		return fb(sign | 2047<<52 | uint64(1+r.Int63n(1<<52-1))), "nan"
	case 3:
		return fb(sign | uint64(1+r.Int63n(1<<52-1))), "subnormal"
	case 4:
		return fb(sign | []uint64{1, 2, 1<<52 - 1, 1 << 52, 1<<52 + 1, 2047<<52 - 1, 2047<<52 - 2}[r.Intn(7)]), "range-limit"
	case 5:
		return fb(sign | uint64(r.Intn(2047))<<52), "power-of-two"
	case 6: // neighbours of 2^53, 2^63, 2^64, 2^31, 2^32
		e := []int{53, 63, 64, 31, 32, 52, 62}[r.Intn(7)]
		return fb(sign | (uint64(1023+e)<<52 + uint64(r.Intn(5)) - 2)), "pow2-neighbour"
	case 7:
		return float64(r.Intn(41)-20) / 2, "small-half"
	case 8: // next to a half: the classic round() traps, e.g. 0.49999999999999994
		h := float64(r.Intn(9)-4) + 0.5
		return math.Float64frombits(math.Float64bits(h) + uint64(r.Intn(3)) - 1), "next-to-half"
	case 9:
		return float64(r.Intn(2001) - 1000), "small-integer"
	case 10:
		return []float64{0.1, 0.2, 0.3, 1e21, 1e22, 1e23, 1e-7, 3.14, 2.5e-324, 1.7976931348623157e308, 4503599627370496.5, 9007199254740993}[r.Intn(12)], "decimal-classic"
	case 11, 12: // moderate exponent, random mantissa
		return fb(sign | uint64(1023-70+r.Intn(140))<<52 | uint64(r.Int63n(1<<52))), "moderate"
	case 13: // few mantissa bits: products and sums stay exact or tie
		return fb(sign | uint64(1023-30+r.Intn(60))<<52 | uint64(r.Intn(16))<<48), "few-bits"
	default:
		f := fb(r.Uint64())
		return f, "random-bits"
	}
}

// FloatString returns a documented string form of a double: decimal point or
// scientific notation, +Inf / -Inf / NaN (case-insensitive).
func FloatString(r *rand.Rand, f float64) string {
	var s string
	switch {
	case f != f:
		s = "NaN"
	case f > math.MaxFloat64:
		s = "+Inf"
	case f < -math.MaxFloat64:
		s = "-Inf"
	default:
		fmtc := byte('g')
		if r.Intn(4) == 0 {
			fmtc = 'e'
		}
		s = strconv.FormatFloat(f, fmtc, -1, 64)
		if !strings.ContainsAny(s, ".e") {
			s += ".0"
		}
	}
	switch r.Intn(4) {
	case 0:
		s = strings.ToUpper(s)
	case 1:
		s = strings.ToLower(s)
	}
	return s
}

// FloatArg wraps a double as a call argument.
func FloatArg(r *rand.Rand, f float64, class string, stringPct int) Arg {
	a := Arg{V: refnum.In(f), Go: f, Typed: f, Class: class}
	if r.Intn(100) < stringPct {
		a.Go = FloatString(r, f)
	}
	return a
}

// Snapshot makes a deep copy of the typed arguments so that mutation of an
// argument by the command can be detected afterwards.
func Snapshot(args []Arg) []string {
	out := make([]string, len(args))
	for i, a := range args {
		out[i] = Full(a.Go)
	}
	return out
}

// Full renders a value completely (type and all digits / bits).
func Full(v any) string {
	switch v := v.(type) {
	case *big.Int:
		return "*big.Int " + v.String()
	case *big.Rat:
		return "*big.Rat " + v.Num().String() + "/" + v.Denom().String()
	case float64:
		return "float64 bits " + strconv.FormatUint(math.Float64bits(v), 16)
	case string:
		return "string " + strconv.Quote(v)
	}
	return Show(v)
}
