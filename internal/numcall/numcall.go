// Package numcall calls Elvish's numeric builtins on the real interpreter and
// captures what they output (values with their dynamic Go types), the error
// they raise, or the panic they die with. Shared by the checks C11 and C12.
package numcall

import (
	"fmt"
	"math/big"
	"runtime/debug"
	"strconv"

	"src.elv.sh/pkg/eval"
	mathmod "src.elv.sh/pkg/mods/math"
	"src.elv.sh/pkg/parse"
	"verifharness/internal/elv"
)

// Caller owns one interpreter and one reusable output port.
type Caller struct {
	Ev   *eval.Evaler
	fns  map[string]eval.Callable
	port *eval.Port
	ch   chan any
}

// MaxOutputs is the capacity of the output channel.
const MaxOutputs = 8192

// Names of the commands the checks use; "name" for builtins, "math:name" for
// the math module.
var Names = []string{"+", "-", "*", "/", "%", "range", "exact-num", "inexact-num", "num",
	"math:abs", "math:ceil", "math:floor", "math:round", "math:round-to-even", "math:trunc",
	"math:min", "math:max", "math:pow"}

func New() *Caller {
	if strconv.IntSize != 64 {
		panic("numcall: the canonical-form oracle assumes a 64-bit int")
	}
	c := &Caller{Ev: elv.New(), fns: map[string]eval.Callable{}, ch: make(chan any, MaxOutputs)}
	for _, n := range Names {
		var v any
		if len(n) > 5 && n[:5] == "math:" {
			v = mathmod.Ns.IndexString(n[5:] + eval.FnSuffix).Get()
		} else {
			v = c.Ev.Builtin().IndexString(n + eval.FnSuffix).Get()
		}
		c.fns[n] = v.(eval.Callable)
	}
	c.port = &eval.Port{File: elv.DevNull(), Chan: c.ch}
	return c
}

// Result of one call.
type Result struct {
	Out      []any
	Overflow bool // more than MaxOutputs values were written
	Err      error
	Panic    any // non-nil: the command panicked
	Stack    string
}

// collect drains the values written by the call that just returned. The call
// runs on the caller's goroutine and the channel is only read here, so a
// command writing more than MaxOutputs values blocks (the framework's
// watchdog then reports the case as inconclusive); the generators never
// expect more than a few thousand outputs.
func (c *Caller) collect() ([]any, bool) {
	var out []any
	for {
		select {
		case v := <-c.ch:
			out = append(out, v)
		default:
			return out, len(out) >= MaxOutputs
		}
	}
}

// Call invokes the command directly (no parsing) with the given argument
// values (typed numbers or strings) and options.
func (c *Caller) Call(name string, args []any, opts map[string]any) (res Result) {
	fn := c.fns[name]
	if fn == nil {
		panic("numcall: unknown command " + name)
	}
	func() {
		defer func() {
			if r := recover(); r != nil {
				res.Panic = r
				res.Stack = stack()
			}
		}()
		res.Err = c.Ev.Call(fn, eval.CallCfg{Args: args, Opts: opts, From: "[verif]"},
			eval.EvalCfg{Ports: []*eval.Port{nil, c.port, nil}})
	}()
	res.Out, res.Overflow = c.collect()
	return res
}

// Eval evaluates source text (with "use math" in effect) after binding the
// given variables, capturing the values written to stdout.
func (c *Caller) Eval(code string, vars map[string]any) (res Result) {
	for k, v := range vars {
		elv.SetVar(c.Ev, k, v)
	}
	func() {
		defer func() {
			if r := recover(); r != nil {
				res.Panic = r
				res.Stack = stack()
			}
		}()
		res.Err = c.Ev.Eval(parse.Source{Name: "[verif]", Code: "use math; " + code},
			eval.EvalCfg{Ports: []*eval.Port{nil, c.port, nil}})
	}()
	res.Out, res.Overflow = c.collect()
	return res
}

func stack() string { return string(debug.Stack()) }

// Show renders an argument or output value with its dynamic type.
func Show(v any) string {
	switch v := v.(type) {
	case int:
		return "int " + strconv.Itoa(v)
	case *big.Int:
		return "*big.Int " + short(v.String())
	case *big.Rat:
		return "*big.Rat " + short(v.Num().String()) + "/" + short(v.Denom().String())
	case float64:
		return "float64 " + strconv.FormatFloat(v, 'g', -1, 64)
	case string:
		return "string " + strconv.Quote(short(v))
	}
	return fmt.Sprintf("%T %v", v, v)
}

func short(s string) string {
	if len(s) > 90 {
		return s[:40] + "…(" + strconv.Itoa(len(s)) + " chars)…" + s[len(s)-40:]
	}
	return s
}

// ShowAll renders a list of values.
func ShowAll(vs []any) []string {
	out := make([]string, len(vs))
	for i, v := range vs {
		out[i] = Show(v)
	}
	return out
}
