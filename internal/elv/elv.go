// Package elv holds small helpers for driving a real Elvish interpreter from
// the checks: evaluating source with captured output, injecting variables,
// classifying errors.
package elv

import (
	"context"
	"errors"
	"os"

	"src.elv.sh/pkg/diag"
	"src.elv.sh/pkg/eval"
	"src.elv.sh/pkg/eval/vals"
	"src.elv.sh/pkg/eval/vars"
	"src.elv.sh/pkg/mods"
	"src.elv.sh/pkg/parse"
)

// Result is the observable outcome of one evaluation.
type Result struct {
	Values []any  // values written to the value channel of stdout
	Bytes  []byte // bytes written to stdout
	Err    error  // parse error, compilation error or exception (nil = ok)
}

// New returns an interpreter with the standard modules installed, like the
// real shell has (minus the editor and the daemon).
func New() *eval.Evaler {
	ev := eval.NewEvaler()
	mods.AddTo(ev)
	return ev
}

// Eval evaluates code with stdout captured (values and bytes) and stderr
// discarded.
func Eval(ev *eval.Evaler, code string) Result {
	return EvalCtx(ev, code, nil, nil)
}

// EvalCtx is Eval with an interrupt context and an optional private global
// namespace.
func EvalCtx(ev *eval.Evaler, code string, ctx context.Context, global *eval.Ns) Result {
	port1, collect, err := eval.CapturePort()
	if err != nil {
		return Result{Err: err}
	}
	cfg := eval.EvalCfg{Ports: []*eval.Port{nil, port1, nil}, Interrupts: ctx, Global: global}
	err = ev.Eval(parse.Source{Name: "[verif]", Code: code}, cfg)
	vs, bs := collect()
	return Result{Values: vs, Bytes: bs, Err: err}
}

// SetVar defines (or redefines) a global variable holding v.
func SetVar(ev *eval.Evaler, name string, v any) {
	ev.ExtendGlobal(eval.BuildNs().AddVar(name, vars.FromInit(v)))
}

// Reason returns the reason of an exception (the error inside it), or nil
// when err is not an exception.
func Reason(err error) error {
	var exc eval.Exception
	if errors.As(err, &exc) {
		return exc.Reason()
	}
	return nil
}

// IsParseError reports whether err is (or contains) a parse error.
func IsParseError(err error) bool { return parse.UnpackErrors(err) != nil }

// IsCompileError reports whether err is (or contains) a compilation error.
func IsCompileError(err error) bool { return eval.UnpackCompilationErrors(err) != nil }

// IsException reports whether err is an Elvish exception.
func IsException(err error) bool { return Reason(err) != nil }

// Reprs returns the single-line repr of each value.
func Reprs(vs []any) []string {
	out := make([]string, len(vs))
	for i, v := range vs {
		out[i] = vals.ReprPlain(v)
	}
	return out
}

// DevNull returns an open handle on /dev/null (never closed).
func DevNull() *os.File {
	f, _ := os.OpenFile(os.DevNull, os.O_RDWR, 0)
	return f
}

var _ = diag.Ranging{}
