//go:build !race

package mon

// RaceEnabled reports whether the binary was built with -race.
const RaceEnabled = false
