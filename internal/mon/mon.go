// Package mon is the monitoring framework shared by all property checks.
//
// A check is a Spec: a list of phases, each a count of independent cases and
// a Run function executing case i. The parent process fans the cases out
// over child processes (the same binary in -worker mode), journals each case
// before it is executed so that a crash or hang can be attributed, merges the
// children's observations, matches violations against known_findings.json,
// writes evidence/<id>.json and decides the exit status.
//
// Verdicts are three-valued: violation (exit 1 + VIOLATION line), held
// (exit 0), inconclusive (counted in evidence; floors unmet -> exit 2).
package mon

import (
	"bufio"
	"encoding/json"
	"flag"
	"fmt"
	"hash/fnv"
	"math/rand"
	"os"
	"os/exec"
	"path/filepath"
	"regexp"
	"runtime"
	"runtime/debug"
	"sort"
	"strconv"
	"strings"
	"sync"
	"syscall"
	"time"
)

// Phase is one family of independent cases.
type Phase struct {
	Name string
	// Number of cases per tier.
	Quick, Thorough int
	// Run executes case c.I. It must derive all random choices from c.Rand.
	Run func(c *Case)
	// Per-case no-progress watchdog. Default 120 s. Its firing is
	// inconclusive unless Spec.HangViolation says otherwise.
	Timeout time.Duration
	// Maximum number of child processes (default: number of CPUs).
	Procs int
	// Cases per child batch; default n/(procs*4), at least 1.
	Batch int
	// GOMAXPROCS for children (default 2).
	GoMaxProcs int
	// Extra environment for children.
	Env []string
}

// Spec describes one property check.
type Spec struct {
	ID          string // "C07"
	Level       string // evidence level, e.g. "exploration"
	Rule        string // how cases are generated and what counts as non-trivial
	Assumptions []string
	Phases      []Phase
	// Floors: counter name (or "distinct_nontrivial"/"evaluations") ->
	// minimum for tier quick; thorough uses the same minimum.
	Floors map[string]int
	// Race: the binary must be built with -race; race reports naming
	// src.elv.sh frames are violations.
	Race bool
	// RaceFilter, if set, decides whether a race report block counts.
	RaceFilter func(block string) bool
	// HangViolation: a watchdog kill whose goroutine dump shows no runnable
	// goroutine in src.elv.sh code is a violation ("all blocked"), sig
	// "hang:<phase>".
	HangViolation bool
	// SpinViolation: a watchdog kill whose goroutine dump shows a goroutine
	// still running (not blocked) inside src.elv.sh code is a violation
	// "spin:<phase>@<frame>" (non-termination). Only for checks whose cases
	// take milliseconds, so that Phase.Timeout without journal progress cannot
	// be explained by load.
	SpinViolation bool
	// ChildSetup runs in every child (and in replay mode) before cases.
	ChildSetup func(e *Env)
	// ParentSetup runs once in the parent before any phase.
	ParentSetup func(e *Env)
	// Finish runs in the parent after all phases were merged; it may add
	// violations or counters through the Env.
	Finish func(e *Env)
}

// Env is per-process state.
type Env struct {
	Spec    *Spec
	Tier    string
	Seed    int64
	Root    string // /verif
	Scratch string // removed on exit by the parent
	Verbose bool
	IsChild bool

	mu  sync.Mutex
	sum *Summary
}

// Viol is one observed violation.
type Viol struct {
	Sig     string          `json:"sig"`
	What    string          `json:"what"`
	Phase   string          `json:"phase"`
	I       int             `json:"index"`
	Witness json.RawMessage `json:"witness,omitempty"`
}

// Summary is what a child hands to the parent, and what the parent accumulates.
type Summary struct {
	Upto         int                        `json:"upto"`
	Evals        int64                      `json:"evals"`
	Counters     map[string]int64           `json:"counters"`
	Maxes        map[string]int64           `json:"maxes"`
	NT           []uint64                   `json:"nt"`
	Samples      map[string]json.RawMessage `json:"samples"`
	Viols        []Viol                     `json:"viols"`
	Inconclusive map[string]int64           `json:"inconclusive"`
	Sets         map[string][]string        `json:"sets"`
	ntset        map[uint64]struct{}
	sets         map[string]map[string]struct{}
}

func newSummary() *Summary {
	return &Summary{Counters: map[string]int64{}, Maxes: map[string]int64{},
		Samples: map[string]json.RawMessage{}, Inconclusive: map[string]int64{},
		ntset: map[uint64]struct{}{}, sets: map[string]map[string]struct{}{}}
}

func (s *Summary) merge(o *Summary) {
	s.Evals += o.Evals
	for k, v := range o.Counters {
		s.Counters[k] += v
	}
	for k, v := range o.Maxes {
		if v > s.Maxes[k] {
			s.Maxes[k] = v
		}
	}
	for _, h := range o.NT {
		s.ntset[h] = struct{}{}
	}
	for k, v := range o.Samples {
		if _, ok := s.Samples[k]; !ok && len(s.Samples) < 8 {
			s.Samples[k] = v
		}
	}
	s.Viols = append(s.Viols, o.Viols...)
	for k, v := range o.Inconclusive {
		s.Inconclusive[k] += v
	}
	for k, vs := range o.Sets {
		m := s.sets[k]
		if m == nil {
			m = map[string]struct{}{}
			s.sets[k] = m
		}
		for _, v := range vs {
			m[v] = struct{}{}
		}
	}
}

func (s *Summary) freeze() {
	s.NT = s.NT[:0]
	for h := range s.ntset {
		s.NT = append(s.NT, h)
	}
	s.Sets = map[string][]string{}
	for k, m := range s.sets {
		for v := range m {
			s.Sets[k] = append(s.Sets[k], v)
		}
	}
}

// Case is the handle given to Phase.Run.
type Case struct {
	Env   *Env
	Phase string
	I     int
	Rand  *rand.Rand
	Dir   string // per-process scratch directory
}

func hash64(parts ...any) uint64 {
	h := fnv.New64a()
	for _, p := range parts {
		fmt.Fprintf(h, "%v\x00", p)
	}
	return h.Sum64()
}

// Q quotes a string so that every byte is visible in JSON and logs.
func Q(s string) string { return strconv.Quote(s) }

func rawJSON(v any) json.RawMessage {
	b, err := json.Marshal(v)
	if err != nil {
		b, _ = json.Marshal(fmt.Sprintf("%+v", v))
	}
	return b
}

// Violation records a violation of the property. sig is a stable signature
// (class of the failure, not the exact input) used for known-finding
// matching and de-duplication; witness is written to the replay file.
func (c *Case) Violation(sig, what string, witness any) {
	e := c.Env
	e.mu.Lock()
	defer e.mu.Unlock()
	n := 0
	for _, v := range e.sum.Viols {
		if v.Sig == sig {
			n++
		}
	}
	e.sum.Counters["violations_seen"]++
	if n >= 3 { // keep at most 3 witnesses per signature per process
		return
	}
	e.sum.Viols = append(e.sum.Viols, Viol{Sig: sig, What: what, Phase: c.Phase, I: c.I, Witness: rawJSON(witness)})
	if e.Verbose {
		fmt.Printf("violation sig=%s what=%s\nwitness=%s\n", sig, what, rawJSON(witness))
	}
}

// Nontrivial marks a distinct non-trivial case, identified by key.
func (c *Case) Nontrivial(key ...any) {
	h := hash64(key...)
	e := c.Env
	e.mu.Lock()
	e.sum.ntset[h] = struct{}{}
	e.mu.Unlock()
}

// Sample offers an example case for the evidence file.
func (c *Case) Sample(kind string, v any) {
	e := c.Env
	e.mu.Lock()
	defer e.mu.Unlock()
	if _, ok := e.sum.Samples[kind]; ok || len(e.sum.Samples) >= 6 {
		return
	}
	e.sum.Samples[kind] = rawJSON(v)
}

// Count adds n to a named counter reported in evidence.
func (c *Case) Count(name string, n int) { c.Env.Count(name, n) }

// Evals counts n additional evaluations (each case counts as one already).
func (c *Case) Evals(n int) {
	c.Env.mu.Lock()
	c.Env.sum.Evals += int64(n)
	c.Env.mu.Unlock()
}

// Max records the maximum of a named gauge.
func (c *Case) Max(name string, n int) {
	e := c.Env
	e.mu.Lock()
	if int64(n) > e.sum.Maxes[name] {
		e.sum.Maxes[name] = int64(n)
	}
	e.mu.Unlock()
}

// Distinct adds a member to a named set whose size is reported in evidence
// (e.g. distinct interleavings seen).
func (c *Case) Distinct(set string, member ...any) {
	e := c.Env
	k := strconv.FormatUint(hash64(member...), 36)
	e.mu.Lock()
	m := e.sum.sets[set]
	if m == nil {
		m = map[string]struct{}{}
		e.sum.sets[set] = m
	}
	m[k] = struct{}{}
	e.mu.Unlock()
}

// Inconclusive records a case that could not be decided.
func (c *Case) Inconclusive(why string) {
	e := c.Env
	e.mu.Lock()
	e.sum.Inconclusive[why]++
	e.mu.Unlock()
}

func (e *Env) Count(name string, n int) {
	e.mu.Lock()
	e.sum.Counters[name] += int64(n)
	e.mu.Unlock()
}

// Counter returns the merged value of a counter (parent, in Finish).
func (e *Env) Counter(name string) int64 {
	e.mu.Lock()
	defer e.mu.Unlock()
	return e.sum.Counters[name]
}

// AddViolation lets ParentSetup/Finish report a violation.
func (e *Env) AddViolation(sig, what string, witness any) {
	e.mu.Lock()
	e.sum.Viols = append(e.sum.Viols, Viol{Sig: sig, What: what, Phase: "finish", I: 0, Witness: rawJSON(witness)})
	e.mu.Unlock()
}

// Quick reports whether the tier is "quick".
func (e *Env) Quick() bool { return e.Tier != "thorough" }

// Pick returns q in the quick tier and t in the thorough tier.
func (e *Env) Pick(q, t int) int {
	if e.Quick() {
		return q
	}
	return t
}

func (p *Phase) n(tier string) int {
	if tier == "thorough" {
		if p.Thorough > 0 {
			return p.Thorough
		}
		return p.Quick
	}
	return p.Quick
}

func caseRand(seed int64, id, phase string, i int) *rand.Rand {
	return rand.New(rand.NewSource(int64(hash64(seed, id, phase, i))))
}

// ---------------------------------------------------------------------------

var (
	flagTier    = flag.String("tier", "quick", "quick|thorough")
	flagSeed    = flag.Int64("seed", 1, "seed")
	flagReplay  = flag.String("replay", "", "replay file")
	flagWorker  = flag.Bool("worker", false, "child mode")
	flagPhase   = flag.String("phase", "", "child: phase")
	flagFrom    = flag.Int("from", 0, "child: first case")
	flagTo      = flag.Int("to", 0, "child: one past last case")
	flagOut     = flag.String("out", "", "child: summary path")
	flagJournal = flag.String("journal", "", "child: journal path")
	flagRoot    = flag.String("root", "", "verif root")
	flagScratch = flag.String("scratch", "", "child: scratch dir")
	flagVerbose = flag.Bool("v", false, "verbose")
	flagCase    = flag.String("case", "", "run single case phase:index in-process")
)

// Main is the entry point of every check binary.
func Main(spec *Spec) {
	flag.Parse()
	root := *flagRoot
	if root == "" {
		root = os.Getenv("VERIF_ROOT")
	}
	if root == "" {
		root = "/verif"
	}
	e := &Env{Spec: spec, Tier: *flagTier, Seed: *flagSeed, Root: root, Verbose: *flagVerbose, sum: newSummary()}
	if spec.Race && !RaceEnabled {
		fmt.Fprintln(os.Stderr, "this check must be built with -race")
		os.Exit(2)
	}
	switch {
	case *flagWorker:
		e.IsChild = true
		e.Scratch = *flagScratch
		childMain(e)
	case *flagReplay != "" || *flagCase != "":
		replayMain(e)
	default:
		parentMain(e)
	}
}

func (e *Env) phase(name string) *Phase {
	for i := range e.Spec.Phases {
		if e.Spec.Phases[i].Name == name {
			return &e.Spec.Phases[i]
		}
	}
	fmt.Fprintf(os.Stderr, "no such phase %q\n", name)
	os.Exit(2)
	return nil
}

var frameRe = regexp.MustCompile(`(?m)^(src\.elv\.sh/[^\s(]+(?:\([^)]*\))?[^\s(]*)\(`)

// innermostFrame extracts the innermost src.elv.sh function from a stack.
func innermostFrame(stack string) string {
	m := frameRe.FindStringSubmatch(stack)
	if m == nil {
		return "?"
	}
	return m[1]
}

var numRe = regexp.MustCompile(`0x[0-9a-f]+|\d+`)

func normMsg(s string) string {
	s = strings.SplitN(s, "\n", 2)[0]
	s = numRe.ReplaceAllString(s, "N")
	if len(s) > 120 {
		s = s[:120]
	}
	return s
}

func (e *Env) runCase(ph *Phase, i int) {
	c := &Case{Env: e, Phase: ph.Name, I: i, Rand: caseRand(e.Seed, e.Spec.ID, ph.Name, i), Dir: e.Scratch}
	defer func() {
		if r := recover(); r != nil {
			st := string(debug.Stack())
			// drop the frames of the recover machinery itself
			if k := strings.Index(st, "panic("); k >= 0 {
				st = st[k:]
			}
			c.Violation("panic:"+normMsg(fmt.Sprint(r))+"@"+innermostFrame(st),
				"panic while executing case: "+fmt.Sprint(r), map[string]any{"stack": st})
		}
	}()
	e.mu.Lock()
	e.sum.Evals++
	e.mu.Unlock()
	ph.Run(c)
}

func (e *Env) writeSummary(path string, upto int) {
	e.mu.Lock()
	e.sum.Upto = upto
	e.sum.freeze()
	b, _ := json.Marshal(e.sum)
	e.mu.Unlock()
	tmp := path + ".tmp"
	os.WriteFile(tmp, b, 0o644)
	os.Rename(tmp, path)
}

func childMain(e *Env) {
	ph := e.phase(*flagPhase)
	if e.Spec.ChildSetup != nil {
		e.Spec.ChildSetup(e)
	}
	j, err := os.OpenFile(*flagJournal, os.O_CREATE|os.O_WRONLY|os.O_APPEND, 0o644)
	if err != nil {
		fmt.Fprintln(os.Stderr, err)
		os.Exit(2)
	}
	last := time.Now()
	for i := *flagFrom; i < *flagTo; i++ {
		fmt.Fprintf(j, "s %d\n", i)
		e.runCase(ph, i)
		fmt.Fprintf(j, "k %d\n", i)
		if time.Since(last) > 300*time.Millisecond {
			e.writeSummary(*flagOut, i+1)
			last = time.Now()
		}
	}
	e.writeSummary(*flagOut, *flagTo)
	os.Exit(0)
}

type replayFile struct {
	Property string          `json:"property"`
	Phase    string          `json:"phase"`
	Index    int             `json:"index"`
	Seed     int64           `json:"seed"`
	Tier     string          `json:"tier"`
	Sig      string          `json:"sig"`
	What     string          `json:"what"`
	Witness  json.RawMessage `json:"witness,omitempty"`
}

func replayMain(e *Env) {
	var rf replayFile
	if *flagReplay != "" {
		b, err := os.ReadFile(*flagReplay)
		if err != nil {
			fmt.Fprintln(os.Stderr, err)
			os.Exit(2)
		}
		if err := json.Unmarshal(b, &rf); err != nil {
			fmt.Fprintln(os.Stderr, err)
			os.Exit(2)
		}
		e.Seed, e.Tier = rf.Seed, rf.Tier
	} else {
		parts := strings.SplitN(*flagCase, ":", 2)
		rf.Phase = parts[0]
		rf.Index, _ = strconv.Atoi(parts[1])
	}
	e.Verbose = true
	dir, _ := os.MkdirTemp(scratchBase(), "verif-replay-")
	e.Scratch = dir
	defer os.RemoveAll(dir)
	if e.Spec.ChildSetup != nil {
		e.Spec.ChildSetup(e)
	}
	ph := e.phase(rf.Phase)
	e.runCase(ph, rf.Index)
	kf := loadKnown(e.Root, e.Spec.ID)
	bad := 0
	for _, v := range e.sum.Viols {
		if k := kf.match(v.Sig); k != nil {
			fmt.Printf("KNOWN-FINDING: property=%s %s\n", e.Spec.ID, k.What)
			continue
		}
		bad++
		fmt.Printf("VIOLATION property=%s replay=%s sig=%s\n", e.Spec.ID, *flagReplay, v.Sig)
	}
	os.RemoveAll(dir)
	fmt.Printf("counters=%v maxes=%v inconclusive=%v evals=%d\n", e.sum.Counters, e.sum.Maxes, e.sum.Inconclusive, e.sum.Evals)
	if bad > 0 {
		os.Exit(1)
	}
	fmt.Println("replay: no violation")
	os.Exit(0)
}

func scratchBase() string {
	if b := os.Getenv("VERIF_SCRATCH"); b != "" {
		os.MkdirAll(b, 0o755)
		return b
	}
	if st, err := os.Stat("/dev/shm"); err == nil && st.IsDir() {
		return "/dev/shm"
	}
	return os.TempDir()
}

// ---------------------------------------------------------------------------
// known findings

type Known struct {
	Property string `json:"property"`
	Key      string `json:"key"`    // exact signature, or
	Match    string `json:"match"`  // regexp on the signature
	Status   string `json:"status"` // open | fixed
	Commit   string `json:"commit,omitempty"`
	What     string `json:"what"`
}

type knownSet []Known

func loadKnown(root, id string) knownSet {
	var ks knownSet
	// known_findings.json is the committed list; checks/<id>/findings.json is
	// a per-check staging file used while a check is being developed.
	for _, path := range []string{filepath.Join(root, "known_findings.json"),
		filepath.Join(root, "checks", strings.ToLower(id), "findings.json")} {
		b, err := os.ReadFile(path)
		if err != nil {
			continue
		}
		var all struct {
			Findings []Known `json:"findings"`
		}
		if err := json.Unmarshal(b, &all); err != nil {
			fmt.Fprintln(os.Stderr, path+":", err)
			os.Exit(2)
		}
		for _, k := range all.Findings {
			if k.Property == id && k.Status == "open" {
				ks = append(ks, k)
			}
		}
	}
	return ks
}

func (ks knownSet) match(sig string) *Known {
	for i := range ks {
		k := &ks[i]
		if k.Key != "" && k.Key == sig {
			return k
		}
		if k.Match != "" {
			if ok, _ := regexp.MatchString(k.Match, sig); ok {
				return k
			}
		}
	}
	return nil
}

// ---------------------------------------------------------------------------
// parent

type batch struct{ from, to int }

func parentMain(e *Env) {
	start := time.Now()
	spec := e.Spec
	dir, err := os.MkdirTemp(scratchBase(), "verif-"+spec.ID+"-")
	if err != nil {
		fmt.Fprintln(os.Stderr, err)
		os.Exit(2)
	}
	e.Scratch = dir
	cleanup := func() { os.RemoveAll(dir) }
	defer cleanup()
	if spec.ParentSetup != nil {
		spec.ParentSetup(e)
	}
	for pi := range spec.Phases {
		runPhase(e, &spec.Phases[pi])
	}
	if spec.Finish != nil {
		spec.Finish(e)
	}
	code := finish(e, time.Since(start))
	cleanup()
	os.Exit(code)
}

func runPhase(e *Env, ph *Phase) {
	n := ph.n(e.Tier)
	if n <= 0 {
		return
	}
	procs := ph.Procs
	if procs <= 0 {
		procs = runtime.NumCPU()
	}
	if v := os.Getenv("VERIF_PROCS"); v != "" {
		if k, err := strconv.Atoi(v); err == nil && k > 0 && k < procs {
			procs = k
		}
	}
	if procs > n {
		procs = n
	}
	bs := ph.Batch
	if bs <= 0 {
		bs = n / (procs * 4)
	}
	if bs < 1 {
		bs = 1
	}
	var mu sync.Mutex
	var queue []batch
	for a := 0; a < n; a += bs {
		b := a + bs
		if b > n {
			b = n
		}
		queue = append(queue, batch{a, b})
	}
	pop := func() (batch, bool) {
		mu.Lock()
		defer mu.Unlock()
		if len(queue) == 0 {
			return batch{}, false
		}
		b := queue[0]
		queue = queue[1:]
		return b, true
	}
	push := func(b batch) {
		mu.Lock()
		queue = append([]batch{b}, queue...)
		mu.Unlock()
	}
	var wg sync.WaitGroup
	var seq int
	for w := 0; w < procs; w++ {
		wg.Add(1)
		go func(w int) {
			defer wg.Done()
			for {
				b, ok := pop()
				if !ok {
					return
				}
				mu.Lock()
				seq++
				k := seq
				mu.Unlock()
				release := acquireSlot()
				rest := runBatch(e, ph, b, fmt.Sprintf("%s.%d", ph.Name, k))
				release()
				if rest.from < rest.to {
					push(rest)
				}
			}
		}(w)
	}
	wg.Wait()
}

// acquireSlot takes one of a fixed number of machine-wide slots (flock on
// files under the scratch base), so that several checks running at the same
// time do not oversubscribe the CPUs with child processes. It only delays
// the start of a child; it never affects a verdict.
func acquireSlot() func() {
	n := 0 // disabled unless VERIF_SLOTS=<n> is set (polling flock is not a fair queue)
	if v := os.Getenv("VERIF_SLOTS"); v != "" {
		if k, err := strconv.Atoi(v); err == nil {
			n = k
		}
	}
	if n <= 0 {
		return func() {}
	}
	dir := filepath.Join(scratchBase(), "verif-slots")
	os.MkdirAll(dir, 0o777)
	start := rand.Intn(n)
	for {
		for i := 0; i < n; i++ {
			f, err := os.OpenFile(filepath.Join(dir, fmt.Sprintf("slot-%d", (start+i)%n)), os.O_CREATE|os.O_RDWR, 0o666)
			if err != nil {
				return func() {}
			}
			if syscall.Flock(int(f.Fd()), syscall.LOCK_EX|syscall.LOCK_NB) == nil {
				return func() { syscall.Flock(int(f.Fd()), syscall.LOCK_UN); f.Close() }
			}
			f.Close()
		}
		time.Sleep(20 * time.Millisecond)
	}
}

// runBatch runs one child over [from,to) and returns the range still to do.
func runBatch(e *Env, ph *Phase, b batch, tag string) batch {
	dir := filepath.Join(e.Scratch, tag)
	os.MkdirAll(dir, 0o755)
	defer os.RemoveAll(dir)
	out := filepath.Join(dir, "summary.json")
	journal := filepath.Join(dir, "journal")
	logf := filepath.Join(dir, "log")
	racePrefix := filepath.Join(dir, "race")
	args := []string{"-worker", "-phase", ph.Name, "-from", strconv.Itoa(b.from), "-to", strconv.Itoa(b.to),
		"-tier", e.Tier, "-seed", strconv.FormatInt(e.Seed, 10), "-out", out, "-journal", journal,
		"-root", e.Root, "-scratch", filepath.Join(dir, "s")}
	os.MkdirAll(filepath.Join(dir, "s"), 0o755)
	cmd := exec.Command(os.Args[0], args...)
	lf, _ := os.Create(logf)
	cmd.Stdout, cmd.Stderr = lf, lf
	gmp := ph.GoMaxProcs
	if gmp <= 0 {
		gmp = 2
	}
	cmd.Env = append(os.Environ(), "GOMAXPROCS="+strconv.Itoa(gmp), "GOTRACEBACK=all")
	if e.Spec.Race {
		cmd.Env = append(cmd.Env, "GORACE=halt_on_error=0 exitcode=0 log_path="+racePrefix)
	}
	cmd.Env = append(cmd.Env, ph.Env...)
	cmd.SysProcAttr = &syscall.SysProcAttr{Setpgid: true}
	if err := cmd.Start(); err != nil {
		fmt.Fprintln(os.Stderr, "start child:", err)
		os.Exit(2)
	}
	timeout := ph.Timeout
	if timeout <= 0 {
		timeout = 120 * time.Second
	}
	done := make(chan error, 1)
	go func() { done <- cmd.Wait() }()
	hung := false
	lastSize, lastChange := int64(-1), time.Now()
	tick := time.NewTicker(250 * time.Millisecond)
	defer tick.Stop()
	var werr error
loop:
	for {
		select {
		case werr = <-done:
			break loop
		case <-tick.C:
			if st, err := os.Stat(journal); err == nil && st.Size() != lastSize {
				lastSize, lastChange = st.Size(), time.Now()
			}
			if time.Since(lastChange) > timeout && !hung {
				hung = true
				cmd.Process.Signal(syscall.SIGQUIT)
				go func() {
					time.Sleep(10 * time.Second)
					syscall.Kill(-cmd.Process.Pid, syscall.SIGKILL)
				}()
			}
		}
	}
	lf.Close()
	// kill any stragglers in the child's process group
	syscall.Kill(-cmd.Process.Pid, syscall.SIGKILL)

	var sum Summary
	if sb, err := os.ReadFile(out); err == nil {
		if json.Unmarshal(sb, &sum) == nil {
			e.mu.Lock()
			e.sum.merge(&sum)
			e.mu.Unlock()
		}
	}
	if e.Spec.Race {
		collectRaces(e, ph, racePrefix, b)
	}
	startI, okI := lastJournal(journal)
	if werr == nil && !hung {
		return batch{}
	}
	// abnormal end: attribute to the journalled case
	logtxt := tail(logf, 256<<10)
	crashI := startI
	if crashI < 0 {
		crashI = b.from
	}
	if okI == crashI { // died between cases
		crashI = okI + 1
	}
	c := &Case{Env: e, Phase: ph.Name, I: crashI}
	if hung {
		blocked := allBlocked(logtxt)
		spin := ""
		if e.Spec.SpinViolation && !blocked {
			spin = spinningFrame(logtxt)
		}
		if spin != "" {
			c.Violation("spin:"+ph.Name+"@"+spin, "case made no progress for "+timeout.String()+" while a goroutine was running in "+spin+" (non-termination)",
				map[string]any{"dump_tail": lastN(logtxt, 6000)})
		} else if e.Spec.HangViolation && blocked {
			c.Violation("hang:"+ph.Name, "evaluation hung with every goroutine blocked",
				map[string]any{"dump_tail": lastN(logtxt, 6000)})
		} else {
			c.Inconclusive("watchdog:" + ph.Name)
			fmt.Fprintf(os.Stderr, "note: watchdog fired in %s case %d (inconclusive)\n", ph.Name, crashI)
		}
	} else {
		msg, frame := crashSig(logtxt)
		if msg == "" {
			// killed by a signal that was not ours, or exit status without panic
			msg = "exit:" + fmt.Sprint(werr)
		}
		c.Violation("crash:"+msg+"@"+frame, "child process died while executing the case: "+msg,
			map[string]any{"log_tail": lastN(logtxt, 6000)})
	}
	return batch{crashI + 1, b.to}
}

func lastN(s string, n int) string {
	if len(s) > n {
		return s[len(s)-n:]
	}
	return s
}

func tail(path string, n int64) string {
	f, err := os.Open(path)
	if err != nil {
		return ""
	}
	defer f.Close()
	st, _ := f.Stat()
	off := st.Size() - n
	if off < 0 {
		off = 0
	}
	b := make([]byte, st.Size()-off)
	f.ReadAt(b, off)
	return string(b)
}

func lastJournal(path string) (started, ok int) {
	started, ok = -1, -1
	f, err := os.Open(path)
	if err != nil {
		return
	}
	defer f.Close()
	sc := bufio.NewScanner(f)
	for sc.Scan() {
		var k byte
		var i int
		if _, err := fmt.Sscanf(sc.Text(), "%c %d", &k, &i); err == nil {
			if k == 's' {
				started = i
			} else {
				ok = i
			}
		}
	}
	return
}

var panicRe = regexp.MustCompile(`(?m)^(panic: .*|fatal error: .*|runtime: .*|SIGSEGV.*|unexpected fault address.*)$`)

// crashSig extracts a normalised message and innermost src.elv.sh frame
// from a Go crash log.
func crashSig(log string) (string, string) {
	loc := panicRe.FindStringIndex(log)
	if loc == nil {
		return "", "?"
	}
	msg := normMsg(log[loc[0]:loc[1]])
	rest := log[loc[1]:]
	// the first goroutine block after the message is the crashing one
	if k := strings.Index(rest, "\n\ngoroutine "); k >= 0 {
		if k2 := strings.Index(rest[k+2:], "\n\n"); k2 >= 0 {
			return msg, innermostFrame(rest[:k+2+k2])
		}
	}
	return msg, innermostFrame(rest)
}

var gorHeadRe = regexp.MustCompile(`(?m)^goroutine \d+ (?:gp=\S+ m=\S+ (?:mp=\S+ )?)?\[([^\],]+)`)

// allBlocked reports whether a SIGQUIT goroutine dump shows no goroutine
// with a src.elv.sh frame in a runnable/running/syscall state.
func allBlocked(dump string) bool {
	k := strings.Index(dump, "SIGQUIT")
	if k < 0 {
		return false
	}
	dump = dump[k:]
	blocks := strings.Split(dump, "\n\n")
	seen := false
	for _, b := range blocks {
		m := gorHeadRe.FindStringSubmatch(b)
		if m == nil {
			continue
		}
		if !strings.Contains(b, "src.elv.sh/") {
			continue
		}
		seen = true
		st := m[1]
		switch {
		case strings.HasPrefix(st, "running"), strings.HasPrefix(st, "runnable"), strings.HasPrefix(st, "syscall"),
			strings.HasPrefix(st, "sleep"), strings.HasPrefix(st, "GC"):
			return false
		}
	}
	return seen
}

// spinningFrame returns the innermost src.elv.sh frame of a goroutine that a
// SIGQUIT dump shows as running or runnable, or "".
func spinningFrame(dump string) string {
	k := strings.Index(dump, "SIGQUIT")
	if k < 0 {
		return ""
	}
	for _, b := range strings.Split(dump[k:], "\n\n") {
		m := gorHeadRe.FindStringSubmatch(b)
		if m == nil || !strings.Contains(b, "src.elv.sh/") {
			continue
		}
		if strings.HasPrefix(m[1], "running") || strings.HasPrefix(m[1], "runnable") {
			return innermostFrame(b)
		}
	}
	return ""
}

// collectRaces reads race detector logs and turns reports into violations.
func collectRaces(e *Env, ph *Phase, prefix string, b batch) {
	files, _ := filepath.Glob(prefix + ".*")
	for _, f := range files {
		data, err := os.ReadFile(f)
		if err != nil {
			continue
		}
		for _, blk := range strings.Split(string(data), "==================") {
			if !strings.Contains(blk, "WARNING: DATA RACE") {
				continue
			}
			e.Count("race_reports", 1)
			if !strings.Contains(blk, "src.elv.sh/") {
				continue
			}
			if e.Spec.RaceFilter != nil && !e.Spec.RaceFilter(blk) {
				continue
			}
			sig := raceSig(blk)
			c := &Case{Env: e, Phase: ph.Name, I: b.from}
			c.Violation("race:"+sig, "data race reported by the Go race detector", map[string]any{
				"report": lastN(blk, 5000), "batch_from": b.from, "batch_to": b.to})
		}
	}
}

var raceFrameRe = regexp.MustCompile(`(?m)^\s+(src\.elv\.sh/[^\s(]+(?:\([^)]*\))?[^\s(]*)\(`)

func raceSig(blk string) string {
	// the two access stacks are the first two paragraphs
	paras := strings.Split(strings.TrimSpace(blk), "\n\n")
	var tops []string
	for _, p := range paras {
		if strings.Contains(p, "Goroutine ") && strings.Contains(p, "created at") {
			continue
		}
		if m := raceFrameRe.FindStringSubmatch(p); m != nil {
			tops = append(tops, m[1])
		}
		if len(tops) == 2 {
			break
		}
	}
	sort.Strings(tops)
	return strings.Join(tops, "|")
}

// ---------------------------------------------------------------------------

func finish(e *Env, wall time.Duration) int {
	spec := e.Spec
	e.mu.Lock()
	defer e.mu.Unlock()
	sum := e.sum
	kf := loadKnown(e.Root, spec.ID)
	// de-duplicate by signature
	bySig := map[string][]Viol{}
	var order []string
	for _, v := range sum.Viols {
		if _, ok := bySig[v.Sig]; !ok {
			order = append(order, v.Sig)
		}
		bySig[v.Sig] = append(bySig[v.Sig], v)
	}
	sort.Strings(order)
	repdir := filepath.Join(e.Root, "replays", spec.ID)
	bad := 0
	knownSeen := map[string]bool{}
	var lines []string
	for _, sig := range order {
		vs := bySig[sig]
		if k := kf.match(sig); k != nil {
			if !knownSeen[k.Key+k.Match] {
				knownSeen[k.Key+k.Match] = true
				lines = append(lines, fmt.Sprintf("KNOWN-FINDING: property=%s %s", spec.ID, k.What))
			}
			continue
		}
		bad++
		v := vs[0]
		os.MkdirAll(repdir, 0o755)
		path := filepath.Join(repdir, fmt.Sprintf("%s-%016x.json", e.Tier, hash64(sig)))
		rf := replayFile{Property: spec.ID, Phase: v.Phase, Index: v.I, Seed: e.Seed, Tier: e.Tier, Sig: v.Sig, What: v.What, Witness: v.Witness}
		b, _ := json.MarshalIndent(rf, "", " ")
		os.WriteFile(path, b, 0o644)
		if bad <= 20 {
			lines = append(lines, fmt.Sprintf("VIOLATION property=%s replay=%s sig=%s (%d witnesses) %s", spec.ID, path, Q(sig), len(vs), v.What))
		}
	}
	nt := len(sum.ntset)
	cov := map[string]any{
		"evaluations":         sum.Evals,
		"distinct_nontrivial": nt,
		"rule":                spec.Rule,
	}
	var samples []any
	var skeys []string
	for k := range sum.Samples {
		skeys = append(skeys, k)
	}
	sort.Strings(skeys)
	for _, k := range skeys {
		samples = append(samples, map[string]any{"kind": k, "case": sum.Samples[k]})
	}
	if samples == nil {
		// the check offered no sample: fall back to replayable case coordinates
		ph0 := "?"
		if len(spec.Phases) > 0 {
			ph0 = spec.Phases[0].Name
		}
		samples = []any{map[string]any{"kind": "case-coordinates", "case": map[string]any{
			"phase": ph0, "index": 0, "seed": e.Seed, "tier": e.Tier,
			"replay": fmt.Sprintf("bin/%s -case %s:0 -seed %d -tier %s", strings.ToLower(spec.ID), ph0, e.Seed, e.Tier)}}}
	}
	cov["samples"] = samples
	for k, v := range sum.Counters {
		cov["n_"+k] = v
	}
	for k, v := range sum.Maxes {
		cov["max_"+k] = v
	}
	for k, m := range sum.sets {
		cov["distinct_"+k] = len(m)
	}
	inc := map[string]int64{}
	for k, v := range sum.Inconclusive {
		inc[k] = v
	}
	cov["inconclusive"] = inc
	var phases []map[string]any
	for i := range spec.Phases {
		phases = append(phases, map[string]any{"name": spec.Phases[i].Name, "cases": spec.Phases[i].n(e.Tier)})
	}
	cov["phases"] = phases
	known := []string{}
	for k := range knownSeen {
		known = append(known, k)
	}
	sort.Strings(known)
	cov["known_findings_observed"] = known
	// floors
	floorFail := []string{}
	for name, min := range spec.Floors {
		var got int64
		switch name {
		case "distinct_nontrivial":
			got = int64(nt)
		case "evaluations":
			got = sum.Evals
		default:
			if v, ok := sum.Counters[name]; ok {
				got = v
			} else if m, ok := sum.sets[name]; ok {
				got = int64(len(m))
			} else {
				got = sum.Maxes[name]
			}
		}
		if got < int64(min) {
			floorFail = append(floorFail, fmt.Sprintf("%s=%d<%d", name, got, min))
		}
	}
	sort.Strings(floorFail)
	cov["floors_unmet"] = floorFail
	ev := map[string]any{
		"property_id": spec.ID,
		"tier":        e.Tier,
		"seed":        e.Seed,
		"level":       spec.Level,
		"coverage":    cov,
		"assumptions": spec.Assumptions,
		"wall_s":      float64(int(wall.Seconds()*100)) / 100,
		"violations":  bad,
	}
	if spec.Assumptions == nil {
		ev["assumptions"] = []string{}
	}
	os.MkdirAll(filepath.Join(e.Root, "evidence"), 0o755)
	b, _ := json.MarshalIndent(ev, "", " ")
	os.WriteFile(filepath.Join(e.Root, "evidence", spec.ID+".json"), append(b, '\n'), 0o644)

	for _, l := range lines {
		fmt.Println(l)
	}
	var incTotal int64
	for _, v := range inc {
		incTotal += v
	}
	fmt.Printf("%s tier=%s seed=%d evaluations=%d distinct_nontrivial=%d inconclusive=%d violations=%d wall=%.1fs\n",
		spec.ID, e.Tier, e.Seed, sum.Evals, nt, incTotal, bad, wall.Seconds())
	if bad > 0 {
		return 1
	}
	if len(floorFail) > 0 {
		fmt.Printf("INCONCLUSIVE property=%s observation floors unmet: %s\n", spec.ID, strings.Join(floorFail, ","))
		return 2
	}
	return 0
}
