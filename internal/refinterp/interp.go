package refinterp

import (
	"fmt"
	"strings"
)

// ---------------------------------------------------------------------------
// Runtime structures

// Variable is a runtime storage location.
type Variable struct {
	val  Value
	name string
}

type scope struct {
	vars   map[*decl]*Variable
	parent *scope
}

func (s *scope) find(d *decl) *Variable {
	for ; s != nil; s = s.parent {
		if v, ok := s.vars[d]; ok {
			return v
		}
	}
	return nil
}

// Closure is a user-defined function value.
type Closure struct {
	L           *Lambda
	env         *scope
	capturesRet bool // defined with fn
	optDefaults []Value
}

// Builtin is a builtin function value.
type Builtin struct {
	Name string
	fn   builtinFn
}

// pipeBuf is the value channel between two pipeline stages, or a capture
// buffer, or the top-level output.
type pipeBuf struct {
	items []Value
	bytes []byte
	// for every item: whether an exception handler (try, ?(), defer, nested
	// pipeline) was active in the writing stage when it was written
	guarded []bool
	isPipe  bool
	// reading side
	pos     int
	partial bool // a reader stopped before the end
	// writing side bookkeeping
	handlerBase int
	// unordered: the content is the output of `keys` on a map with several
	// keys, whose order the reference leaves open
	unordered bool
}

// frame is the dynamic context of a running function body.
type frame struct {
	sc     *scope
	in     *pipeBuf
	out    *pipeBuf
	defers *[]func() *ExcV // of the innermost function; nil at top level
	// ports of the innermost function body (defer must be called with these)
	bodyOut, bodyIn *pipeBuf
}

// pipeCtx tracks variable accesses per stage of a running pipeline.
type pipeCtx struct {
	stage  int
	reads  map[*Variable]uint64
	writes map[*Variable]uint64
}

// Outcome is the observable result of running a program on the model.
type Outcome struct {
	// Status: "ok" (Values/Bytes/Exc valid), "unspecified" (the program left
	// the part of the language the model pins down), "racy" (result depends on
	// pipeline scheduling), "budget" (step budget exceeded).
	Status string
	Why    string
	Values []string // canonical representations, in order
	Bytes  string
	Exc    string   // category of the uncaught exception, "" if none
	Events []string // v-emit log
	Steps  int
	// Kinds counts executed construct kinds (for coverage bookkeeping).
	Kinds map[string]int
}

type budgetExceeded struct{}
type racy struct{ why string }

// Interp is one run of the reference interpreter.
type Interp struct {
	steps    int
	maxSteps int
	handlers int // number of active exception handlers (dynamic)
	pipes    []*pipeCtx
	events   []string
	kinds    map[string]int
	depth    int
	exiting  string // exit path of the function whose deferred actions are running
	// name of the builtin being executed (for input-shape bookkeeping)
	curBuiltin string
}

func (it *Interp) step() {
	it.steps++
	if it.steps > it.maxSteps {
		panic(budgetExceeded{})
	}
}

func (it *Interp) kind(k string) { it.kinds[k]++ }

func unspec(format string, a ...any) {
	panic(unspecified{fmt.Sprintf(format, a...)})
}

func exc(kind, note string) *ExcV { return &ExcV{Cause: &Cause{Kind: kind, Note: note}} }

// Run executes a resolved program on the model.
func Run(p *Program, maxSteps int) (out Outcome) {
	if !p.resolved {
		if err := Resolve(p); err != nil {
			return Outcome{Status: "static-error", Why: err.Error()}
		}
	}
	it := &Interp{maxSteps: maxSteps, kinds: map[string]int{}}
	top := &pipeBuf{}
	defer func() {
		out.Steps = it.steps
		out.Kinds = it.kinds
		if x := recover(); x != nil {
			switch x := x.(type) {
			case unspecified:
				out = Outcome{Status: "unspecified", Why: x.why, Steps: it.steps, Kinds: it.kinds}
			case racy:
				out = Outcome{Status: "racy", Why: x.why, Steps: it.steps, Kinds: it.kinds}
			case budgetExceeded:
				out = Outcome{Status: "budget", Steps: it.steps, Kinds: it.kinds}
			default:
				panic(x)
			}
		}
	}()
	fr := &frame{sc: &scope{vars: map[*decl]*Variable{}}, in: &pipeBuf{}, out: top}
	fr.bodyOut, fr.bodyIn = fr.out, fr.in
	e := it.chunk(fr, p.Body)
	out.Status = "ok"
	for _, v := range top.items {
		out.Values = append(out.Values, Canon(v))
	}
	out.Bytes = string(top.bytes)
	if e != nil {
		out.Exc = e.Cause.Category()
		out.Why = e.Cause.Note
	}
	out.Events = it.events
	return out
}

// ---------------------------------------------------------------------------
// Variable access (with per-stage bookkeeping for pipelines)

func (it *Interp) noteRead(v *Variable) {
	for _, pc := range it.pipes {
		pc.reads[v] |= 1 << uint(pc.stage)
	}
}

func (it *Interp) noteWrite(v *Variable) {
	for _, pc := range it.pipes {
		pc.writes[v] |= 1 << uint(pc.stage)
	}
}

func (it *Interp) getVar(fr *frame, d *decl, name string) Value {
	v := fr.sc.find(d)
	if v == nil {
		// declared statically but its `var` was never executed: cannot happen
		// for generated programs
		unspec("use of variable $%s before its declaration was executed", name)
	}
	it.noteRead(v)
	return v.val
}

func (it *Interp) setVar(fr *frame, d *decl, name string, val Value) *ExcV {
	v := fr.sc.find(d)
	if v == nil {
		unspec("assignment to variable $%s before its declaration was executed", name)
	}
	if strings.HasSuffix(name, "~") {
		switch val.(type) {
		case *Closure, *Builtin:
		default:
			unspec("assigning a non-callable to $%s", name)
		}
	}
	it.noteWrite(v)
	v.val = val
	return nil
}

func (it *Interp) declareVar(fr *frame, d *decl, val Value) {
	v := &Variable{val: val, name: d.name}
	fr.sc.vars[d] = v
	it.noteWrite(v)
}

// ---------------------------------------------------------------------------
// Chunks, pipelines

func (it *Interp) chunk(fr *frame, c *Chunk) *ExcV {
	for _, pl := range c.Pipes {
		if e := it.pipeline(fr, pl); e != nil {
			return e
		}
	}
	return nil
}

func (it *Interp) pipeline(fr *frame, pl *Pipeline) *ExcV {
	it.step()
	if len(pl.Forms) == 1 {
		return it.form(fr, pl.Forms[0])
	}
	it.kind("pipeline")
	n := len(pl.Forms)
	if n > 60 {
		unspec("pipeline too long")
	}
	pc := &pipeCtx{reads: map[*Variable]uint64{}, writes: map[*Variable]uint64{}}
	it.pipes = append(it.pipes, pc)
	it.handlers++ // a multi-stage pipeline collects exceptions: acts as a handler for enclosing stages
	bufs := make([]*pipeBuf, n-1)
	excs := make([]*ExcV, n)
	outAtExc := make([]int, n)
	in := fr.in
	for i, f := range pl.Forms {
		pc.stage = i
		out := fr.out
		if i < n-1 {
			bufs[i] = &pipeBuf{isPipe: true, handlerBase: it.handlers}
			out = bufs[i]
		}
		sub := &frame{sc: fr.sc, in: in, out: out, defers: fr.defers, bodyOut: fr.bodyOut, bodyIn: fr.bodyIn}
		excs[i] = it.form(sub, f)
		if i < n-1 {
			outAtExc[i] = len(bufs[i].items)
			in = bufs[i]
		}
	}
	it.handlers--
	it.pipes = it.pipes[:len(it.pipes)-1]
	// scheduling analysis: a stage whose reader stops before consuming all of
	// its output may be terminated at any later write
	killable := false
	for i := n - 2; i >= 0; i-- {
		b := bufs[i]
		c := b.pos
		if killable {
			c = 0
		}
		killable = c < len(b.items)
		if killable {
			if excs[i] != nil && outAtExc[i] > c {
				panic(racy{"pipeline stage raises an exception after output its reader may not consume"})
			}
			for j := c; j < len(b.items); j++ {
				if b.guarded[j] {
					panic(racy{"pipeline stage writes unconsumed output under an exception handler"})
				}
			}
		}
	}
	for v, w := range pc.writes {
		acc := w | pc.reads[v]
		if w != 0 && acc&(acc-1) != 0 {
			panic(racy{"variable $" + v.name + " written in one pipeline stage and accessed in another"})
		}
	}
	var parts []*ExcV
	for _, e := range excs {
		if e != nil {
			parts = append(parts, e)
		}
	}
	switch len(parts) {
	case 0:
		return nil
	case 1:
		return parts[0]
	}
	return &ExcV{Cause: &Cause{Kind: "pipeline", Parts: parts}}
}

// ---------------------------------------------------------------------------
// Output / input

func (it *Interp) putValue(fr *frame, v Value) {
	b := fr.out
	if b.unordered {
		unspec("output after the keys of a map with several keys")
	}
	b.items = append(b.items, v)
	b.guarded = append(b.guarded, it.handlers > b.handlerBase)
}

func (it *Interp) putBytes(fr *frame, s string) {
	if fr.out.isPipe {
		unspec("byte output into a pipeline")
	}
	fr.out.bytes = append(fr.out.bytes, s...)
}

// readAll consumes the rest of the input.
func (it *Interp) readAll(fr *frame) []Value {
	in := fr.in
	if in.partial {
		unspec("input read again after a reader that stopped early")
	}
	vs := in.items[in.pos:]
	in.pos = len(in.items)
	if in.isPipe {
		it.shape(vs, true)
	}
	return vs
}

// ---------------------------------------------------------------------------
// Function calls

// callArgs is what a callee receives.
type callArgs struct {
	args []Value
	opts []optVal
}

type optVal struct {
	name string
	val  Value
}

// runDefers runs the deferred actions of a function LIFO, each exactly once;
// the first exception (in execution order) is returned.
func runDefers(defers []func() *ExcV) *ExcV {
	var first *ExcV
	for i := len(defers) - 1; i >= 0; i-- {
		if e := defers[i](); e != nil && first == nil {
			first = e
		}
	}
	return first
}

// callBody runs a lambda body in a fresh scope with its own defer list.
func (it *Interp) callBody(fr *frame, env *scope, l *Lambda, bind func(sc *scope), capturesRet bool) *ExcV {
	it.depth++
	if it.depth > 200 {
		panic(budgetExceeded{})
	}
	defer func() { it.depth-- }()
	sc := &scope{vars: map[*decl]*Variable{}, parent: env}
	if bind != nil {
		bind(sc)
	}
	var defers []func() *ExcV
	sub := &frame{sc: sc, in: fr.in, out: fr.out, defers: &defers, bodyOut: fr.out, bodyIn: fr.in}
	hbase := it.handlers
	e := it.chunk(sub, l.Body)
	path := exitPath(e)
	if capturesRet && e != nil && e.Cause.Kind == "flow" && e.Cause.Name == "return" {
		// a function defined with fn that is left with return has finished
		// normally: the return is captured before the deferred actions run
		it.kind("return-captured")
		e = nil
	}
	if len(defers) > 0 {
		it.kind("exit-with-defers:" + path)
		if len(defers) > 1 {
			it.kind("exit-with-several-defers")
		}
	}
	nfailed := 0
	var de *ExcV
	for i := len(defers) - 1; i >= 0; i-- {
		it.exiting = path
		if x := defers[i](); x != nil {
			if nfailed > 0 {
				it.kind("deferred-failed-after-failed")
			}
			nfailed++
			if de == nil {
				de = x
			}
		} else if nfailed > 0 {
			it.kind("deferred-ran-after-failed")
		}
	}
	it.handlers = hbase
	if e == nil {
		if de != nil {
			it.kind("deferred-exception-reported")
		}
		e = de
	} else if de != nil {
		it.kind("deferred-exception-suppressed")
	}
	return e
}

func exitPath(e *ExcV) string {
	switch {
	case e == nil:
		return "normal"
	case e.Cause.Kind == "flow":
		return e.Cause.Name
	}
	return "exception"
}

// callBlock runs a control-flow body (a lambda without arguments).
func (it *Interp) callBlock(fr *frame, l *Lambda) *ExcV {
	return it.callBody(fr, fr.sc, l, nil, false)
}

func (it *Interp) callClosure(fr *frame, c *Closure, ca callArgs) *ExcV {
	it.step()
	it.kind("call")
	l := c.L
	np := len(l.Params)
	var arityErr *ExcV
	if l.Rest < 0 {
		if len(ca.args) != np {
			arityErr = exc("arity", fmt.Sprintf("need %d arguments, got %d", np, len(ca.args)))
		}
	} else if len(ca.args) < np-1 {
		arityErr = exc("arity", fmt.Sprintf("need %d or more arguments, got %d", np-1, len(ca.args)))
	}
	var optErr *ExcV
	for _, o := range ca.opts {
		known := false
		for _, d := range l.Opts {
			if d.Name == o.name {
				known = true
			}
		}
		if !known {
			optErr = exc("unknown-option", "unknown option "+o.name)
		}
	}
	if arityErr != nil && optErr != nil {
		unspec("call with both wrong arity and unknown option")
	}
	if arityErr != nil {
		it.kind("arity-error")
		return arityErr
	}
	if optErr != nil {
		it.kind("unknown-option-error")
		return optErr
	}
	bind := func(sc *scope) {
		if l.Rest < 0 {
			for i, d := range l.paramDecls {
				it.declareVarIn(sc, d, ca.args[i])
			}
		} else {
			nrest := len(ca.args) - (np - 1)
			k := 0
			for i, d := range l.paramDecls {
				if i == l.Rest {
					it.kind("rest-arg")
					it.declareVarIn(sc, d, &ListV{Items: append([]Value(nil), ca.args[k:k+nrest]...)})
					k += nrest
				} else {
					it.declareVarIn(sc, d, ca.args[k])
					k++
				}
			}
		}
		for i, od := range l.Opts {
			val := c.optDefaults[i]
			for _, o := range ca.opts {
				if o.name == od.Name {
					val = o.val
					it.kind("option-given")
				}
			}
			it.declareVarIn(sc, od.decl, val)
		}
	}
	return it.callBody(fr, c.env, l, bind, c.capturesRet)
}

func (it *Interp) declareVarIn(sc *scope, d *decl, val Value) {
	v := &Variable{val: val, name: d.name}
	sc.vars[d] = v
	it.noteWrite(v)
}

// call calls any callable value.
func (it *Interp) call(fr *frame, f Value, ca callArgs) *ExcV {
	switch f := f.(type) {
	case *Closure:
		return it.callClosure(fr, f, ca)
	case *Builtin:
		it.step()
		return it.callBuiltin(fr, f, ca)
	}
	it.kind("call-noncallable")
	if s, ok := f.(string); ok && strings.Contains(s, "/") {
		unspec("string with slash as command")
	}
	return exc("type", "command must be callable, but is "+kindOf(f))
}

// ---------------------------------------------------------------------------
// Forms

func (it *Interp) form(fr *frame, f Form) *ExcV {
	switch f := f.(type) {
	case *Cmd:
		return it.cmd(fr, f)
	case *VarForm:
		it.kind("var")
		var vals []Value
		if f.HasEq {
			var e *ExcV
			vals, e = it.exprs(fr, f.RHS)
			if e != nil {
				return e
			}
		} else {
			for range f.LHS {
				vals = append(vals, Nil{})
			}
		}
		parts, e := it.distribute(f.LHS, vals)
		if e != nil {
			// the variables still come into existence (with $nil)
			for _, l := range f.LHS {
				it.declareVar(fr, l.decl, initialValue(l))
			}
			return e
		}
		for i, l := range f.LHS {
			if strings.HasSuffix(l.Name, "~") {
				switch parts[i].(type) {
				case *Closure, *Builtin:
				default:
					unspec("var of a ~ variable with a non-callable value")
				}
			}
			it.declareVar(fr, l.decl, parts[i])
		}
		return nil
	case *SetForm:
		if f.Tmp {
			it.kind("tmp")
		} else {
			it.kind("set")
		}
		return it.assign(fr, f.LHS, f.RHS, f.Tmp, nil)
	case *WithForm:
		it.kind("with")
		var restores []func() *ExcV
		var e *ExcV
		for _, g := range f.Groups {
			if e = it.assign(fr, g.LHS, g.RHS, false, &restores); e != nil {
				unspec("exception while performing the assignments of with")
			}
		}
		if e == nil {
			it.handlers++
			e = it.callBlock(fr, f.Body)
			it.handlers--
			it.kind("with-exit:" + exitPath(e))
			if len(restores) > 1 {
				it.kind("with-several-restores")
			}
		}
		re := runDefers(restores)
		if e == nil {
			e = re
		}
		return e
	case *DelForm:
		it.kind("del")
		for _, l := range f.Targets {
			if len(l.Indices) == 0 {
				// only removes the name; handled statically
				continue
			}
			if e := it.delElem(fr, l); e != nil {
				return e
			}
		}
		return nil
	case *Logic:
		return it.logic(fr, f)
	case *If:
		it.kind("if")
		for i, c := range f.Conds {
			vs, e := it.expr(fr, c)
			if e != nil {
				return e
			}
			all := true
			for _, v := range vs {
				if !truthy(v) {
					all = false
				}
			}
			if len(vs) != 1 {
				it.kind("if-multi-cond")
			}
			if all {
				if i > 0 {
					it.kind("elif-taken")
				}
				return it.callBlock(fr, f.Bodies[i])
			}
		}
		if f.Else != nil {
			it.kind("else-taken")
			return it.callBlock(fr, f.Else)
		}
		return nil
	case *While:
		it.kind("while")
		ran := false
		for {
			it.step()
			vs, e := it.expr(fr, f.Cond)
			if e != nil {
				return e
			}
			if len(vs) != 1 {
				unspec("while condition with %d values", len(vs))
			}
			if !truthy(vs[0]) {
				break
			}
			ran = true
			e = it.callBlock(fr, f.Body)
			if e != nil {
				if e.Cause.Kind == "flow" && e.Cause.Name == "break" {
					it.kind("loop-break")
					break
				}
				if e.Cause.Kind == "flow" && e.Cause.Name == "continue" {
					it.kind("loop-continue")
					continue
				}
				return e
			}
		}
		if !ran && f.Else != nil {
			it.kind("loop-else")
			return it.callBlock(fr, f.Else)
		}
		return nil
	case *For:
		it.kind("for")
		vs, e := it.expr(fr, f.Cont)
		if e != nil {
			return e
		}
		if len(vs) != 1 {
			unspec("for container with %d values", len(vs))
		}
		li, ok := vs[0].(*ListV)
		if !ok {
			switch vs[0].(type) {
			case *Num, bool, Nil:
				it.kind("for-type-error")
				return exc("type", "cannot iterate "+kindOf(vs[0]))
			}
			unspec("for over a %s", kindOf(vs[0]))
		}
		if fr.sc.find(f.Var.decl) == nil {
			it.declareVar(fr, f.Var.decl, Nil{})
		}
		ran := false
		for _, item := range li.Items {
			it.step()
			ran = true
			if e := it.setVar(fr, f.Var.decl, f.Var.Name, item); e != nil {
				return e
			}
			e = it.callBlock(fr, f.Body)
			if e != nil {
				if e.Cause.Kind == "flow" && e.Cause.Name == "break" {
					it.kind("loop-break")
					break
				}
				if e.Cause.Kind == "flow" && e.Cause.Name == "continue" {
					it.kind("loop-continue")
					continue
				}
				return e
			}
		}
		if !ran && f.Else != nil {
			it.kind("loop-else")
			return it.callBlock(fr, f.Else)
		}
		return nil
	case *Try:
		return it.try(fr, f)
	case *Fn:
		it.kind("fn")
		it.declareVar(fr, f.decl, &Builtin{Name: "nop", fn: modelBuiltins["nop"]})
		c, e := it.makeClosure(fr, f.L)
		if e != nil {
			return e
		}
		c.capturesRet = true
		return it.setVar(fr, f.decl, f.Name+"~", c)
	}
	panic("refinterp: unknown form")
}

func initialValue(l *LV) Value {
	if l.Rest {
		return &ListV{}
	}
	return Nil{}
}

func (it *Interp) try(fr *frame, f *Try) *ExcV {
	it.kind("try")
	it.handlers++
	e := it.callBlock(fr, f.Body)
	it.handlers--
	if e != nil {
		if f.CatchVar != nil {
			it.kind("try-caught")
			if e.Cause.Kind == "flow" {
				it.kind("try-caught-flow")
			}
			if fr.sc.find(f.CatchVar.decl) == nil {
				it.declareVar(fr, f.CatchVar.decl, Nil{})
			}
			if se := it.setVar(fr, f.CatchVar.decl, f.CatchVar.Name, e); se != nil {
				return se
			}
			if f.Finally != nil {
				it.handlers++
			}
			e = it.callBlock(fr, f.Catch)
			if f.Finally != nil {
				it.handlers--
			}
		}
	} else if f.Else != nil {
		it.kind("try-else")
		if f.Finally != nil {
			it.handlers++
		}
		e = it.callBlock(fr, f.Else)
		if f.Finally != nil {
			it.handlers--
		}
	}
	if f.Finally != nil {
		it.kind("try-finally")
		if fe := it.callBlock(fr, f.Finally); fe != nil {
			if e != nil {
				it.kind("finally-replaces")
			}
			e = fe
		}
	}
	return e
}

func (it *Interp) logic(fr *frame, f *Logic) *ExcV {
	it.kind(f.Op)
	var last Value
	switch f.Op {
	case "and":
		last = true
	case "or":
		last = false
	default:
		last = Nil{}
	}
	for i, a := range f.Args {
		vs, e := it.expr(fr, a)
		if e != nil {
			return e
		}
		for _, v := range vs {
			stop := false
			switch f.Op {
			case "and":
				stop = !truthy(v)
			case "or":
				stop = truthy(v)
			default:
				_, isNil := v.(Nil)
				stop = !isNil
			}
			last = v
			if stop {
				if i < len(f.Args)-1 {
					it.kind("short-circuit")
				}
				it.putValue(fr, v)
				return nil
			}
		}
	}
	it.putValue(fr, last)
	return nil
}

func (it *Interp) cmd(fr *frame, c *Cmd) *ExcV {
	var callee Value
	if h, ok := c.Head.(*Str); ok {
		if c.decl != nil {
			callee = it.getVar(fr, c.decl, h.S+"~")
		} else {
			callee = &Builtin{Name: h.S, fn: modelBuiltins[h.S]}
		}
		it.kind("cmd:" + h.S)
	} else {
		vs, e := it.expr(fr, c.Head)
		if e != nil {
			return e
		}
		if len(vs) != 1 {
			unspec("command head with %d values", len(vs))
		}
		callee = vs[0]
		it.kind("cmd-dynamic")
	}
	var ca callArgs
	for _, a := range c.Args {
		vs, e := it.expr(fr, a)
		if e != nil {
			return e
		}
		ca.args = append(ca.args, vs...)
	}
	for _, o := range c.Opts {
		vs, e := it.expr(fr, o.V)
		if e != nil {
			return e
		}
		if len(vs) != 1 {
			unspec("option value with %d values", len(vs))
		}
		for _, prev := range ca.opts {
			if prev.name == o.Name {
				unspec("option given twice")
			}
		}
		ca.opts = append(ca.opts, optVal{o.Name, vs[0]})
	}
	return it.call(fr, callee, ca)
}

func (it *Interp) makeClosure(fr *frame, l *Lambda) (*Closure, *ExcV) {
	c := &Closure{L: l, env: fr.sc}
	for _, o := range l.Opts {
		vs, e := it.expr(fr, o.Default)
		if e != nil {
			return nil, e
		}
		if len(vs) != 1 {
			unspec("option default with %d values", len(vs))
		}
		c.optDefaults = append(c.optDefaults, vs[0])
	}
	return c, nil
}

// ---------------------------------------------------------------------------
// Assignment

// distribute matches values to lvalues (rest variable aware).
func (it *Interp) distribute(lhs []*LV, vals []Value) ([]Value, *ExcV) {
	rest := -1
	for i, l := range lhs {
		if l.Rest {
			rest = i
		}
	}
	if rest < 0 {
		if len(vals) != len(lhs) {
			it.kind("assign-arity-error")
			return nil, exc("arity", fmt.Sprintf("assignment of %d values to %d lvalues", len(vals), len(lhs)))
		}
		return vals, nil
	}
	if len(vals) < len(lhs)-1 {
		it.kind("assign-arity-error")
		return nil, exc("arity", fmt.Sprintf("assignment of %d values to %d lvalues with rest", len(vals), len(lhs)))
	}
	it.kind("rest-lvalue")
	nrest := len(vals) - (len(lhs) - 1)
	out := make([]Value, 0, len(lhs))
	k := 0
	for i := range lhs {
		if i == rest {
			out = append(out, &ListV{Items: append([]Value(nil), vals[k:k+nrest]...)})
			k += nrest
		} else {
			out = append(out, vals[k])
			k++
		}
	}
	return out, nil
}

// assign implements set, tmp and one group of with. When restores is
// non-nil (with) or tmp is set, the previous value of every assigned variable
// is saved first and a restore action is registered.
func (it *Interp) assign(fr *frame, lhs []*LV, rhs []Expr, tmp bool, restores *[]func() *ExcV) *ExcV {
	// index expressions of element lvalues, left to right
	type target struct {
		lv   *LV
		idxs []Value
	}
	targets := make([]target, len(lhs))
	seen := map[*decl]bool{}
	for i, l := range lhs {
		if seen[l.decl] {
			unspec("the same variable assigned twice in one assignment")
		}
		seen[l.decl] = true
		targets[i].lv = l
		for _, ix := range l.Indices {
			vs, e := it.expr(fr, ix)
			if e != nil {
				return e
			}
			if len(vs) != 1 {
				unspec("lvalue index with %d values", len(vs))
			}
			targets[i].idxs = append(targets[i].idxs, vs[0])
		}
	}
	if len(lhs) > 1 {
		for _, t := range targets {
			if len(t.idxs) > 0 {
				// order of index evaluation vs. right-hand side with several
				// lvalues is not pinned down; keep element lvalues single
				unspec("element lvalue among several lvalues")
			}
		}
	}
	// Whether the path of an element lvalue is looked up before or after the
	// right-hand side is evaluated is not pinned down. When the path raises,
	// the outcome is only decided if evaluating the right-hand side can
	// neither raise nor have an effect (literals and variables).
	for _, t := range targets {
		if len(t.idxs) > 0 {
			saved := it.kinds
			it.kinds = map[string]int{}
			_, pe := it.assocPath(it.getVar(fr, t.lv.decl, t.lv.Name), t.idxs, Nil{})
			it.kinds = saved
			if pe != nil {
				for _, r := range rhs {
					switch r := r.(type) {
					case *Str:
					case *Var:
						if r.Explode {
							unspec("element lvalue with a failing path and a non-trivial right-hand side")
						}
					default:
						unspec("element lvalue with a failing path and a non-trivial right-hand side")
					}
				}
			}
		}
	}
	before := make([]string, len(targets))
	for i, t := range targets {
		if len(t.idxs) > 0 {
			before[i] = Canon(it.getVar(fr, t.lv.decl, t.lv.Name))
		}
	}
	vals, e := it.exprs(fr, rhs)
	if e != nil {
		return e
	}
	for i, t := range targets {
		// for the same reason the outcome is not decided when evaluating the
		// right-hand side changes the variable whose element is assigned
		if len(t.idxs) > 0 && Canon(it.getVar(fr, t.lv.decl, t.lv.Name)) != before[i] {
			unspec("right-hand side changes the variable of an element lvalue")
		}
	}
	parts, e := it.distribute(lhs, vals)
	if e != nil {
		for _, t := range targets {
			if len(t.idxs) > 0 {
				// whether the element path or the number of values is checked
				// first is not pinned down
				unspec("wrong number of values for an element lvalue")
			}
		}
		return e
	}
	if tmp && fr.defers == nil {
		unspec("tmp outside a function")
	}
	for i, t := range targets {
		l := t.lv
		old := it.getVar(fr, l.decl, l.Name)
		if tmp || restores != nil {
			saved := old
			d, name := l.decl, l.Name
			isTmp, isElem := tmp, len(t.idxs) > 0
			restore := func() *ExcV {
				it.kind("restore")
				if isTmp {
					it.kind("tmp-restored:" + it.exiting)
				}
				if isElem {
					it.kind("element-restored")
				}
				return it.setVar(fr, d, name, saved)
			}
			if tmp {
				*fr.defers = append(*fr.defers, restore)
			} else {
				*restores = append(*restores, restore)
			}
		}
		if len(t.idxs) == 0 {
			if e := it.setVar(fr, l.decl, l.Name, parts[i]); e != nil {
				return e
			}
			continue
		}
		it.kind("set-element")
		nv, e := it.assocPath(old, t.idxs, parts[i])
		if e != nil {
			return e
		}
		if e := it.setVar(fr, l.decl, l.Name, nv); e != nil {
			return e
		}
	}
	return nil
}

// assocPath returns container with the element at the index path replaced.
func (it *Interp) assocPath(container Value, idxs []Value, val Value) (Value, *ExcV) {
	if len(idxs) == 0 {
		return val, nil
	}
	switch c := container.(type) {
	case *ListV:
		i, e := it.listIndex(c, idxs[0], false)
		if e != nil {
			return nil, e
		}
		inner, e := it.assocPath(c.Items[i], idxs[1:], val)
		if e != nil {
			return nil, e
		}
		n := &ListV{Items: append([]Value(nil), c.Items...)}
		n.Items[i] = inner
		return n, nil
	case *MapV:
		if len(idxs) == 1 {
			return c.assoc(idxs[0], val), nil
		}
		j := c.find(idxs[0])
		if j < 0 {
			it.kind("nokey-error")
			return nil, exc("nokey", "no such key")
		}
		inner, e := it.assocPath(c.Vals[j], idxs[1:], val)
		if e != nil {
			return nil, e
		}
		return c.assoc(idxs[0], inner), nil
	}
	unspec("element assignment into a %s", kindOf(container))
	return nil, nil
}

func (it *Interp) delElem(fr *frame, l *LV) *ExcV {
	var idxs []Value
	for _, ix := range l.Indices {
		vs, e := it.expr(fr, ix)
		if e != nil {
			return e
		}
		if len(vs) != 1 {
			unspec("del index with %d values", len(vs))
		}
		idxs = append(idxs, vs[0])
	}
	old := it.getVar(fr, l.decl, l.Name)
	var rec func(c Value, idxs []Value) (Value, *ExcV)
	rec = func(c Value, idxs []Value) (Value, *ExcV) {
		if len(idxs) == 1 {
			m, ok := c.(*MapV)
			if !ok {
				unspec("del element of a %s", kindOf(c))
			}
			return m.dissoc(idxs[0]), nil
		}
		switch c := c.(type) {
		case *ListV:
			i, e := it.listIndex(c, idxs[0], false)
			if e != nil {
				return nil, e
			}
			inner, e := rec(c.Items[i], idxs[1:])
			if e != nil {
				return nil, e
			}
			n := &ListV{Items: append([]Value(nil), c.Items...)}
			n.Items[i] = inner
			return n, nil
		case *MapV:
			j := c.find(idxs[0])
			if j < 0 {
				it.kind("nokey-error")
				return nil, exc("nokey", "no such key")
			}
			inner, e := rec(c.Vals[j], idxs[1:])
			if e != nil {
				return nil, e
			}
			return c.assoc(idxs[0], inner), nil
		}
		unspec("del inside a %s", kindOf(c))
		return nil, nil
	}
	nv, e := rec(old, idxs)
	if e != nil {
		return e
	}
	return it.setVar(fr, l.decl, l.Name, nv)
}
