package refinterp

import "strconv"

// StreamProgram generates a program that exercises the value-stream and
// container builtins with boundary-shaped inputs: lists of length 0, 1, 2 and
// a few more; $nil, $true and $false as first, last or only element; runs of
// equal elements at the start, in the middle and at the end; both calling
// conventions (pipeline input and iterable argument); counts 0, 1, len and
// len+1 for take and drop; empty and single-entry maps. Every call is wrapped
// so that an exception is shown and the program goes on.
func (g *Gen) StreamProgram() *Program {
	g.scopes = nil
	g.push(false)
	body := &Chunk{}
	// empty and small containers for indexing inside and outside compounds
	decl := func(name string, e Expr) {
		body.Pipes = append(body.Pipes, stmt(&VarForm{LHS: []*LV{{Name: name}}, HasEq: true, RHS: []Expr{e}}))
	}
	decl("el", &ListLit{})
	decl("es", &Str{S: "", Quote: 1})
	decl("em", &MapLit{})
	decl("sl", &ListLit{Items: []Expr{&Str{S: "k"}}})
	decl("ss", &Str{S: "q"})
	decl("sm", &MapLit{Pairs: []Pair{{K: &Str{S: "k"}, V: &Str{S: "zz"}}}})
	n := 6 + g.r.Intn(8)
	for i := 0; i < n; i++ {
		pl := g.streamCall()
		if g.chance(25) {
			pl = g.indexEdge()
		}
		x := g.fresh("x")
		body.Pipes = append(body.Pipes, stmt(&Try{Body: &Lambda{Rest: -1, Body: &Chunk{Pipes: []*Pipeline{pl}}}, CatchVar: &LV{Name: x},
			Catch: &Lambda{Rest: -1, Body: &Chunk{Pipes: []*Pipeline{stmt(call("put", &Var{Name: x}))}}}}))
	}
	g.pop()
	return &Program{Body: body}
}

// element pools; within one pool values are mutually comparable for `order`
func (g *Gen) streamPool() []func() Expr {
	str := func(s string) func() Expr { return func() Expr { return &Str{S: s, Quote: g.r.Intn(3)} } }
	num := func(n int) func() Expr { return func() Expr { return capture(call("num", intLit(n))) } }
	v := func(name string) func() Expr { return func() Expr { return &Var{Name: name} } }
	switch g.r.Intn(8) {
	case 0:
		return []func() Expr{str("g"), str("k"), str("q")}
	case 1:
		return []func() Expr{num(0), num(1), num(2)}
	case 2:
		return []func() Expr{v("true"), v("false")}
	case 3:
		return []func() Expr{v("nil")}
	case 4:
		return []func() Expr{v("nil"), str("g"), str("k")}
	case 5:
		return []func() Expr{v("nil"), v("true"), v("false")}
	case 6:
		return []func() Expr{func() Expr { return &ListLit{} }, func() Expr { return &ListLit{Items: []Expr{&Str{S: "g"}}} }, func() Expr { return &ListLit{Items: []Expr{&Var{Name: "nil"}}} }}
	}
	return []func() Expr{v("nil"), str("g"), num(1), v("true")}
}

// shapedIndices returns a sequence of indices into a pool of size k with a
// boundary shape.
func (g *Gen) shapedIndices(k int) []int {
	a, b, c := 0, 1%k, 2%k
	if g.chance(50) {
		a, b, c = g.r.Intn(k), g.r.Intn(k), g.r.Intn(k)
	}
	switch g.r.Intn(14) {
	case 0:
		return nil
	case 1:
		return []int{a}
	case 2:
		return []int{a, b}
	case 3:
		return []int{a, a}
	case 4:
		return []int{a, a, b}
	case 5:
		return []int{a, b, b}
	case 6:
		return []int{a, b, b, c}
	case 7:
		return []int{a, a, a}
	case 8:
		return []int{a, b, a}
	case 9:
		return []int{0, b, c} // pool element 0 first ($nil in the mixed pools)
	case 10:
		return []int{b, c, 0}
	case 11:
		return []int{0, 0, b, b}
	case 12:
		return []int{a, a, b, c, c}
	}
	out := make([]int, 1+g.r.Intn(5))
	for i := range out {
		out[i] = g.r.Intn(k)
	}
	return out
}

func (g *Gen) shapedElems() ([]Expr, []func() Expr) {
	pool := g.streamPool()
	var out []Expr
	for _, i := range g.shapedIndices(len(pool)) {
		out = append(out, pool[i]())
	}
	return out, pool
}

// streamCall builds one pipeline applying a stream or container builtin to a
// shaped input, through the pipeline or through an argument.
func (g *Gen) streamCall() *Pipeline {
	elems, pool := g.shapedElems()
	n := len(elems)
	list := &ListLit{Items: elems}
	pick := func() Expr { return pool[g.r.Intn(len(pool))]() }
	counts := []int{0, 1, n, n + 1}
	if n > 1 {
		counts = append(counts, n-1)
	}
	cnt := intLit(counts[g.r.Intn(len(counts))])
	x := g.fresh("x")
	lam := func(forms ...Form) *Lambda {
		ch := &Chunk{}
		for _, f := range forms {
			ch.Pipes = append(ch.Pipes, stmt(f))
		}
		return &Lambda{Sig: true, Params: []string{x}, Rest: -1, Body: ch}
	}
	xv := func() Expr { return &Var{Name: x} }
	cond := func() Expr {
		switch g.r.Intn(3) {
		case 0:
			return capture(call("eq", xv(), pick()))
		case 1:
			return capture(call("not-eq", xv(), pick()))
		}
		return capture(call("not", xv()))
	}
	// the builtin, as a form that takes its inputs from the pipeline when
	// inputArg is nil and from the argument otherwise
	type maker func(inputArg Expr) Form
	withInput := func(name string, pre ...Expr) maker {
		return func(in Expr) Form {
			c := call(name, pre...)
			if in != nil {
				c.Args = append(c.Args, in)
			}
			return c
		}
	}
	var mk maker
	argOnly := false
	switch g.r.Intn(22) {
	case 0:
		mk = withInput("compact")
	case 1:
		mk = withInput("take", cnt)
	case 2:
		mk = withInput("drop", cnt)
	case 3:
		mk = withInput("count")
	case 4:
		mk = withInput("all")
	case 5:
		mk = withInput("order")
	case 6:
		mk = func(in Expr) Form {
			c := call("order")
			if in != nil {
				c.Args = append(c.Args, in)
			}
			c.Opts = []Opt{{Name: "reverse", V: &Var{Name: "true"}}}
			return c
		}
	case 7:
		mk = withInput("each", lam(call("put", &ListLit{Items: []Expr{xv()}})))
	case 8:
		flow := []string{"break", "continue"}[g.r.Intn(2)]
		mk = withInput("each", lam(&If{Conds: []Expr{cond()}, Bodies: []*Lambda{{Rest: -1, Body: &Chunk{Pipes: []*Pipeline{stmt(call(flow))}}}}}, call("put", xv())))
	case 9:
		mk = withInput("keep-if", lam(call("put", cond())))
	case 10:
		mk = withInput("keep-if", lam(call("put", &Var{Name: []string{"true", "false"}[g.r.Intn(2)]})))
	case 11:
		// make-map from pairs whose keys follow the shape (repeated keys: the last value is used)
		pairs := &ListLit{}
		for i, e := range elems {
			pairs.Items = append(pairs.Items, &ListLit{Items: []Expr{e, intLit(i)}})
		}
		list = pairs
		mk = withInput("make-map")
	case 12:
		argOnly = true
		mk = func(in Expr) Form { return call("has-value", in, pick()) }
	case 13:
		argOnly = true
		mk = func(in Expr) Form {
			c := call("conj", in)
			for i, k := 0, g.r.Intn(3); i < k; i++ {
				c.Args = append(c.Args, pick())
			}
			return c
		}
	case 14:
		argOnly = true
		idx := []int{0, -1, n - 1, n, 1}[g.r.Intn(5)]
		mk = func(in Expr) Form { return call("assoc", in, intLit(idx), pick()) }
	case 15:
		argOnly = true
		keys := []string{"0", "-1", strconv.Itoa(n - 1), strconv.Itoa(n), "0..", ".." + strconv.Itoa(n), "0.." + strconv.Itoa(n+1), "1..1"}
		mk = func(in Expr) Form { return call("has-key", in, &Str{S: keys[g.r.Intn(len(keys))]}) }
	case 16:
		argOnly = true
		mk = func(in Expr) Form { return call("put", &Index{X: in, Indices: [][]Expr{{&Str{S: []string{"0", "-1", "0..", "1..", "..1", "..0"}[g.r.Intn(6)]}}}}) }
	case 17, 18:
		// maps: keys are strings, values follow the shape
		argOnly = true
		m := &MapLit{}
		for i, e := range elems {
			if i < len(mapKeys) {
				m.Pairs = append(m.Pairs, Pair{K: &Str{S: mapKeys[i]}, V: e})
			}
		}
		key := g.mapKey()
		var f Form
		switch g.r.Intn(6) {
		case 0:
			return &Pipeline{Forms: []Form{call("keys", m), call("order")}}
		case 1:
			return &Pipeline{Forms: []Form{call("keys", m), call("count")}}
		case 2:
			f = call("has-key", m, key)
		case 3:
			f = call("dissoc", m, key)
		case 4:
			f = call("assoc", m, key, pick())
		default:
			f = call("has-value", m, pick())
		}
		return stmt(f)
	case 19:
		// range boundaries feeding a stream builtin
		var r *Cmd
		switch g.r.Intn(7) {
		case 0:
			r = call("range", intLit(0))
		case 1:
			r = call("range", intLit(1))
		case 2:
			r = call("range", intLit(2), intLit(2))
		case 3:
			r = call("range", intLit(3), intLit(0))
		case 4:
			r = call("range", intLit(0), intLit(3))
			r.Opts = []Opt{{Name: "step", V: intLit(2)}}
		case 5:
			r = call("range", intLit(3), intLit(0))
			r.Opts = []Opt{{Name: "step", V: intLit(-2)}}
		default:
			r = call("range", intLit(-1), intLit(2))
		}
		second := []Form{call("count"), call("take", cnt), call("drop", cnt), call("compact"), call("order"), call("all")}[g.r.Intn(6)]
		return &Pipeline{Forms: []Form{r, second}}
	case 20:
		// two stream builtins in a row
		first := []Form{call("compact"), call("all"), call("drop", cnt), call("take", cnt)}[g.r.Intn(4)]
		second := []Form{call("count"), call("compact"), call("put", &ListLit{Items: []Expr{capture(call("all"))}})}[g.r.Intn(3)]
		return &Pipeline{Forms: []Form{call("all", list), first, second}}
	default:
		mk = withInput("compact")
	}
	if argOnly || g.chance(50) {
		return stmt(mk(list))
	}
	// pipeline input: from `all $list` or from `put` of the elements
	var src Form
	if g.chance(50) {
		src = call("all", list)
	} else {
		src = call("put", list.Items...)
	}
	return &Pipeline{Forms: []Form{src, mk(nil)}}
}

// indexEdge: indexing an empty or one-element list, string or map, alone,
// as a part of a compound expression (the index applies to the last primary
// and is evaluated before the concatenation) and applied to a whole compound
// grouped by a braced list.
func (g *Gen) indexEdge() *Pipeline {
	vars := []string{"el", "es", "em", "sl", "ss", "sm"}
	v := vars[g.r.Intn(len(vars))]
	idxs := []string{"0", "7", "-1", "k", "0..", "..0", "1..", "0..1", ".."}
	ix := func() Expr {
		s := idxs[g.r.Intn(len(idxs))]
		if g.chance(20) {
			return capture(call("num", intLit([]int{0, 1, -1, 7}[g.r.Intn(4)])))
		}
		return &Str{S: s}
	}
	indexed := &Index{X: &Var{Name: v}, Indices: [][]Expr{{ix()}}}
	if g.chance(20) {
		indexed.Indices[0] = append(indexed.Indices[0], ix())
	}
	var e Expr
	switch g.r.Intn(6) {
	case 0, 1:
		e = indexed
	case 2:
		e = &Compound{Parts: []Expr{g.strAtom(), indexed}}
	case 3:
		e = &Compound{Parts: []Expr{indexed, g.strAtom()}}
	case 4:
		e = &Compound{Parts: []Expr{g.strAtom(), indexed, intLit(g.r.Intn(3))}}
	default:
		// the whole compound indexed: {g$v}[i]
		e = &Index{X: &Compound{Parts: []Expr{g.strAtom(), &Var{Name: v}}}, Indices: [][]Expr{{ix()}}}
	}
	if g.chance(25) {
		key := []string{"0", "7", "-1", "0..", "..0", "0..1"}[g.r.Intn(6)]
		if v == "em" || v == "sm" {
			key = []string{"k", "q", "0"}[g.r.Intn(3)]
		}
		return stmt(call("has-key", &Var{Name: v}, &Str{S: key}))
	}
	return stmt(call("put", e))
}
