// Command refdev is a development aid for the reference interpreter: it reads
// Elvish source (file argument or stdin), converts it to the refinterp syntax
// tree, runs it on the model and on the real interpreter (both the original
// text and the text printed back from the tree) and shows the outcomes.
//
//	refdev file.elv          one program
//	refdev -elvts file...    every snippet of transcript files (calibration)
package main

import (
	"flag"
	"fmt"
	"io"
	"math/rand"
	"os"
	"sort"
	"strings"
	"time"

	"verifharness/internal/refinterp"
)

func runOne(src string, verbose bool) (status string) {
	p, err := refinterp.FromSource(src)
	if err != nil {
		if verbose {
			fmt.Println("convert:", err)
		}
		return "unsupported"
	}
	if err := refinterp.Resolve(p); err != nil {
		if verbose {
			fmt.Println("resolve:", err)
		}
		return "static:" + err.Error()
	}
	m := refinterp.Run(p, 200000)
	if verbose {
		fmt.Printf("model: %s %s\n  values=%v\n  bytes=%q\n  exc=%q\n  events=%v\n", m.Status, m.Why, m.Values, m.Bytes, m.Exc, m.Events)
	}
	if m.Status != "ok" {
		return "model-" + m.Status + ": " + m.Why
	}
	printed := p.Source()
	for i, text := range []string{src, printed} {
		r := refinterp.RunReal(text, 10*time.Second)
		if verbose {
			fmt.Printf("real[%d]: %s\n  values=%v\n  bytes=%q\n  exc=%q (%s)\n  events=%v\n", i, r.Status, r.Values, r.Bytes, r.Exc, r.ErrMsg, r.Events)
		}
		if r.Status == "timeout" {
			return "timeout"
		}
		if k, what := refinterp.Diff(m, r); k != "" {
			if verbose && i == 1 {
				fmt.Println("printed source:\n" + printed)
			}
			return fmt.Sprintf("MISMATCH[%d] %s: %s", i, k, what)
		}
	}
	return "agree"
}

// snippets extracts the code of every "~> code" entry (with continuation
// lines) of an .elvts file, grouped per section so that earlier entries of a
// section provide the definitions later ones use.
func snippets(text string) [][]string {
	var sections [][]string
	var cur []string
	var code []string
	flush := func() {
		if len(code) > 0 {
			cur = append(cur, strings.Join(code, "\n"))
			code = nil
		}
	}
	for _, line := range strings.Split(text, "\n") {
		switch {
		case strings.HasPrefix(line, "#") || strings.HasPrefix(line, "//"):
			flush()
			if strings.HasPrefix(line, "#") && len(cur) > 0 {
				sections = append(sections, cur)
				cur = nil
			}
		case strings.HasPrefix(line, "~> "):
			flush()
			code = []string{line[3:]}
		case strings.HasPrefix(line, "   ") && len(code) > 0:
			code = append(code, line[3:])
		default:
			flush()
		}
	}
	flush()
	if len(cur) > 0 {
		sections = append(sections, cur)
	}
	return sections
}

func main() {
	elvts := flag.Bool("elvts", false, "arguments are transcript files")
	quiet := flag.Bool("q", false, "only print mismatches")
	genN := flag.Int("gen", 0, "generate and compare this many programs")
	seed := flag.Int64("seed", 1, "seed for -gen")
	ill := flag.Bool("ill", false, "ill-typed programs")
	restore := flag.Bool("restore", false, "tmp/with/defer biased programs")
	show := flag.Int("show", 0, "print this many generated programs")
	stream := flag.Bool("stream", false, "boundary-shaped stream builtin programs")
	flag.Parse()
	if *genN > 0 {
		counts := map[string]int{}
		why := map[string]int{}
		kinds := map[string]int{}
		shown := 0
		for i := 0; i < *genN; i++ {
			r := rand.New(rand.NewSource(*seed*1000003 + int64(i)))
			g := refinterp.NewGen(r, refinterp.GenConfig{IllTyped: *ill, Restore: *restore})
			p := g.Program()
			if *restore {
				p = refinterp.NewGen(r, refinterp.GenConfig{IllTyped: *ill}).RestoreProgram()
			}
			if *stream {
				p = refinterp.NewGen(r, refinterp.GenConfig{}).StreamProgram()
			}
			if *show > 0 && i < *show {
				fmt.Printf("---- program %d\n%s\n", i, p.Source())
			}
			if err := refinterp.Resolve(p); err != nil {
				counts["static"]++
				if shown < 5 {
					shown++
					fmt.Printf("== STATIC %d: %v\n%s\n", i, err, p.Source())
				}
				continue
			}
			m := refinterp.Run(p, 200000)
			counts["model-"+m.Status]++
			if m.Status != "ok" {
				why[m.Status+": "+m.Why]++
				continue
			}
			for k, n := range m.Kinds {
				kinds[k] += n
			}
			if m.Exc != "" {
				counts["model-exc"]++
			}
			re := refinterp.RunReal(p.Source(), 10*time.Second)
			if re.Status == "timeout" {
				counts["timeout"]++
				continue
			}
			if k, what := refinterp.Diff(m, re); k != "" {
				counts["MISMATCH"]++
				if shown < 8 {
					shown++
					small := refinterp.Shrink(p, func(q *refinterp.Program) bool {
						qm := refinterp.Run(q, 200000)
						if qm.Status != "ok" {
							return false
						}
						qr := refinterp.RunReal(q.Source(), 10*time.Second)
						if qr.Status == "timeout" {
							return false
						}
						kk, _ := refinterp.Diff(qm, qr)
						return kk != ""
					}, 3000)
					sm := refinterp.Run(small, 200000)
					sr := refinterp.RunReal(small.Source(), 10*time.Second)
					_, swhat := refinterp.Diff(sm, sr)
					fmt.Printf("== MISMATCH %d %s: %s\n-- shrunk (%d -> %d bytes): %s\n%s\nmodel: %v exc=%q bytes=%q\nreal:  %v exc=%q (%s) bytes=%q\n", i, k, what, len(p.Source()), len(small.Source()), swhat, small.Source(), sm.Values, sm.Exc, sm.Bytes, sr.Values, sr.Exc, sr.ErrMsg, sr.Bytes)
				}
			} else {
				counts["agree"]++
			}
		}
		fmt.Println(counts)
		type kv struct {
			k string
			n int
		}
		var ws []kv
		for k, n := range why {
			ws = append(ws, kv{k, n})
		}
		sort.Slice(ws, func(i, j int) bool { return ws[i].n > ws[j].n })
		for i, w := range ws {
			if i < 25 {
				fmt.Printf("%6d %s\n", w.n, w.k)
			}
		}
		var ks []string
		for k, n := range kinds {
			ks = append(ks, fmt.Sprintf("%s=%d", k, n))
		}
		sort.Strings(ks)
		fmt.Println(strings.Join(ks, " "))
		return
	}
	if *elvts {
		counts := map[string]int{}
		for _, f := range flag.Args() {
			b, err := os.ReadFile(f)
			if err != nil {
				fmt.Println(err)
				continue
			}
			for _, sec := range snippets(string(b)) {
				// each snippet is run as: all earlier snippets of the section
				// (for definitions) followed by itself, outputs of the whole
				src := strings.Join(sec, "\n")
				st := runOne(src, false)
				key := st
				if i := strings.IndexByte(key, ':'); i > 0 {
					key = key[:i]
				}
				if strings.HasPrefix(st, "MISMATCH") {
					key = "MISMATCH"
				}
				counts[key]++
				if strings.HasPrefix(st, "MISMATCH") || (!*quiet && (strings.HasPrefix(st, "model-") || strings.HasPrefix(st, "static"))) {
					fmt.Printf("== %s: %s\n%s\n", f, st, src)
				}
				if st != "agree" && len(sec) > 1 {
					// retry snippets one by one, cumulatively
					for k := range sec {
						st := runOne(strings.Join(sec[:k+1], "\n"), false)
						key := st
						if i := strings.IndexByte(key, ':'); i > 0 {
							key = key[:i]
						}
						if strings.HasPrefix(st, "MISMATCH") {
							key = "MISMATCH"
							fmt.Printf("== %s (prefix %d): %s\n%s\n", f, k, st, strings.Join(sec[:k+1], "\n"))
						}
						counts["prefix-"+key]++
					}
				}
			}
		}
		fmt.Println(counts)
		return
	}
	var src []byte
	if flag.NArg() > 0 {
		src, _ = os.ReadFile(flag.Arg(0))
	} else {
		src, _ = io.ReadAll(os.Stdin)
	}
	fmt.Println(runOne(string(src), true))
}
