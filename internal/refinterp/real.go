package refinterp

import (
	"context"
	"errors"
	"fmt"
	"math/big"
	"sort"
	"strings"
	"sync"
	"time"

	"src.elv.sh/pkg/eval"
	"src.elv.sh/pkg/eval/errs"
	"src.elv.sh/pkg/eval/vals"
	"src.elv.sh/pkg/parse"
)

// RealOutcome is the observable result of running source text on the real
// interpreter, in the same canonical form as Outcome.
type RealOutcome struct {
	Status string // "ok", "parse-error", "compile-error", "timeout"
	Values []string
	Bytes  string
	Exc    string // category, "" if none
	ErrMsg string // the error message (for reports)
	Events []string
}

// CanonReal returns the canonical representation of a value of the real
// interpreter (same format as Canon).
func CanonReal(v any) string {
	switch v := v.(type) {
	case string:
		return canonStr(v)
	case int:
		return canonExactInt(big.NewInt(int64(v)))
	case *big.Int:
		return canonExactInt(v)
	case *big.Rat:
		return canonRat(v)
	case float64:
		return canonFloat(v)
	case bool:
		if v {
			return "$true"
		}
		return "$false"
	case nil:
		return "$nil"
	case vals.List:
		var parts []string
		for it := v.Iterator(); it.HasElem(); it.Next() {
			parts = append(parts, CanonReal(it.Elem()))
		}
		return "[" + strings.Join(parts, " ") + "]"
	case vals.Map:
		var pairs []string
		for it := v.Iterator(); it.HasElem(); it.Next() {
			k, val := it.Elem()
			pairs = append(pairs, CanonReal(k)+"="+CanonReal(val))
		}
		return canonMap(pairs)
	case eval.Exception:
		if v.Reason() == nil {
			return "$ok"
		}
		return "?(" + Category(v.Reason()) + ")"
	case *eval.Closure:
		return "<closure>"
	case eval.Callable:
		return "<builtin " + strings.TrimSuffix(strings.TrimPrefix(vals.ReprPlain(v), "<builtin "), ">") + ">"
	case error:
		return "reason(" + Category(v) + ")"
	}
	return "<other " + vals.Kind(v) + " " + vals.ReprPlain(v) + ">"
}

// Category reduces the reason of a real exception to the comparison key.
func Category(reason error) string {
	if reason == nil {
		return ""
	}
	var exc eval.Exception
	if errors.As(reason, &exc) && exc.Reason() != nil && exc.Reason() != reason {
		return Category(exc.Reason())
	}
	switch r := reason.(type) {
	case eval.FailError:
		return "fail:" + CanonReal(r.Content)
	case eval.Flow:
		return "flow:" + r.Error()
	case eval.PipelineError:
		var parts []string
		for _, e := range r.Errors {
			if e != nil && e.Reason() != nil {
				parts = append(parts, Category(e.Reason()))
			}
		}
		sort.Strings(parts)
		return "pipeline{" + strings.Join(parts, ", ") + "}"
	case errs.ArityMismatch:
		return "arity"
	case errs.OutOfRange:
		return "range"
	case errs.BadValue:
		if r.What == "divisor" {
			return "div0"
		}
		return "type"
	case eval.UnknownOption, eval.UnsupportedOptionsError:
		return "unknown-option"
	case errs.ReaderGone:
		return "reader-gone"
	}
	if reason == eval.ErrNoOptAccepted {
		return "unknown-option"
	}
	msg := reason.Error()
	if strings.HasPrefix(msg, "no such key") {
		return "nokey"
	}
	return "type"
}

var (
	emitMu  sync.Mutex
	emitLog []string
)

// NewEvaler returns a fresh interpreter with the harness builtin v-emit
// installed (it records its arguments in canonical form, whatever the ports
// of the caller are).
func NewEvaler() *eval.Evaler {
	ev := eval.NewEvaler()
	ev.ExtendBuiltin(eval.BuildNs().AddGoFn("v-emit", func(args ...any) {
		parts := make([]string, len(args))
		for i, a := range args {
			parts[i] = CanonReal(a)
		}
		emitMu.Lock()
		emitLog = append(emitLog, strings.Join(parts, " "))
		emitMu.Unlock()
	}))
	return ev
}

// RunReal evaluates src on a fresh real interpreter. The evaluation is
// interrupted after timeout (Status "timeout": undecided, never a verdict).
func RunReal(src string, timeout time.Duration) RealOutcome {
	ev := NewEvaler()
	emitMu.Lock()
	emitLog = nil
	emitMu.Unlock()
	port1, collect, err := eval.CapturePort()
	if err != nil {
		return RealOutcome{Status: "timeout", ErrMsg: err.Error()}
	}
	ctx, cancel := context.WithTimeout(context.Background(), timeout)
	defer cancel()
	cfg := eval.EvalCfg{Ports: []*eval.Port{nil, port1, nil}, Interrupts: ctx}
	err = ev.Eval(parse.Source{Name: "[verif]", Code: src}, cfg)
	vs, bs := collect()
	var out RealOutcome
	out.Status = "ok"
	for _, v := range vs {
		out.Values = append(out.Values, CanonReal(v))
	}
	out.Bytes = string(bs)
	emitMu.Lock()
	out.Events = emitLog
	emitLog = nil
	emitMu.Unlock()
	if err != nil {
		out.ErrMsg = err.Error()
		switch {
		case parse.UnpackErrors(err) != nil:
			out.Status = "parse-error"
		case eval.UnpackCompilationErrors(err) != nil:
			out.Status = "compile-error"
		case ctx.Err() != nil:
			out.Status = "timeout"
		default:
			var exc eval.Exception
			if errors.As(err, &exc) {
				out.Exc = Category(exc.Reason())
			} else {
				out.Exc = "non-exception:" + fmt.Sprintf("%T", err)
			}
		}
	}
	return out
}

// Diff compares a model outcome (Status "ok") with the real one. It returns
// "" when they agree, else a short description; kind tells which part
// differs: "values", "bytes", "exception", "events", "static".
func Diff(m Outcome, r RealOutcome) (kind, what string) {
	if r.Status == "parse-error" || r.Status == "compile-error" {
		return "static", "the real interpreter rejects the program: " + r.ErrMsg
	}
	if len(m.Values) != len(r.Values) {
		return "values", fmt.Sprintf("reference outputs %d values, elvish %d", len(m.Values), len(r.Values))
	}
	for i := range m.Values {
		if m.Values[i] != r.Values[i] {
			return "values", fmt.Sprintf("value #%d: reference %s, elvish %s", i, m.Values[i], r.Values[i])
		}
	}
	if m.Bytes != r.Bytes {
		return "bytes", fmt.Sprintf("byte output: reference %q, elvish %q", m.Bytes, r.Bytes)
	}
	if m.Exc != r.Exc {
		return "exception", fmt.Sprintf("exception: reference %q, elvish %q (%s)", m.Exc, r.Exc, r.ErrMsg)
	}
	if len(m.Events) != len(r.Events) {
		return "events", fmt.Sprintf("reference logs %d events, elvish %d", len(m.Events), len(r.Events))
	}
	for i := range m.Events {
		if m.Events[i] != r.Events[i] {
			return "events", fmt.Sprintf("event #%d: reference %s, elvish %s", i, m.Events[i], r.Events[i])
		}
	}
	return "", ""
}
