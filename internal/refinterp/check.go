package refinterp

import (
	"sort"
	"strings"
	"time"
)

// Verdict is the result of comparing one program on both sides.
type Verdict struct {
	// Status: "agree", "mismatch", "static-error" (the program does not
	// resolve: a generator fault, not a verdict), "unspecified", "racy",
	// "budget" (model side: program discarded), "timeout" (real side:
	// undecided).
	Status string
	Why    string
	Model  Outcome
	Real   RealOutcome
	// for mismatches
	Sig     string
	What    string
	Witness map[string]any
}

// Budget limits the work spent on shrinking inside one process.
type Budget struct {
	FullShrinks int            // remaining full shrinks
	PerSig      map[string]int // witnesses already shrunk per signature
	Steps       int            // model step budget per run
	Timeout     time.Duration  // real side timeout per run
	ShrinkTests int            // predicate evaluations per shrink
}

// NewBudget returns the default budget.
func NewBudget() *Budget {
	return &Budget{FullShrinks: 6, PerSig: map[string]int{}, Steps: 300000, Timeout: 20 * time.Second, ShrinkTests: 1500}
}

func (b *Budget) mismatch(q *Program) (string, string, Outcome, RealOutcome, bool) {
	if Resolve(q) != nil {
		return "", "", Outcome{}, RealOutcome{}, false
	}
	m := Run(q, b.Steps)
	if m.Status != "ok" {
		return "", "", m, RealOutcome{}, false
	}
	r := RunReal(q.Source(), b.Timeout)
	if r.Status == "timeout" {
		return "", "", m, r, false
	}
	k, what := Diff(m, r)
	return k, what, m, r, k != ""
}

// trivia are construct kinds too common to characterise a failure.
var trivia = map[string]bool{"var": true, "list": true, "capture": true, "set": true, "closure": true, "num": true}

func sigOf(kind string, p *Program) string {
	var ks []string
	for k := range p.Kinds() {
		if !trivia[k] {
			ks = append(ks, k)
		}
	}
	sort.Strings(ks)
	if len(ks) > 6 {
		ks = ks[:6]
	}
	return kind + ":" + strings.Join(ks, "+")
}

// mapDefers returns a copy of p in which every `defer <lambda>` call has been
// rewritten by f.
func mapDefers(p *Program, f func(c *Cmd)) *Program {
	q := p.Clone()
	var chunk func(c *Chunk)
	var expr func(e Expr)
	var lambda func(l *Lambda)
	lambda = func(l *Lambda) {
		if l != nil {
			for _, o := range l.Opts {
				expr(o.Default)
			}
			chunk(l.Body)
		}
	}
	exprs := func(es []Expr) {
		for _, e := range es {
			expr(e)
		}
	}
	expr = func(e Expr) {
		switch e := e.(type) {
		case *Capture:
			chunk(e.Body)
		case *ExcCapture:
			chunk(e.Body)
		case *Braced:
			exprs(e.Items)
		case *ListLit:
			exprs(e.Items)
		case *MapLit:
			for _, p := range e.Pairs {
				expr(p.K)
				expr(p.V)
			}
		case *Lambda:
			lambda(e)
		case *Index:
			expr(e.X)
			for _, br := range e.Indices {
				exprs(br)
			}
		case *Compound:
			exprs(e.Parts)
		}
	}
	chunk = func(c *Chunk) {
		if c == nil {
			return
		}
		for _, pl := range c.Pipes {
			for _, fm := range pl.Forms {
				switch fm := fm.(type) {
				case *Cmd:
					if h, ok := fm.Head.(*Str); ok && h.S == "defer" {
						f(fm)
					}
					expr(fm.Head)
					exprs(fm.Args)
					for _, o := range fm.Opts {
						expr(o.V)
					}
				case *VarForm:
					exprs(fm.RHS)
				case *SetForm:
					exprs(fm.RHS)
				case *WithForm:
					for _, g := range fm.Groups {
						exprs(g.RHS)
					}
					lambda(fm.Body)
				case *Logic:
					exprs(fm.Args)
				case *If:
					exprs(fm.Conds)
					for _, b := range fm.Bodies {
						lambda(b)
					}
					lambda(fm.Else)
				case *While:
					expr(fm.Cond)
					lambda(fm.Body)
					lambda(fm.Else)
				case *For:
					expr(fm.Cont)
					lambda(fm.Body)
					lambda(fm.Else)
				case *Try:
					lambda(fm.Body)
					lambda(fm.Catch)
					lambda(fm.Else)
					lambda(fm.Finally)
				case *Fn:
					lambda(fm.L)
				}
			}
		}
	}
	chunk(q.Body)
	return q
}

// emptyDefers empties the body of every deferred lambda literal.
func emptyDefers(p *Program) *Program {
	return mapDefers(p, func(c *Cmd) {
		if len(c.Args) == 1 && len(c.Opts) == 0 {
			c.Args[0] = &Lambda{Rest: -1, Body: &Chunk{}}
		}
	})
}

// noDefers turns every `defer x` into `nop x`.
func noDefers(p *Program) *Program {
	return mapDefers(p, func(c *Cmd) { c.Head = &Str{S: "nop"} })
}

// Check runs p on both sides, and on a mismatch shrinks and classifies it.
func Check(p *Program, b *Budget) Verdict {
	if err := Resolve(p); err != nil {
		return Verdict{Status: "static-error", Why: err.Error()}
	}
	m := Run(p, b.Steps)
	if m.Status != "ok" {
		return Verdict{Status: m.Status, Why: m.Why, Model: m}
	}
	src := p.Source()
	r := RunReal(src, b.Timeout)
	if r.Status == "timeout" {
		return Verdict{Status: "timeout", Model: m, Real: r}
	}
	kind, what := Diff(m, r)
	if kind == "" {
		return Verdict{Status: "agree", Model: m, Real: r}
	}
	v := Verdict{Status: "mismatch", Model: m, Real: r, What: what}
	v.Witness = map[string]any{"source": src, "reference": outcomeJSON(m), "elvish": realJSON(r), "difference": what}
	still := func(q *Program) bool {
		_, _, _, _, bad := b.mismatch(q)
		return bad
	}
	target := p
	// A deferred callback that does nothing cannot be observed; a mismatch
	// that survives emptying every deferred callback is caused by the
	// registration itself. This class gets one fixed signature.
	if p.Kinds()["defer"] {
		// (and the mismatch must really hinge on the registration: without
		// any defer call the two sides agree)
		if pe := emptyDefers(p); still(pe) && !still(noDefers(p)) {
			v.Sig = "defer-empty-callback"
			target = pe
			if b.PerSig[v.Sig] >= 2 {
				v.What = "a deferred callback that does nothing changes the outcome: " + what
				return v
			}
		}
	}
	if v.Sig == "" {
		if b.FullShrinks <= 0 {
			v.Sig = "unshrunk:" + kind
			return v
		}
		b.FullShrinks--
	}
	small := Shrink(target, func(q *Program) bool {
		if v.Sig == "defer-empty-callback" {
			return q.Kinds()["defer"] && still(q) && !still(noDefers(q))
		}
		return still(q)
	}, b.ShrinkTests)
	sk, swhat, sm, sr, ok := b.mismatch(small)
	if !ok {
		// cannot happen (Shrink only keeps programs for which still holds)
		small, sk, swhat, sm, sr = p, kind, what, m, r
	}
	if v.Sig == "" {
		v.Sig = sigOf(sk, small)
	}
	b.PerSig[v.Sig]++
	v.What = swhat + "  in: " + strings.ReplaceAll(small.Source(), "\n", "; ")
	if len(v.What) > 600 {
		v.What = v.What[:600] + "…"
	}
	v.Witness["shrunk_source"] = small.Source()
	v.Witness["shrunk_reference"] = outcomeJSON(sm)
	v.Witness["shrunk_elvish"] = realJSON(sr)
	return v
}

func outcomeJSON(m Outcome) map[string]any {
	return map[string]any{"values": m.Values, "bytes": m.Bytes, "exception": m.Exc, "events": m.Events, "note": m.Why}
}

func realJSON(r RealOutcome) map[string]any {
	return map[string]any{"status": r.Status, "values": r.Values, "bytes": r.Bytes, "exception": r.Exc, "events": r.Events, "error": r.ErrMsg}
}
