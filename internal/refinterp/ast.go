// Package refinterp holds an abstract syntax for the core of the Elvish
// language, a printer from that syntax to Elvish source text, a reference
// interpreter written from the language reference (website/ref/language.md
// and the builtin docs pkg/eval/*.d.elv), a type-directed random program
// generator, a shrinker and the glue that runs a program on the real
// interpreter and compares the observable outcome. It is used by the checks
// for properties C15 and C21.
//
// The reference interpreter works on this package's own syntax tree; the
// Elvish parser is never part of the oracle.
package refinterp

import (
	"strings"
)

// ---------------------------------------------------------------------------
// Expressions

// Expr is an expression; it evaluates to any number of values.
type Expr interface{ exprNode() }

// Str is a string literal. Quote selects the syntax: 0 = bareword when the
// content allows it, 1 = single quotes, 2 = double quotes.
type Str struct {
	S     string
	Quote int
}

// Var is a variable use $name or $@name.
type Var struct {
	Name    string
	Explode bool
	// resolution (filled in by Resolve)
	decl  *decl
	depth int // number of function boundaries between the use and the declaration; -1 = builtin
}

// Capture is an output capture ( chunk ).
type Capture struct{ Body *Chunk }

// ExcCapture is an exception capture ?( chunk ).
type ExcCapture struct{ Body *Chunk }

// Braced is a braced list {a b c}.
type Braced struct{ Items []Expr }

// ListLit is a list literal [a b c].
type ListLit struct{ Items []Expr }

// MapLit is a map literal [&k=v ...].
type MapLit struct{ Pairs []Pair }

// Pair is one key/value pair of a map literal.
type Pair struct{ K, V Expr }

// OptDecl is an option declaration &name=default in a signature.
type OptDecl struct {
	Name    string
	Default Expr
	decl    *decl
}

// Lambda is a function literal. Sig false means no signature list at all.
type Lambda struct {
	Sig    bool
	Params []string
	Rest   int // index in Params of the rest argument, or -1
	Opts   []OptDecl
	Body   *Chunk
	// resolution
	paramDecls []*decl
	scopeID    int
}

// Index is an indexing expression X[i j][k].
type Index struct {
	X       Expr
	Indices [][]Expr
}

// Compound is a compound expression: parts written together.
type Compound struct{ Parts []Expr }

func (*Str) exprNode()        {}
func (*Var) exprNode()        {}
func (*Capture) exprNode()    {}
func (*ExcCapture) exprNode() {}
func (*Braced) exprNode()     {}
func (*ListLit) exprNode()    {}
func (*MapLit) exprNode()     {}
func (*Lambda) exprNode()     {}
func (*Index) exprNode()      {}
func (*Compound) exprNode()   {}

// ---------------------------------------------------------------------------
// Forms

// Form is a command form (ordinary or special).
type Form interface{ formNode() }

// Opt is an option &name=value in an ordinary command.
type Opt struct {
	Name string
	V    Expr
}

// Cmd is an ordinary command. Head is a *Str for a named command (resolved
// statically to $name~) or any other expression for a dynamic head.
type Cmd struct {
	Head Expr
	Args []Expr
	Opts []Opt
	// resolution of a named head
	decl  *decl
	depth int
}

// LV is an lvalue: name, @name or name[i][j].
type LV struct {
	Name    string
	Rest    bool
	Indices []Expr
	decl    *decl
	depth   int
}

// VarForm is `var lvalues [= exprs]`.
type VarForm struct {
	LHS   []*LV
	HasEq bool
	RHS   []Expr
}

// SetForm is `set` or `tmp`.
type SetForm struct {
	Tmp bool
	LHS []*LV
	RHS []Expr
}

// Assign is one group of a `with` command.
type Assign struct {
	LHS []*LV
	RHS []Expr
}

// WithForm is `with lhs = rhs { body }` or `with [lhs = rhs] ... { body }`.
type WithForm struct {
	Bracketed bool
	Groups    []*Assign
	Body      *Lambda
}

// DelForm is `del lvalues`.
type DelForm struct{ Targets []*LV }

// Logic is `and`, `or` or `coalesce`.
type Logic struct {
	Op   string
	Args []Expr
}

// If is if/elif/else.
type If struct {
	Conds  []Expr
	Bodies []*Lambda
	Else   *Lambda
}

// While is while/else.
type While struct {
	Cond Expr
	Body *Lambda
	Else *Lambda
}

// For is for/else.
type For struct {
	Var  *LV
	Cont Expr
	Body *Lambda
	Else *Lambda
}

// Try is try/catch/else/finally.
type Try struct {
	Body      *Lambda
	CatchVar  *LV // nil = no catch clause
	Catch     *Lambda
	Else      *Lambda
	Finally   *Lambda
	catchDecl *decl
}

// Fn is `fn name lambda`.
type Fn struct {
	Name string
	L    *Lambda
	decl *decl
}

func (*Cmd) formNode()      {}
func (*VarForm) formNode()  {}
func (*SetForm) formNode()  {}
func (*WithForm) formNode() {}
func (*DelForm) formNode()  {}
func (*Logic) formNode()    {}
func (*If) formNode()       {}
func (*While) formNode()    {}
func (*For) formNode()      {}
func (*Try) formNode()      {}
func (*Fn) formNode()       {}

// Pipeline is one or more forms joined by |.
type Pipeline struct{ Forms []Form }

// Chunk is a sequence of pipelines.
type Chunk struct{ Pipes []*Pipeline }

// Program is a whole source file.
type Program struct {
	Body *Chunk
	// resolution
	resolved bool
	nscopes  int
}

// ---------------------------------------------------------------------------
// Printer

type printer struct {
	sb strings.Builder
}

// Source prints the program as Elvish source text.
func (p *Program) Source() string {
	var pr printer
	pr.chunk(p.Body, "\n")
	return pr.sb.String()
}

func (pr *printer) w(s string) { pr.sb.WriteString(s) }

func (pr *printer) chunk(c *Chunk, sep string) {
	for i, pl := range c.Pipes {
		if i > 0 {
			pr.w(sep)
		}
		pr.pipeline(pl)
	}
}

func (pr *printer) pipeline(pl *Pipeline) {
	for i, f := range pl.Forms {
		if i > 0 {
			pr.w(" | ")
		}
		pr.form(f)
	}
}

func (pr *printer) lambdaBody(l *Lambda) {
	// control-flow body or lambda literal
	pr.w("{")
	if l.Sig || len(l.Params) > 0 || len(l.Opts) > 0 {
		pr.w("|")
		first := true
		sp := func() {
			if !first {
				pr.w(" ")
			}
			first = false
		}
		for i, p := range l.Params {
			sp()
			if i == l.Rest {
				pr.w("@")
			}
			pr.w(p)
		}
		for _, o := range l.Opts {
			sp()
			pr.w("&" + o.Name + "=")
			pr.expr(o.Default, false)
		}
		pr.w("|")
	}
	pr.w(" ")
	if len(l.Body.Pipes) > 0 {
		pr.chunk(l.Body, "; ")
		pr.w(" ")
	}
	pr.w("}")
}

func (pr *printer) lv(l *LV) {
	if l.Rest {
		pr.w("@")
	}
	pr.w(varName(l.Name))
	for _, ix := range l.Indices {
		pr.w("[")
		pr.expr(ix, false)
		pr.w("]")
	}
}

func (pr *printer) lvs(ls []*LV) {
	for i, l := range ls {
		if i > 0 {
			pr.w(" ")
		}
		pr.lv(l)
	}
}

func (pr *printer) exprs(es []Expr) {
	for _, e := range es {
		pr.w(" ")
		pr.expr(e, false)
	}
}

func (pr *printer) form(f Form) {
	switch f := f.(type) {
	case *Cmd:
		if h, ok := f.Head.(*Str); ok {
			pr.w(h.S) // named commands are always barewords
		} else {
			pr.expr(f.Head, false)
		}
		// options are interleaved deterministically: after the first argument
		// when there is one, else right after the head.
		wroteOpts := false
		writeOpts := func() {
			for _, o := range f.Opts {
				pr.w(" &" + o.Name + "=")
				pr.expr(o.V, false)
			}
			wroteOpts = true
		}
		for i, a := range f.Args {
			if i == 1 {
				writeOpts()
			}
			pr.w(" ")
			pr.expr(a, false)
		}
		if !wroteOpts {
			writeOpts()
		}
	case *VarForm:
		pr.w("var ")
		pr.lvs(f.LHS)
		if f.HasEq {
			pr.w(" =")
			pr.exprs(f.RHS)
		}
	case *SetForm:
		if f.Tmp {
			pr.w("tmp ")
		} else {
			pr.w("set ")
		}
		pr.lvs(f.LHS)
		pr.w(" =")
		pr.exprs(f.RHS)
	case *WithForm:
		pr.w("with ")
		for _, g := range f.Groups {
			if f.Bracketed {
				pr.w("[")
			}
			pr.lvs(g.LHS)
			pr.w(" =")
			pr.exprs(g.RHS)
			if f.Bracketed {
				pr.w("]")
			}
			pr.w(" ")
		}
		pr.lambdaBody(f.Body)
	case *DelForm:
		pr.w("del ")
		pr.lvs(f.Targets)
	case *Logic:
		pr.w(f.Op)
		pr.exprs(f.Args)
	case *If:
		for i := range f.Conds {
			if i == 0 {
				pr.w("if ")
			} else {
				pr.w(" elif ")
			}
			pr.expr(f.Conds[i], false)
			pr.w(" ")
			pr.lambdaBody(f.Bodies[i])
		}
		if f.Else != nil {
			pr.w(" else ")
			pr.lambdaBody(f.Else)
		}
	case *While:
		pr.w("while ")
		pr.expr(f.Cond, false)
		pr.w(" ")
		pr.lambdaBody(f.Body)
		if f.Else != nil {
			pr.w(" else ")
			pr.lambdaBody(f.Else)
		}
	case *For:
		pr.w("for ")
		pr.lv(f.Var)
		pr.w(" ")
		pr.expr(f.Cont, false)
		pr.w(" ")
		pr.lambdaBody(f.Body)
		if f.Else != nil {
			pr.w(" else ")
			pr.lambdaBody(f.Else)
		}
	case *Try:
		pr.w("try ")
		pr.lambdaBody(f.Body)
		if f.CatchVar != nil {
			pr.w(" catch ")
			pr.lv(f.CatchVar)
			pr.w(" ")
			pr.lambdaBody(f.Catch)
		}
		if f.Else != nil {
			pr.w(" else ")
			pr.lambdaBody(f.Else)
		}
		if f.Finally != nil {
			pr.w(" finally ")
			pr.lambdaBody(f.Finally)
		}
	case *Fn:
		pr.w("fn " + f.Name + " ")
		pr.lambdaBody(f.L)
	default:
		panic("refinterp: unknown form")
	}
}

// varName prints a variable name: bare when it only has characters that may
// appear unquoted after $, else single-quoted.
func varName(n string) string {
	ok := n != ""
	for i := 0; i < len(n); i++ {
		c := n[i]
		switch {
		case c >= 'a' && c <= 'z', c >= 'A' && c <= 'Z', c >= '0' && c <= '9', c == '-', c == '_', c == ':', c == '~':
		default:
			ok = false
		}
	}
	if ok {
		return n
	}
	return quoteSingle(n)
}

func isBareSafe(s string) bool {
	if s == "" {
		return false
	}
	for i := 0; i < len(s); i++ {
		c := s[i]
		switch {
		case c >= 'a' && c <= 'z', c >= 'A' && c <= 'Z', c >= '0' && c <= '9':
		case c == '_' || c == '.' || c == '-' || c == '/' || c == ':' || c == '%' || c == '+':
		default:
			return false
		}
	}
	return true
}

func quoteSingle(s string) string {
	return "'" + strings.ReplaceAll(s, "'", "''") + "'"
}

func quoteDouble(s string) string {
	var sb strings.Builder
	sb.WriteByte('"')
	for i := 0; i < len(s); i++ {
		c := s[i]
		switch {
		case c == '"':
			sb.WriteString(`\"`)
		case c == '\\':
			sb.WriteString(`\\`)
		case c == '\n':
			sb.WriteString(`\n`)
		case c == '\t':
			sb.WriteString(`\t`)
		case c < 0x20 || c == 0x7f:
			const hex = "0123456789abcdef"
			sb.WriteString(`\x`)
			sb.WriteByte(hex[c>>4])
			sb.WriteByte(hex[c&15])
		default:
			sb.WriteByte(c)
		}
	}
	sb.WriteByte('"')
	return sb.String()
}

// strLit prints a string literal. mustQuote forces quotes (needed after a
// variable use inside a compound expression).
func strLit(s *Str, mustQuote bool) string {
	q := s.Quote
	if q == 0 && (mustQuote || !isBareSafe(s.S)) {
		q = 1
	}
	// control characters are only expressible in double quotes
	for i := 0; i < len(s.S); i++ {
		if s.S[i] < 0x20 || s.S[i] == 0x7f {
			q = 2
		}
	}
	switch q {
	case 0:
		return s.S
	case 1:
		return quoteSingle(s.S)
	default:
		return quoteDouble(s.S)
	}
}

func (pr *printer) expr(e Expr, afterVar bool) {
	switch e := e.(type) {
	case *Str:
		pr.w(strLit(e, afterVar))
	case *Var:
		pr.w("$")
		if e.Explode {
			pr.w("@")
		}
		pr.w(varName(e.Name))
	case *Capture:
		pr.w("(")
		pr.chunk(e.Body, "; ")
		pr.w(")")
	case *ExcCapture:
		pr.w("?(")
		pr.chunk(e.Body, "; ")
		pr.w(")")
	case *Braced:
		pr.w("{")
		for i, it := range e.Items {
			if i > 0 {
				pr.w(" ")
			}
			pr.expr(it, false)
		}
		pr.w("}")
	case *ListLit:
		pr.w("[")
		for i, it := range e.Items {
			if i > 0 {
				pr.w(" ")
			}
			pr.expr(it, false)
		}
		pr.w("]")
	case *MapLit:
		if len(e.Pairs) == 0 {
			pr.w("[&]")
			return
		}
		pr.w("[")
		for i, p := range e.Pairs {
			if i > 0 {
				pr.w(" ")
			}
			pr.w("&")
			pr.expr(p.K, false)
			pr.w("=")
			pr.expr(p.V, false)
		}
		pr.w("]")
	case *Lambda:
		pr.lambdaBody(e)
	case *Index:
		if _, isCompound := e.X.(*Compound); isCompound {
			// an index binds to the last primary only: a compound indexee has
			// to be grouped with a braced list to be indexed as a whole
			pr.w("{")
			pr.expr(e.X, false)
			pr.w("}")
		} else {
			pr.expr(e.X, afterVar)
		}
		for _, br := range e.Indices {
			pr.w("[")
			for i, ix := range br {
				if i > 0 {
					pr.w(" ")
				}
				pr.expr(ix, false)
			}
			pr.w("]")
		}
	case *Compound:
		prevVar := false
		for _, p := range e.Parts {
			// two adjacent single-quoted strings would read as one string with
			// an embedded quote: switch the second one to double quotes
			before := pr.sb.Len()
			endsQuote := before > 0 && pr.sb.String()[before-1] == '\''
			q := p
			if endsQuote {
				switch x := p.(type) {
				case *Str:
					q = &Str{S: x.S, Quote: 2}
				case *Index:
					if s, ok := x.X.(*Str); ok {
						q = &Index{X: &Str{S: s.S, Quote: 2}, Indices: x.Indices}
					}
				}
			}
			pr.expr(q, prevVar)
			_, prevVar = p.(*Var)
		}
	default:
		panic("refinterp: unknown expression")
	}
}
