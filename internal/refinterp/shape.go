package refinterp

// Bookkeeping of the boundary shapes of the value inputs that the stream
// builtins actually received (reported as counters by the checks, with
// floors): length 0/1/2, $nil first/last/only, boolean elements, runs of
// equal elements at the start, in the middle and at the end, and the two
// calling conventions (pipeline input or iterable argument).

func (it *Interp) shape(items []Value, fromPipe bool) {
	name := it.curBuiltin
	if name == "" {
		return
	}
	conv := "arg"
	if fromPipe {
		conv = "pipe"
	}
	it.kind("shape:from-" + conv)
	it.kind("stream:" + name + ":" + conv)
	n := len(items)
	switch n {
	case 0:
		it.kind("shape:empty")
		it.kind("stream:" + name + ":empty")
		return
	case 1:
		it.kind("shape:single")
	case 2:
		it.kind("shape:two")
	}
	cs := make([]string, n)
	allNil, anyBool := true, false
	for i, v := range items {
		cs[i] = Canon(v)
		if _, isNil := v.(Nil); !isNil {
			allNil = false
		}
		if _, isBool := v.(bool); isBool {
			anyBool = true
		}
	}
	if _, ok := items[0].(Nil); ok {
		it.kind("shape:nil-first")
		it.kind("stream:" + name + ":nil-first")
	}
	if _, ok := items[n-1].(Nil); ok && n > 1 {
		it.kind("shape:nil-last")
	}
	if allNil {
		it.kind("shape:only-nil")
	}
	if anyBool {
		it.kind("shape:bool-elem")
	}
	if n >= 2 {
		allEq := true
		for i := 0; i+1 < n; i++ {
			if cs[i] != cs[i+1] {
				allEq = false
				continue
			}
			switch {
			case i == 0:
				it.kind("shape:run-start")
				it.kind("stream:" + name + ":run-start")
			case i+1 == n-1:
				it.kind("shape:run-end")
			default:
				it.kind("shape:run-middle")
			}
		}
		if n >= 3 && cs[n-2] == cs[n-1] && cs[0] != cs[1] {
			it.kind("shape:run-end-only")
		}
		if allEq {
			it.kind("shape:all-equal")
		}
	}
}

// countShape classifies the count argument of take/drop against the number
// of inputs.
func (it *Interp) countShape(n, length int) {
	switch {
	case n == 0:
		it.kind("count-arg:0")
	case n == length:
		it.kind("count-arg:len")
	case n == length+1:
		it.kind("count-arg:len+1")
	case n == 1:
		it.kind("count-arg:1")
	case n < length:
		it.kind("count-arg:inside")
	default:
		it.kind("count-arg:beyond")
	}
}

// mapShape records the size class of a map argument of a container builtin.
func (it *Interp) mapShape(m *MapV) {
	name := it.curBuiltin
	switch len(m.Keys) {
	case 0:
		it.kind("mapshape:empty")
		it.kind("stream:" + name + ":empty-map")
	case 1:
		it.kind("mapshape:single")
	default:
		it.kind("mapshape:many")
	}
	for _, v := range m.Vals {
		switch v.(type) {
		case Nil:
			it.kind("mapshape:nil-value")
		case bool:
			it.kind("mapshape:bool-value")
		}
	}
}
