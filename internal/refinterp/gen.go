package refinterp

import (
	"fmt"
	"math/rand"
	"strconv"
)

// ---------------------------------------------------------------------------
// Static types used to direct generation. They are approximations: the
// language is dynamically typed and the generator deliberately breaks them in
// a fraction of the programs.

type tkind int

const (
	tStr  tkind = iota // arbitrary string (never number-like)
	tInt               // small exact integer, as a numeric string or a typed number
	tBool
	tList // list of Elem
	tMap  // map from string keys to Elem
	tFn   // callable with signature Sig
	tExc  // exception value or $ok
	tNil
	tFloat // simple inexact number (multiples of 1/4)
)

type gtype struct {
	K    tkind
	Elem *gtype
	Sig  *gsig
}

// gsig describes a generated function.
type gsig struct {
	Params []*gtype
	Rest   int // index of the rest parameter or -1 (its type is the element type)
	Opts   []gopt
	// Out: nil = procedure (any number of outputs); else exactly one output
	// of that type on normal completion
	Out  *gtype
	Pure bool // body generated without assignments to outer variables
	// MayFlow: the body may raise break/continue on purpose (random-break pattern)
	MayFlow bool
}

type gopt struct {
	Name string
	T    *gtype
}

var (
	tyStr   = &gtype{K: tStr}
	tyInt   = &gtype{K: tInt}
	tyBool  = &gtype{K: tBool}
	tyExc   = &gtype{K: tExc}
	tyNil   = &gtype{K: tNil}
	tyFloat = &gtype{K: tFloat}
)

func listOf(e *gtype) *gtype { return &gtype{K: tList, Elem: e} }
func mapOf(e *gtype) *gtype  { return &gtype{K: tMap, Elem: e} }

func (t *gtype) String() string {
	switch t.K {
	case tStr:
		return "str"
	case tInt:
		return "int"
	case tBool:
		return "bool"
	case tList:
		return "list<" + t.Elem.String() + ">"
	case tMap:
		return "map<" + t.Elem.String() + ">"
	case tFn:
		return "fn"
	case tExc:
		return "exc"
	case tNil:
		return "nil"
	case tFloat:
		return "float"
	}
	return "?"
}

func sameType(a, b *gtype) bool {
	if a.K != b.K {
		return false
	}
	switch a.K {
	case tList, tMap:
		return sameType(a.Elem, b.Elem)
	case tFn:
		return a.Sig == b.Sig
	}
	return true
}

// gvar is a variable known to the generator.
type gvar struct {
	name    string
	t       *gtype
	known   int  // known list length, -1 unknown
	keys    []string // known map keys (nil = unknown)
	counter bool // reserved loop counter: never assigned by generated code
	loopVar bool
	isFnVar bool // declared with fn (name without the ~)
	frozen  int  // >0: must not be assigned (read by an upstream pipeline stage)
	level   int  // function nesting level of the declaring scope
}

type gscope struct {
	vars  []*gvar
	isFn  bool // a lambda boundary (all scopes but the first are)
	named bool // body of a function defined with fn (return is captured)
	loop  bool // body of a loop or each callback (break/continue captured)
}

// GenConfig tunes the generator.
type GenConfig struct {
	MaxForms int  // size budget (forms)
	MaxDepth int  // nesting depth of blocks
	IllTyped bool // deliberately break the static types now and then
	// Restore biases the generator towards tmp/with/defer with many exit
	// paths and v-emit logging (property C21).
	Restore bool
}

// Gen generates random programs.
type Gen struct {
	r        *rand.Rand
	cfg      GenConfig
	scopes   []*gscope
	nname    int
	budget   int
	depth    int
	pure     int // >0: no assignments to variables of enclosing scopes, no impure calls
	silent   int // >0: no value/byte output
	reads    map[*gvar]bool
	trackRd  int
	loopNest int
	pureFrom int  // scope level from which assignments are allowed in pure mode
	fnNamed  bool // the lambda being generated is the body of fn
	showFn   string // RestoreProgram: name of the state-logging function
}

// NewGen returns a generator drawing from r.
func NewGen(r *rand.Rand, cfg GenConfig) *Gen {
	if cfg.MaxForms == 0 {
		cfg.MaxForms = 40
	}
	if cfg.MaxDepth == 0 {
		cfg.MaxDepth = 5
	}
	return &Gen{r: r, cfg: cfg}
}

func (g *Gen) chance(pct int) bool { return g.r.Intn(100) < pct }

func (g *Gen) fresh(prefix string) string {
	g.nname++
	return prefix + strconv.Itoa(g.nname)
}

func (g *Gen) push(isFn bool) *gscope {
	s := &gscope{isFn: isFn}
	g.scopes = append(g.scopes, s)
	return s
}

func (g *Gen) pop() { g.scopes = g.scopes[:len(g.scopes)-1] }

func (g *Gen) cur() *gscope { return g.scopes[len(g.scopes)-1] }

func (g *Gen) level() int { return len(g.scopes) - 1 }

func (g *Gen) declare(name string, t *gtype) *gvar {
	v := &gvar{name: name, t: t, known: -1, level: g.level()}
	g.cur().vars = append(g.cur().vars, v)
	return v
}

// visible returns the variables that can be referenced now (shadowed ones
// removed), innermost first.
func (g *Gen) visible() []*gvar {
	seen := map[string]bool{}
	var out []*gvar
	for i := len(g.scopes) - 1; i >= 0; i-- {
		vs := g.scopes[i].vars
		for j := len(vs) - 1; j >= 0; j-- {
			v := vs[j]
			if v.t.K == tkind(-1) {
				continue
			}
			key := v.name
			if v.isFnVar {
				key += "~"
			}
			if !seen[key] {
				seen[key] = true
				out = append(out, v)
			}
		}
	}
	return out
}

func (g *Gen) varsOf(pred func(v *gvar) bool) []*gvar {
	var out []*gvar
	for _, v := range g.visible() {
		if pred(v) {
			out = append(out, v)
		}
	}
	return out
}

func (g *Gen) pickVar(pred func(v *gvar) bool) *gvar {
	vs := g.varsOf(pred)
	if len(vs) == 0 {
		return nil
	}
	// prefer recently declared variables a little
	if g.chance(40) {
		return vs[g.r.Intn((len(vs)+1)/2)]
	}
	return vs[g.r.Intn(len(vs))]
}

func (g *Gen) use(v *gvar) *Var {
	if g.trackRd > 0 {
		g.reads[v] = true
	}
	n := v.name
	if v.isFnVar {
		n += "~"
	}
	return &Var{Name: n}
}

// assignable reports whether generated code may assign v here.
func (g *Gen) assignable(v *gvar) bool {
	if v.counter || v.isFnVar || v.frozen > 0 || v.t.K == tFn {
		return false
	}
	if g.pure > 0 && v.level < g.pureLevel() {
		return false
	}
	return true
}

// pureLevel is the scope level from which on assignments are allowed in pure
// mode (the innermost lambda that started pure mode).
func (g *Gen) pureLevel() int { return g.pureFrom }

// ---------------------------------------------------------------------------
// literals

var strWords = []string{"g", "k", "q", "zz", "hj", "kum", "Rw", "s-k", "w.v", "m_q", "u z", "j's", "$q", "*", "", "g=h", "v\"w", "r#", "~k", "h\tj"}

func (g *Gen) strLit() *Str {
	s := &Str{S: strWords[g.r.Intn(len(strWords))]}
	if g.chance(60) {
		s.S = strWords[g.r.Intn(8)]
	}
	s.Quote = g.r.Intn(3)
	return s
}

func (g *Gen) smallInt() int {
	switch g.r.Intn(10) {
	case 0:
		return -1 - g.r.Intn(3)
	case 1:
		return 10 + g.r.Intn(20)
	}
	return g.r.Intn(6)
}

func intLit(n int) *Str { return &Str{S: strconv.Itoa(n)} }

func call(name string, args ...Expr) *Cmd { return &Cmd{Head: &Str{S: name}, Args: args} }

func capture(forms ...Form) *Capture {
	c := &Chunk{}
	for _, f := range forms {
		c.Pipes = append(c.Pipes, &Pipeline{Forms: []Form{f}})
	}
	return &Capture{Body: c}
}

func stmt(f Form) *Pipeline { return &Pipeline{Forms: []Form{f}} }

// ---------------------------------------------------------------------------
// types

func (g *Gen) randType(depth int) *gtype {
	n := g.r.Intn(100)
	switch {
	case n < 30:
		return tyInt
	case n < 55:
		return tyStr
	case n < 65:
		return tyBool
	case n < 82 && depth < 2:
		return listOf(g.randType(depth + 1))
	case n < 92 && depth < 2:
		return mapOf(g.randType(depth + 1))
	case n < 95:
		return tyFloat
	case n < 97:
		return tyNil
	}
	return tyInt
}

func (g *Gen) scalarType() *gtype {
	switch g.r.Intn(5) {
	case 0, 1:
		return tyInt
	case 2, 3:
		return tyStr
	}
	return tyBool
}

// ---------------------------------------------------------------------------
// expressions

// expr generates an expression that evaluates to exactly one value of type t
// (when the program is well-typed and no exception occurs).
func (g *Gen) expr(t *gtype, depth int) Expr {
	if g.cfg.IllTyped && g.chance(4) {
		t = g.randType(1)
	}
	// variables of the right type
	if depth > 3 || g.chance(35) {
		if v := g.pickVar(func(v *gvar) bool { return sameType(v.t, t) && !v.isFnVar }); v != nil {
			return g.use(v)
		}
	}
	if depth > 3 {
		return g.leaf(t)
	}
	d := depth + 1
	switch t.K {
	case tInt:
		switch g.r.Intn(14) {
		case 0, 1, 2:
			return g.leaf(t)
		case 3:
			return capture(call("+", g.expr(tyInt, d), g.expr(tyInt, d)))
		case 4:
			return capture(call("-", g.expr(tyInt, d), g.expr(tyInt, d)))
		case 5:
			return capture(call("*", g.expr(tyInt, d), intLit(g.r.Intn(4))))
		case 6:
			return capture(call("%", g.expr(tyInt, d), intLit(2+g.r.Intn(3))))
		case 7:
			return capture(call("count", g.expr(listOf(g.scalarType()), d)))
		case 8:
			if e := g.indexInto(t, d); e != nil {
				return e
			}
		case 9:
			return capture(call("num", g.leaf(tyInt)))
		case 10:
			if e := g.callFn(t, d); e != nil {
				return e
			}
		case 11:
			// compound of digits is a number-like string
			return &Compound{Parts: []Expr{intLit(1 + g.r.Intn(3)), g.compoundPart(tyInt, d)}}
		case 12:
			return capture(call("-", g.expr(tyInt, d)))
		case 13:
			return capture(call("+", g.expr(tyInt, d), g.expr(tyInt, d), g.expr(tyInt, d)))
		}
		return g.leaf(t)
	case tFloat:
		switch g.r.Intn(6) {
		case 0:
			return capture(call("+", g.expr(tyFloat, d), g.expr(tyInt, d)))
		case 1:
			return capture(call("*", g.expr(tyFloat, d), intLit(1+g.r.Intn(3))))
		case 2:
			return capture(call("/", g.expr(tyFloat, d), intLit(2)))
		case 3:
			return capture(call("num", g.leaf(tyFloat)))
		}
		return g.leaf(t)
	case tStr:
		switch g.r.Intn(10) {
		case 0, 1, 2:
			return g.leaf(t)
		case 3, 4:
			// compound: a string part guarantees the result is not number-like
			parts := []Expr{g.strAtom()}
			n := 1 + g.r.Intn(2)
			for i := 0; i < n; i++ {
				parts = append(parts, g.compoundPart(g.scalarNonBool(), d))
			}
			if g.chance(50) {
				parts[0], parts[len(parts)-1] = parts[len(parts)-1], parts[0]
			}
			return &Compound{Parts: parts}
		case 5:
			if e := g.indexInto(t, d); e != nil {
				return e
			}
		case 6:
			if e := g.callFn(t, d); e != nil {
				return e
			}
		case 7:
			return capture(call("to-string", g.expr(tyStr, d)))
		case 8:
			// string indexing (ASCII)
			return &Index{X: &Str{S: "gkqzhj"}, Indices: [][]Expr{{intLit(g.r.Intn(6))}}}
		case 9:
			return capture(&Logic{Op: "coalesce", Args: []Expr{&Var{Name: "nil"}, g.expr(tyStr, d)}})
		}
		return g.leaf(t)
	case tBool:
		switch g.r.Intn(12) {
		case 0, 1:
			return g.leaf(t)
		case 2:
			ops := []string{"<", "<=", "==", "!=", ">", ">="}
			return capture(call(ops[g.r.Intn(len(ops))], g.expr(tyInt, d), g.expr(tyInt, d)))
		case 3:
			st := g.scalarType()
			return capture(call("eq", g.expr(st, d), g.expr(st, d)))
		case 4:
			return capture(call("not", g.expr(tyBool, d)))
		case 5:
			lt := listOf(g.scalarType())
			return capture(call("has-key", g.expr(lt, d), intLit(g.r.Intn(5))))
		case 6:
			mt := mapOf(g.scalarType())
			return capture(call("has-key", g.expr(mt, d), g.mapKey()))
		case 7:
			op := []string{"and", "or"}[g.r.Intn(2)]
			return capture(&Logic{Op: op, Args: []Expr{g.expr(tyBool, d), g.expr(tyBool, d)}})
		case 8:
			return capture(call("bool", g.expr(tyExc, d)))
		case 9:
			if e := g.callFn(t, d); e != nil {
				return e
			}
		case 10:
			return capture(call("<", g.expr(tyInt, d), g.expr(tyInt, d), g.expr(tyInt, d)))
		case 11:
			lt := listOf(g.scalarType())
			return capture(call("has-value", g.expr(lt, d), g.expr(lt.Elem, d)))
		}
		return g.leaf(t)
	case tList:
		switch g.r.Intn(12) {
		case 0, 1, 2, 3:
			return g.listLit(t, d)
		case 4:
			if t.Elem.K == tInt {
				return &ListLit{Items: []Expr{capture(call("range", intLit(g.r.Intn(5))))}}
			}
		case 5:
			return capture(call("conj", g.expr(t, d), g.expr(t.Elem, d)))
		case 6:
			// slice
			x := g.expr(t, d)
			if sliceable(x) {
				lo := g.r.Intn(2)
				s := strconv.Itoa(lo) + ".."
				if g.chance(30) {
					s = ".." + strconv.Itoa(lo)
				}
				return &Index{X: x, Indices: [][]Expr{{&Str{S: s}}}}
			}
			return x
		case 7:
			if e := g.indexInto(t, d); e != nil {
				return e
			}
		case 8:
			// [(each {|x| put ...} list)]
			return &ListLit{Items: []Expr{capture(g.eachMap(t.Elem, d))}}
		case 9:
			// [$@l e]
			if v := g.pickVar(func(v *gvar) bool { return sameType(v.t, t) }); v != nil {
				u := g.use(v)
				u.Explode = true
				return &ListLit{Items: []Expr{u, g.expr(t.Elem, d)}}
			}
		case 10:
			if e := g.callFn(t, d); e != nil {
				return e
			}
		case 11:
			if t.Elem.K == tStr || t.Elem.K == tInt {
				return &ListLit{Items: []Expr{capture(call("order", g.expr(t, d)))}}
			}
		}
		return g.listLit(t, d)
	case tMap:
		switch g.r.Intn(8) {
		case 0, 1, 2:
			return g.mapLit(t, d)
		case 3:
			return capture(call("assoc", g.expr(t, d), g.mapKey(), g.expr(t.Elem, d)))
		case 4:
			return capture(call("dissoc", g.expr(t, d), g.mapKey()))
		case 5:
			if e := g.indexInto(t, d); e != nil {
				return e
			}
		case 6:
			if e := g.callFn(t, d); e != nil {
				return e
			}
		}
		return g.mapLit(t, d)
	case tExc:
		switch g.r.Intn(4) {
		case 0:
			return &ExcCapture{Body: &Chunk{Pipes: []*Pipeline{stmt(call("fail", g.expr(g.scalarType(), d)))}}}
		case 1:
			return &ExcCapture{Body: &Chunk{Pipes: []*Pipeline{stmt(call("nop"))}}}
		case 2:
			return &Var{Name: "ok"}
		}
		return &ExcCapture{Body: &Chunk{Pipes: []*Pipeline{stmt(call([]string{"break", "continue", "return"}[g.r.Intn(3)]))}}}
	case tNil:
		return &Var{Name: "nil"}
	case tFn:
		return g.lambdaFor(t.Sig, d)
	}
	return g.leaf(t)
}

func sliceable(x Expr) bool {
	switch x.(type) {
	case *Var, *ListLit, *Capture, *Index:
		return true
	}
	return false
}

func (g *Gen) scalarNonBool() *gtype {
	if g.chance(50) {
		return tyInt
	}
	return tyStr
}

func (g *Gen) strAtom() *Str {
	s := &Str{S: strWords[g.r.Intn(8)], Quote: g.r.Intn(3)}
	return s
}

// compoundPart is a part of a compound expression: restricted to forms that
// can be written adjacent to other parts.
func (g *Gen) compoundPart(t *gtype, d int) Expr {
	switch g.r.Intn(5) {
	case 0:
		if v := g.pickVar(func(v *gvar) bool { return sameType(v.t, t) && !v.isFnVar }); v != nil {
			return g.use(v)
		}
	case 1:
		e := g.expr(t, d+1)
		switch e.(type) {
		case *Capture, *Var, *Str:
			return e
		}
	}
	if t.K == tInt {
		return intLit(g.r.Intn(10))
	}
	return g.strAtom()
}

func (g *Gen) leaf(t *gtype) Expr {
	switch t.K {
	case tInt:
		n := g.smallInt()
		if g.chance(25) {
			return capture(call("num", intLit(n)))
		}
		return intLit(n)
	case tFloat:
		fs := []string{"0.5", "1.5", "2.0", "0.25", "-0.5", "3.0"}
		return capture(call("num", &Str{S: fs[g.r.Intn(len(fs))]}))
	case tStr:
		return g.strLit()
	case tBool:
		if g.chance(50) {
			return &Var{Name: "true"}
		}
		return &Var{Name: "false"}
	case tList:
		n := g.r.Intn(3)
		l := &ListLit{}
		for i := 0; i < n; i++ {
			l.Items = append(l.Items, g.leaf(t.Elem))
		}
		return l
	case tMap:
		m := &MapLit{}
		if g.chance(70) {
			m.Pairs = append(m.Pairs, Pair{K: g.mapKey(), V: g.leaf(t.Elem)})
		}
		return m
	case tExc:
		return &Var{Name: "ok"}
	case tNil:
		return &Var{Name: "nil"}
	case tFn:
		return g.lambdaFor(t.Sig, 4)
	}
	return &Str{S: "g"}
}

var mapKeys = []string{"k", "q", "g", "zz"}

func (g *Gen) mapKey() Expr { return &Str{S: mapKeys[g.r.Intn(len(mapKeys))]} }

func (g *Gen) listLit(t *gtype, d int) Expr {
	n := g.r.Intn(5)
	l := &ListLit{}
	for i := 0; i < n; i++ {
		if g.chance(12) {
			l.Items = append(l.Items, g.multi(t.Elem, d))
		} else {
			l.Items = append(l.Items, g.expr(t.Elem, d))
		}
	}
	return l
}

func (g *Gen) mapLit(t *gtype, d int) Expr {
	m := &MapLit{}
	perm := g.r.Perm(len(mapKeys))
	n := g.r.Intn(4)
	for i := 0; i < n; i++ {
		m.Pairs = append(m.Pairs, Pair{K: &Str{S: mapKeys[perm[i]]}, V: g.expr(t.Elem, d)})
	}
	return m
}

// multi generates an expression evaluating to any number of values of type t.
func (g *Gen) multi(t *gtype, d int) Expr {
	switch g.r.Intn(8) {
	case 0:
		if v := g.pickVar(func(v *gvar) bool { return v.t.K == tList && sameType(v.t.Elem, t) }); v != nil {
			u := g.use(v)
			u.Explode = true
			return u
		}
	case 1:
		n := g.r.Intn(4)
		c := call("put")
		for i := 0; i < n; i++ {
			c.Args = append(c.Args, g.expr(t, d+1))
		}
		return capture(c)
	case 2:
		b := &Braced{}
		n := 1 + g.r.Intn(3)
		for i := 0; i < n; i++ {
			b.Items = append(b.Items, g.expr(t, d+1))
		}
		return b
	case 3:
		// multi-index
		lt := listOf(t)
		x := g.expr(lt, d+1)
		if sliceable(x) {
			return &Index{X: x, Indices: [][]Expr{{intLit(0), intLit(g.r.Intn(2))}}}
		}
	case 4:
		if t.K == tStr {
			// product
			return &Compound{Parts: []Expr{&Braced{Items: []Expr{g.strAtom(), g.strAtom()}}, g.strAtom(), &Braced{Items: []Expr{intLit(g.r.Intn(3)), intLit(5)}}}}
		}
	case 5:
		if t.K == tInt {
			return capture(call("range", intLit(g.r.Intn(4))))
		}
	case 6:
		return capture(call("all", g.expr(listOf(t), d+1)))
	}
	return g.expr(t, d+1)
}

// indexInto generates an indexing expression whose result has type t.
func (g *Gen) indexInto(t *gtype, d int) Expr {
	if g.chance(50) {
		if v := g.pickVar(func(v *gvar) bool { return v.t.K == tList && sameType(v.t.Elem, t) }); v != nil {
			idx := 0
			switch {
			case v.known > 0 && g.chance(85):
				idx = g.r.Intn(v.known)
				if g.chance(30) {
					idx = -1 - g.r.Intn(v.known)
				}
			case g.chance(50):
				idx = g.r.Intn(4)
			default:
				idx = -1
			}
			var ix Expr = intLit(idx)
			if g.chance(15) {
				ix = capture(call("num", intLit(idx)))
			}
			return &Index{X: g.use(v), Indices: [][]Expr{{ix}}}
		}
	}
	if v := g.pickVar(func(v *gvar) bool { return v.t.K == tMap && sameType(v.t.Elem, t) }); v != nil {
		var k Expr = g.mapKey()
		if len(v.keys) > 0 && g.chance(85) {
			k = &Str{S: v.keys[g.r.Intn(len(v.keys))]}
		}
		return &Index{X: g.use(v), Indices: [][]Expr{{k}}}
	}
	if g.chance(40) {
		// literal container
		l := g.listLit(listOf(t), d).(*ListLit)
		if len(l.Items) == 0 {
			l.Items = append(l.Items, g.expr(t, d))
		}
		return &Index{X: l, Indices: [][]Expr{{intLit(0)}}}
	}
	return nil
}

// callFn generates an output capture of a call to a known function that
// outputs exactly one value of type t.
func (g *Gen) callFn(t *gtype, d int) Expr {
	v := g.pickVar(func(v *gvar) bool {
		return v.t.K == tFn && v.t.Sig.Out != nil && sameType(v.t.Sig.Out, t) && (g.pure == 0 || v.t.Sig.Pure) && !v.t.Sig.MayFlow
	})
	if v == nil {
		return nil
	}
	return capture(g.callOf(v, d))
}

// callOf builds a call form for function variable v with well-typed
// arguments (arity deliberately broken now and then).
func (g *Gen) callOf(v *gvar, d int) *Cmd {
	sig := v.t.Sig
	c := &Cmd{}
	switch {
	case v.isFnVar && g.chance(85):
		c.Head = &Str{S: v.name}
	default:
		c.Head = g.use(v)
	}
	for i, pt := range sig.Params {
		if i == sig.Rest {
			n := g.r.Intn(3)
			for j := 0; j < n; j++ {
				c.Args = append(c.Args, g.expr(pt, d+1))
			}
			continue
		}
		c.Args = append(c.Args, g.expr(pt, d+1))
	}
	for _, o := range sig.Opts {
		if g.chance(40) {
			c.Opts = append(c.Opts, Opt{Name: o.Name, V: g.expr(o.T, d+1)})
		}
	}
	// break the call on purpose: documented to raise an exception
	if g.chance(4) {
		switch g.r.Intn(3) {
		case 0:
			c.Args = append(c.Args, g.leaf(tyStr))
			if sig.Rest >= 0 && len(c.Args) > 0 {
				c.Args = c.Args[:0]
			}
		case 1:
			if len(c.Args) > 0 {
				c.Args = c.Args[:len(c.Args)-1]
			} else {
				c.Args = append(c.Args, g.leaf(tyStr))
			}
		case 2:
			if len(c.Opts) == 0 {
				c.Opts = append(c.Opts, Opt{Name: "nope", V: g.leaf(tyStr)})
			}
		}
	}
	return c
}

// eachMap generates `each {|x| put <expr of type out using x> } <list>`.
func (g *Gen) eachMap(out *gtype, d int) Form {
	in := g.scalarType()
	x := g.fresh("x")
	g.push(true)
	g.cur().loop = true
	savedPure, savedFrom := g.pure, g.pureFrom
	g.pure++
	g.pureFrom = g.level()
	g.declare(x, in)
	body := &Chunk{Pipes: []*Pipeline{stmt(call("put", g.expr(out, d+1)))}}
	g.pure, g.pureFrom = savedPure, savedFrom
	g.pop()
	l := &Lambda{Sig: true, Params: []string{x}, Rest: -1, Body: body}
	return call("each", l, g.expr(listOf(in), d+1))
}

func (g *Gen) describe() string { return fmt.Sprint(len(g.scopes)) }
