package refinterp

import (
	"math"
	"math/big"
	"sort"
	"strconv"
	"strings"
)

// Value is a model value: string, *Num, bool, Nil, *ListV, *MapV, *Closure,
// *Builtin, *ExcV (an exception value; Cause == nil means $ok).
type Value interface{}

// Nil is the value $nil.
type Nil struct{}

// Num is a typed number: exact (rational, integers have denominator 1) or
// inexact (float64).
type Num struct {
	Inexact bool
	R       *big.Rat
	F       float64
}

// ListV is an immutable list.
type ListV struct{ Items []Value }

// MapV is an immutable map; entry order is not significant.
type MapV struct{ Keys, Vals []Value }

// ExcV is an exception value; Cause nil is $ok.
type ExcV struct{ Cause *Cause }

// Cause is the reason of an exception, reduced to the category that the
// comparison uses.
type Cause struct {
	Kind    string  // fail, flow, arity, type, range, nokey, div0, unknown-option, pipeline
	Content Value   // fail: the argument of fail
	Name    string  // flow: break/continue/return
	Parts   []*ExcV // pipeline: the exceptions of the individual commands ($ok ones left out)
	Note    string  // human-readable detail (not compared)
}

func intNum(n int64) *Num { return &Num{R: new(big.Rat).SetInt64(n)} }

func ratNum(r *big.Rat) *Num { return &Num{R: r} }

func floatNum(f float64) *Num { return &Num{Inexact: true, F: f} }

func (n *Num) isInt() bool { return !n.Inexact && n.R.IsInt() }

func (n *Num) float() float64 {
	if n.Inexact {
		return n.F
	}
	f, _ := n.R.Float64()
	return f
}

// formatFloat is the string form of an inexact number for the simple floats
// the generator uses (C05/C12 own the general case). Integral values get a
// trailing ".0" (documented: `inexact-num (num 1)` is `(num 1.0)`).
func formatFloat(f float64) (string, bool) {
	switch {
	case math.IsNaN(f):
		return "NaN", true
	case math.IsInf(f, 1):
		return "+Inf", true
	case math.IsInf(f, -1):
		return "-Inf", true
	}
	if f == math.Trunc(f) {
		if math.Abs(f) >= 1e15 {
			return "", false
		}
		if f == 0 && math.Signbit(f) {
			return "-0.0", true
		}
		return strconv.FormatFloat(f, 'f', 1, 64), true
	}
	if math.Abs(f) < 1e-4 || math.Abs(f) >= 1e15 {
		return "", false
	}
	return strconv.FormatFloat(f, 'f', -1, 64), true
}

// numString converts a typed number to a string. ok=false means the model
// does not pin the format (the program is then discarded as unspecified).
func numString(n *Num) (string, bool) {
	if n.Inexact {
		return formatFloat(n.F)
	}
	if n.R.IsInt() {
		return n.R.Num().String(), true
	}
	return n.R.Num().String() + "/" + n.R.Denom().String(), true
}

// safeLetters are letters that occur in no number syntax (hex digits, the
// exponent markers e/p, the radix prefixes x/o/b, and the letters of
// inf/infinity/nan are excluded), so that a string containing one of them is
// certainly not a number.
const safeLetters = "ghjkmqrsuvwzGHJKMQRSUVWZ"

// parseNum classifies a string as a number. Result: 1 = number (n valid),
// 0 = certainly not a number, -1 = the model does not decide.
func parseNum(s string) (*Num, int) {
	if s == "" {
		return nil, 0
	}
	if strings.ContainsAny(s, safeLetters+"$*'\"?[](){}|&;<>=~") {
		return nil, 0
	}
	isDigits := func(t string) bool {
		if t == "" {
			return false
		}
		for i := 0; i < len(t); i++ {
			if t[i] < '0' || t[i] > '9' {
				return false
			}
		}
		return true
	}
	plainInt := func(t string) bool { // no sign, no leading zero
		return isDigits(t) && (t == "0" || t[0] != '0') && len(t) <= 30
	}
	// digits with a minus sign after the first position ("2-1") fit no number
	// syntax (a sign can only lead a number or follow an exponent marker)
	if strings.LastIndexByte(s, '-') > 0 {
		onlyDigitsAndMinus := true
		for i := 0; i < len(s); i++ {
			if (s[i] < '0' || s[i] > '9') && s[i] != '-' {
				onlyDigitsAndMinus = false
			}
		}
		if onlyDigitsAndMinus {
			return nil, 0
		}
	}
	t := s
	neg := false
	if t[0] == '-' {
		neg = true
		t = t[1:]
	}
	switch {
	case plainInt(t):
		r, _ := new(big.Rat).SetString(t)
		if neg {
			r.Neg(r)
		}
		return ratNum(r), 1
	case strings.Count(t, ".") == 1 && !strings.Contains(t, "/"):
		k := strings.IndexByte(t, '.')
		if plainInt(t[:k]) && isDigits(t[k+1:]) && len(t) <= 12 {
			f, err := strconv.ParseFloat(t, 64)
			if err == nil {
				if neg {
					f = -f
				}
				return floatNum(f), 1
			}
		}
	case strings.Count(t, "/") == 1 && !strings.Contains(t, "."):
		k := strings.IndexByte(t, '/')
		if plainInt(t[:k]) && plainInt(t[k+1:]) && t[k+1:] != "0" {
			r, ok := new(big.Rat).SetString(t)
			if ok {
				if neg {
					r.Neg(r)
				}
				return ratNum(r), 1
			}
		}
	}
	return nil, -1
}

// ---------------------------------------------------------------------------
// Canonical representation (used to compare with the real interpreter).

func canonStr(s string) string { return strconv.Quote(s) }

func canonExactInt(x *big.Int) string { return "(num " + x.String() + ")" }

func canonRat(r *big.Rat) string {
	if r.IsInt() {
		return canonExactInt(r.Num())
	}
	return "(num " + r.Num().String() + "/" + r.Denom().String() + ")"
}

func canonFloat(f float64) string {
	if f == 0 && math.Signbit(f) {
		return "(float -0)"
	}
	return "(float " + strconv.FormatFloat(f, 'g', -1, 64) + ")"
}

func canonMap(pairs []string) string {
	sort.Strings(pairs)
	return "[&" + strings.Join(pairs, " &") + "]"
}

// Canon returns the canonical representation of a model value.
func Canon(v Value) string {
	switch v := v.(type) {
	case string:
		return canonStr(v)
	case *Num:
		if v.Inexact {
			return canonFloat(v.F)
		}
		return canonRat(v.R)
	case bool:
		if v {
			return "$true"
		}
		return "$false"
	case Nil:
		return "$nil"
	case *ListV:
		parts := make([]string, len(v.Items))
		for i, it := range v.Items {
			parts[i] = Canon(it)
		}
		return "[" + strings.Join(parts, " ") + "]"
	case *MapV:
		pairs := make([]string, len(v.Keys))
		for i := range v.Keys {
			pairs[i] = Canon(v.Keys[i]) + "=" + Canon(v.Vals[i])
		}
		return canonMap(pairs)
	case *Closure:
		return "<closure>"
	case *Builtin:
		return "<builtin " + v.Name + ">"
	case *ExcV:
		if v.Cause == nil {
			return "$ok"
		}
		return "?(" + v.Cause.Category() + ")"
	case *ReasonV:
		return "reason(" + v.Cause.Category() + ")"
	}
	return "<?>"
}

// Category is the comparison key of an exception cause.
func (c *Cause) Category() string {
	switch c.Kind {
	case "fail":
		return "fail:" + Canon(c.Content)
	case "flow":
		return "flow:" + c.Name
	case "pipeline":
		var parts []string
		for _, p := range c.Parts {
			if p.Cause != nil {
				parts = append(parts, p.Cause.Category())
			}
		}
		sort.Strings(parts)
		return "pipeline{" + strings.Join(parts, ", ") + "}"
	}
	return c.Kind
}

// ---------------------------------------------------------------------------
// Equality (the `eq` builtin, map keys).

type unspecified struct{ why string }

// valuesEqual implements "same type and value", recursively for lists and
// maps. It panics with unspecified for comparisons the reference leaves open.
func valuesEqual(a, b Value) bool {
	switch a := a.(type) {
	case string:
		b, ok := b.(string)
		return ok && a == b
	case *Num:
		b, ok := b.(*Num)
		if !ok {
			return false
		}
		if a.Inexact != b.Inexact {
			// Whether an exact and an inexact number of the same numeric value
			// are "the same type" is not pinned down; different values are
			// unequal under every reading.
			var x, y float64 = a.float(), b.float()
			if x == y {
				panic(unspecified{"eq of exact and inexact number with the same value"})
			}
			return false
		}
		if a.Inexact {
			if math.IsNaN(a.F) || math.IsNaN(b.F) || (a.F == 0 && b.F == 0 && math.Signbit(a.F) != math.Signbit(b.F)) {
				panic(unspecified{"eq of NaN or signed zeros"})
			}
			return a.F == b.F
		}
		return a.R.Cmp(b.R) == 0
	case bool:
		b, ok := b.(bool)
		return ok && a == b
	case Nil:
		_, ok := b.(Nil)
		return ok
	case *ListV:
		b, ok := b.(*ListV)
		if !ok || len(a.Items) != len(b.Items) {
			return false
		}
		for i := range a.Items {
			if !valuesEqual(a.Items[i], b.Items[i]) {
				return false
			}
		}
		return true
	case *MapV:
		b, ok := b.(*MapV)
		if !ok || len(a.Keys) != len(b.Keys) {
			return false
		}
		for i, k := range a.Keys {
			j := b.find(k)
			if j < 0 || !valuesEqual(a.Vals[i], b.Vals[j]) {
				return false
			}
		}
		return true
	case *Closure:
		b, ok := b.(*Closure)
		if !ok {
			return false
		}
		return a == b
	case *Builtin:
		b, ok := b.(*Builtin)
		return ok && a.Name == b.Name
	case *ExcV:
		b, ok := b.(*ExcV)
		if !ok {
			return false
		}
		if a.Cause == nil || b.Cause == nil {
			return a.Cause == nil && b.Cause == nil
		}
		if a == b {
			return true
		}
		panic(unspecified{"eq of two distinct exception values"})
	case *ReasonV:
		panic(unspecified{"eq of exception reasons"})
	}
	return false
}

func (m *MapV) find(k Value) int {
	for i, mk := range m.Keys {
		if valuesEqual(mk, k) {
			return i
		}
	}
	return -1
}

func (m *MapV) assoc(k, v Value) *MapV {
	n := &MapV{Keys: append([]Value(nil), m.Keys...), Vals: append([]Value(nil), m.Vals...)}
	if i := n.find(k); i >= 0 {
		n.Vals[i] = v
		return n
	}
	n.Keys = append(n.Keys, k)
	n.Vals = append(n.Vals, v)
	return n
}

func (m *MapV) dissoc(k Value) *MapV {
	i := m.find(k)
	if i < 0 {
		return m
	}
	n := &MapV{}
	for j := range m.Keys {
		if j != i {
			n.Keys = append(n.Keys, m.Keys[j])
			n.Vals = append(n.Vals, m.Vals[j])
		}
	}
	return n
}

// truthy implements "booleanly true": everything except $false, $nil and
// exceptions ($ok is booleanly true).
func truthy(v Value) bool {
	switch v := v.(type) {
	case bool:
		return v
	case Nil:
		return false
	case *ExcV:
		return v.Cause == nil
	}
	return true
}

func kindOf(v Value) string {
	switch v := v.(type) {
	case string:
		return "string"
	case *Num:
		return "number"
	case bool:
		return "bool"
	case Nil:
		return "nil"
	case *ListV:
		return "list"
	case *MapV:
		return "map"
	case *Closure, *Builtin:
		return "fn"
	case *ExcV:
		_ = v
		return "exception"
	case *ReasonV:
		return "reason"
	}
	return "?"
}
