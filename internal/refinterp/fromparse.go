package refinterp

import (
	"fmt"
	"strings"

	"src.elv.sh/pkg/parse"
)

// FromSource converts Elvish source text into this package's syntax tree,
// using the Elvish parser. It is used only for calibration (running the
// reference interpreter on hand-written snippets, e.g. from the repository's
// transcript tests) and never as part of the oracle of generated programs.
// Unsupported constructs yield an error.
func FromSource(src string) (p *Program, err error) {
	tree, perr := parse.Parse(parse.Source{Name: "[calib]", Code: src}, parse.Config{})
	if perr != nil {
		return nil, perr
	}
	defer func() {
		if x := recover(); x != nil {
			if u, ok := x.(unsupported); ok {
				p, err = nil, fmt.Errorf("unsupported: %s", string(u))
				return
			}
			panic(x)
		}
	}()
	return &Program{Body: cvChunk(tree.Root)}, nil
}

type unsupported string

func unsup(format string, a ...any) { panic(unsupported(fmt.Sprintf(format, a...))) }

func cvChunk(c *parse.Chunk) *Chunk {
	out := &Chunk{}
	for _, pl := range c.Pipelines {
		if pl.Background {
			unsup("background pipeline")
		}
		np := &Pipeline{}
		for _, f := range pl.Forms {
			np.Forms = append(np.Forms, cvForm(f))
		}
		out.Pipes = append(out.Pipes, np)
	}
	return out
}

func literal(c *parse.Compound) (string, bool) {
	if c == nil || len(c.Indexings) != 1 || len(c.Indexings[0].Indices) != 0 {
		return "", false
	}
	p := c.Indexings[0].Head
	switch p.Type {
	case parse.Bareword, parse.SingleQuoted, parse.DoubleQuoted:
		return p.Value, true
	}
	return "", false
}

func bareword(c *parse.Compound) (string, bool) {
	if c == nil || len(c.Indexings) != 1 || len(c.Indexings[0].Indices) != 0 {
		return "", false
	}
	p := c.Indexings[0].Head
	if p.Type == parse.Bareword {
		return p.Value, true
	}
	return "", false
}

func cvLambdaArg(c *parse.Compound) *Lambda {
	if c == nil || len(c.Indexings) != 1 || len(c.Indexings[0].Indices) != 0 || c.Indexings[0].Head.Type != parse.Lambda {
		unsup("expected a lambda")
	}
	return cvLambda(c.Indexings[0].Head)
}

func cvLambda(p *parse.Primary) *Lambda {
	l := &Lambda{Rest: -1, Body: cvChunk(p.Chunk)}
	for _, e := range p.Elements {
		name, ok := literal(e)
		if !ok {
			unsup("parameter that is not a literal")
		}
		if strings.HasPrefix(name, "@") {
			l.Rest = len(l.Params)
			name = name[1:]
		}
		l.Params = append(l.Params, name)
	}
	for _, mp := range p.MapPairs {
		name, ok := literal(mp.Key)
		if !ok || mp.Value == nil || len(mp.Value.Indexings) == 0 {
			unsup("option declaration")
		}
		l.Opts = append(l.Opts, OptDecl{Name: name, Default: cvCompound(mp.Value)})
	}
	l.Sig = len(l.Params)+len(l.Opts) > 0
	return l
}

func cvLV(c *parse.Compound) *LV {
	if c == nil || len(c.Indexings) != 1 {
		unsup("lvalue")
	}
	ix := c.Indexings[0]
	var name string
	switch ix.Head.Type {
	case parse.Bareword, parse.SingleQuoted, parse.DoubleQuoted:
		name = ix.Head.Value
	default:
		unsup("lvalue head")
	}
	lv := &LV{}
	if strings.HasPrefix(name, "@") && ix.Head.Type == parse.Bareword {
		lv.Rest = true
		name = name[1:]
	}
	if strings.Contains(name, ":") {
		unsup("qualified name")
	}
	lv.Name = name
	for _, arr := range ix.Indices {
		if len(arr.Compounds) != 1 {
			unsup("lvalue index with several expressions")
		}
		lv.Indices = append(lv.Indices, cvCompound(arr.Compounds[0]))
	}
	return lv
}

func splitAssign(args []*parse.Compound) (lhs []*LV, rhs []Expr, hasEq bool) {
	i := 0
	for ; i < len(args); i++ {
		if s, ok := bareword(args[i]); ok && s == "=" {
			hasEq = true
			break
		}
		lhs = append(lhs, cvLV(args[i]))
	}
	if hasEq {
		for _, a := range args[i+1:] {
			rhs = append(rhs, cvCompound(a))
		}
	}
	return
}

func cvForm(f *parse.Form) Form {
	if len(f.Redirs) > 0 {
		unsup("redirection")
	}
	if f.Head == nil {
		unsup("form without head")
	}
	head, isLit := bareword(f.Head)
	special := isLit && len(f.Opts) == 0
	args := f.Args
	if special {
		switch head {
		case "var":
			lhs, rhs, hasEq := splitAssign(args)
			return &VarForm{LHS: lhs, HasEq: hasEq, RHS: rhs}
		case "set", "tmp":
			lhs, rhs, hasEq := splitAssign(args)
			if !hasEq {
				unsup("set without =")
			}
			return &SetForm{Tmp: head == "tmp", LHS: lhs, RHS: rhs}
		case "with":
			if len(args) < 2 {
				unsup("with")
			}
			w := &WithForm{Body: cvLambdaArg(args[len(args)-1])}
			rest := args[:len(args)-1]
			if len(rest[0].Indexings) == 1 && rest[0].Indexings[0].Head.Type == parse.List && len(rest[0].Indexings[0].Indices) == 0 {
				w.Bracketed = true
				for _, g := range rest {
					if len(g.Indexings) != 1 || g.Indexings[0].Head.Type != parse.List || len(g.Indexings[0].Indices) != 0 {
						unsup("with group")
					}
					lhs, rhs, hasEq := splitAssign(g.Indexings[0].Head.Elements)
					if !hasEq {
						unsup("with group without =")
					}
					w.Groups = append(w.Groups, &Assign{LHS: lhs, RHS: rhs})
				}
			} else {
				lhs, rhs, hasEq := splitAssign(rest)
				if !hasEq {
					unsup("with without =")
				}
				w.Groups = []*Assign{{LHS: lhs, RHS: rhs}}
			}
			return w
		case "del":
			d := &DelForm{}
			for _, a := range args {
				d.Targets = append(d.Targets, cvLV(a))
			}
			return d
		case "and", "or", "coalesce":
			l := &Logic{Op: head}
			for _, a := range args {
				l.Args = append(l.Args, cvCompound(a))
			}
			return l
		case "if":
			n := &If{}
			i := 0
			for {
				if i+1 >= len(args) {
					unsup("if")
				}
				n.Conds = append(n.Conds, cvCompound(args[i]))
				n.Bodies = append(n.Bodies, cvLambdaArg(args[i+1]))
				i += 2
				if i >= len(args) {
					return n
				}
				kw, _ := bareword(args[i])
				switch kw {
				case "elif":
					i++
				case "else":
					if i+2 != len(args) {
						unsup("if else")
					}
					n.Else = cvLambdaArg(args[i+1])
					return n
				default:
					unsup("if keyword")
				}
			}
		case "while":
			if len(args) != 2 && len(args) != 4 {
				unsup("while")
			}
			n := &While{Cond: cvCompound(args[0]), Body: cvLambdaArg(args[1])}
			if len(args) == 4 {
				if kw, _ := bareword(args[2]); kw != "else" {
					unsup("while keyword")
				}
				n.Else = cvLambdaArg(args[3])
			}
			return n
		case "for":
			if len(args) != 3 && len(args) != 5 {
				unsup("for")
			}
			n := &For{Var: cvLV(args[0]), Cont: cvCompound(args[1]), Body: cvLambdaArg(args[2])}
			if n.Var.Rest || len(n.Var.Indices) > 0 {
				unsup("for variable")
			}
			if len(args) == 5 {
				if kw, _ := bareword(args[3]); kw != "else" {
					unsup("for keyword")
				}
				n.Else = cvLambdaArg(args[4])
			}
			return n
		case "try":
			if len(args) < 1 {
				unsup("try")
			}
			n := &Try{Body: cvLambdaArg(args[0])}
			i := 1
			if i < len(args) {
				if kw, _ := bareword(args[i]); kw == "catch" {
					if i+2 >= len(args)+0 && i+2 > len(args) {
						unsup("catch")
					}
					n.CatchVar = cvLV(args[i+1])
					n.Catch = cvLambdaArg(args[i+2])
					i += 3
				}
			}
			if i < len(args) {
				if kw, _ := bareword(args[i]); kw == "else" {
					n.Else = cvLambdaArg(args[i+1])
					i += 2
				}
			}
			if i < len(args) {
				if kw, _ := bareword(args[i]); kw == "finally" {
					n.Finally = cvLambdaArg(args[i+1])
					i += 2
				}
			}
			if i != len(args) {
				unsup("try clauses")
			}
			return n
		case "fn":
			if len(args) != 2 {
				unsup("fn")
			}
			name, ok := literal(args[0])
			if !ok {
				unsup("fn name")
			}
			return &Fn{Name: name, L: cvLambdaArg(args[1])}
		case "use", "pragma":
			unsup(head)
		}
	}
	c := &Cmd{}
	if isLit {
		if strings.Contains(head, ":") || (strings.Contains(head, "/") && head != "/") {
			unsup("qualified or external command")
		}
		c.Head = &Str{S: head}
	} else {
		c.Head = cvCompound(f.Head)
	}
	for _, a := range args {
		c.Args = append(c.Args, cvCompound(a))
	}
	for _, o := range f.Opts {
		name, ok := literal(o.Key)
		if !ok {
			unsup("option")
		}
		if o.Value == nil || len(o.Value.Indexings) == 0 {
			// &key is &key=$true; &key= is the empty string
			if strings.HasSuffix(strings.TrimSpace(parse.SourceText(o)), "=") {
				c.Opts = append(c.Opts, Opt{Name: name, V: &Str{S: "", Quote: 1}})
			} else {
				c.Opts = append(c.Opts, Opt{Name: name, V: &Var{Name: "true"}})
			}
			continue
		}
		c.Opts = append(c.Opts, Opt{Name: name, V: cvCompound(o.Value)})
	}
	return c
}

func cvCompounds(cs []*parse.Compound) []Expr {
	var out []Expr
	for _, c := range cs {
		out = append(out, cvCompound(c))
	}
	return out
}

func cvCompound(c *parse.Compound) Expr {
	if len(c.Indexings) == 0 {
		unsup("empty compound")
	}
	var parts []Expr
	for _, ix := range c.Indexings {
		parts = append(parts, cvIndexing(ix))
	}
	if len(parts) == 1 {
		return parts[0]
	}
	return &Compound{Parts: parts}
}

func cvIndexing(ix *parse.Indexing) Expr {
	head := cvPrimary(ix.Head)
	if len(ix.Indices) == 0 {
		return head
	}
	n := &Index{X: head}
	for _, arr := range ix.Indices {
		if len(arr.Semicolons) > 0 {
			unsup("semicolon in index")
		}
		n.Indices = append(n.Indices, cvCompounds(arr.Compounds))
	}
	return n
}

func cvPrimary(p *parse.Primary) Expr {
	switch p.Type {
	case parse.Bareword:
		return &Str{S: p.Value}
	case parse.SingleQuoted:
		return &Str{S: p.Value, Quote: 1}
	case parse.DoubleQuoted:
		return &Str{S: p.Value, Quote: 2}
	case parse.Variable:
		name := p.Value
		v := &Var{}
		if strings.HasPrefix(name, "@") {
			v.Explode = true
			name = name[1:]
		}
		if strings.Contains(strings.TrimSuffix(name, ":"), ":") || strings.HasSuffix(name, ":") {
			unsup("qualified variable")
		}
		v.Name = name
		return v
	case parse.OutputCapture:
		return &Capture{Body: cvChunk(p.Chunk)}
	case parse.ExceptionCapture:
		return &ExcCapture{Body: cvChunk(p.Chunk)}
	case parse.List:
		return &ListLit{Items: cvCompounds(p.Elements)}
	case parse.Map:
		m := &MapLit{}
		for _, mp := range p.MapPairs {
			if mp.Value == nil || len(mp.Value.Indexings) == 0 {
				unsup("map pair without value")
			}
			m.Pairs = append(m.Pairs, Pair{K: cvCompound(mp.Key), V: cvCompound(mp.Value)})
		}
		return m
	case parse.Lambda:
		return cvLambda(p)
	case parse.Braced:
		if len(p.Braced) == 0 {
			unsup("empty braced list")
		}
		return &Braced{Items: cvCompounds(p.Braced)}
	}
	unsup("primary type %v", p.Type)
	return nil
}
