package refinterp

import (
	"math/big"
	"strings"
)

// ReasonV is the value of $exception[reason].
type ReasonV struct{ Cause *Cause }

func (it *Interp) exprs(fr *frame, es []Expr) ([]Value, *ExcV) {
	var out []Value
	for _, e := range es {
		vs, x := it.expr(fr, e)
		if x != nil {
			return nil, x
		}
		out = append(out, vs...)
	}
	return out, nil
}

func isASCII(s string) bool {
	for i := 0; i < len(s); i++ {
		if s[i] >= 0x80 {
			return false
		}
	}
	return true
}

func (it *Interp) expr(fr *frame, e Expr) ([]Value, *ExcV) {
	it.step()
	switch e := e.(type) {
	case *Str:
		return []Value{e.S}, nil
	case *Var:
		var v Value
		if e.decl != nil {
			v = it.getVar(fr, e.decl, e.Name)
		} else {
			switch e.Name {
			case "true":
				v = true
			case "false":
				v = false
			case "nil":
				v = Nil{}
			case "ok":
				v = &ExcV{}
			default:
				n := strings.TrimSuffix(e.Name, "~")
				v = &Builtin{Name: n, fn: modelBuiltins[n]}
			}
		}
		if !e.Explode {
			return []Value{v}, nil
		}
		it.kind("explode")
		switch v := v.(type) {
		case *ListV:
			return append([]Value(nil), v.Items...), nil
		case string:
			if !isASCII(v) {
				unspec("exploding a non-ASCII string")
			}
			out := make([]Value, len(v))
			for i := range v {
				out[i] = v[i : i+1]
			}
			return out, nil
		}
		unspec("exploding a %s", kindOf(v))
	case *Capture:
		it.kind("capture")
		buf := &pipeBuf{}
		sub := &frame{sc: fr.sc, in: fr.in, out: buf, defers: fr.defers, bodyOut: fr.bodyOut, bodyIn: fr.bodyIn}
		if x := it.chunk(sub, e.Body); x != nil {
			return nil, x
		}
		if buf.unordered {
			unspec("capture of the keys of a map with several keys")
		}
		if len(buf.bytes) > 0 {
			if len(buf.items) > 0 {
				unspec("output capture of both values and bytes")
			}
			it.kind("capture-bytes")
			s := string(buf.bytes)
			s = strings.TrimSuffix(s, "\n")
			var out []Value
			for _, line := range strings.Split(s, "\n") {
				out = append(out, strings.TrimSuffix(line, "\r"))
			}
			return out, nil
		}
		return buf.items, nil
	case *ExcCapture:
		it.kind("exc-capture")
		it.handlers++
		x := it.chunk(fr, e.Body)
		it.handlers--
		if x == nil {
			return []Value{&ExcV{}}, nil
		}
		return []Value{x}, nil
	case *Braced:
		it.kind("braced")
		return it.exprs(fr, e.Items)
	case *ListLit:
		vs, x := it.exprs(fr, e.Items)
		if x != nil {
			return nil, x
		}
		return []Value{&ListV{Items: vs}}, nil
	case *MapLit:
		m := &MapV{}
		for _, p := range e.Pairs {
			ks, x := it.expr(fr, p.K)
			if x != nil {
				return nil, x
			}
			vs, x := it.expr(fr, p.V)
			if x != nil {
				return nil, x
			}
			if len(ks) != 1 || len(vs) != 1 {
				unspec("map literal pair with %d keys and %d values", len(ks), len(vs))
			}
			if m.find(ks[0]) >= 0 {
				unspec("map literal with a repeated key")
			}
			m = m.assoc(ks[0], vs[0])
		}
		return []Value{m}, nil
	case *Lambda:
		it.kind("lambda")
		c, x := it.makeClosure(fr, e)
		if x != nil {
			return nil, x
		}
		return []Value{c}, nil
	case *Index:
		it.kind("index")
		cur, x := it.expr(fr, e.X)
		if x != nil {
			return nil, x
		}
		for _, br := range e.Indices {
			idxs, x := it.exprs(fr, br)
			if x != nil {
				return nil, x
			}
			if len(idxs) != 1 || len(cur) != 1 {
				it.kind("index-multi")
			}
			var next []Value
			for _, c := range cur {
				for _, ix := range idxs {
					v, x := it.indexValue(c, ix)
					if x != nil {
						return nil, x
					}
					next = append(next, v)
				}
			}
			cur = next
		}
		return cur, nil
	case *Compound:
		it.kind("compound")
		for _, p := range e.Parts {
			if _, ok := p.(*Index); ok {
				it.kind("compound-with-index")
			}
		}
		parts := make([][]Value, len(e.Parts))
		multi := false
		for i, p := range e.Parts {
			vs, x := it.expr(fr, p)
			if x != nil {
				return nil, x
			}
			parts[i] = vs
			if len(vs) != 1 {
				multi = true
			}
		}
		if multi {
			it.kind("compound-product")
		}
		// all combinations; the leftmost multi-valued part varies slowest
		acc := parts[0]
		for _, p := range parts[1:] {
			var next []Value
			for _, a := range acc {
				for _, b := range p {
					c, x := it.concat(a, b)
					if x != nil {
						return nil, x
					}
					next = append(next, c)
				}
			}
			acc = next
			if len(acc) > 4096 {
				panic(budgetExceeded{})
			}
		}
		return acc, nil
	}
	panic("refinterp: unknown expression")
}

func (it *Interp) concat(a, b Value) (Value, *ExcV) {
	str := func(v Value) (string, bool) {
		switch v := v.(type) {
		case string:
			return v, true
		case *Num:
			s, ok := numString(v)
			if !ok {
				unspec("string form of an unusual float")
			}
			return s, true
		}
		return "", false
	}
	sa, oka := str(a)
	sb, okb := str(b)
	if !oka || !okb {
		it.kind("concat-error")
		return nil, exc("type", "cannot concatenate "+kindOf(a)+" and "+kindOf(b))
	}
	return sa + sb, nil
}

// asInt interprets v as an exact integer: 1 = yes, 0 = certainly not an
// integer (type error), -1 = the model does not decide.
func asInt(v Value) (*big.Int, int) {
	switch v := v.(type) {
	case *Num:
		if v.isInt() {
			return v.R.Num(), 1
		}
		return nil, -1
	case string:
		n, st := parseNum(v)
		if st == 1 {
			if n.isInt() {
				return n.R.Num(), 1
			}
			return nil, -1
		}
		return nil, st
	}
	return nil, 0
}

// listIndex converts an index value to a position in li. With allowEnd the
// position len(li) is valid too (slice bounds).
func (it *Interp) listIndex(li *ListV, ix Value, allowEnd bool) (int, *ExcV) {
	n, st := asInt(ix)
	if st < 0 {
		unspec("list index that is a number but not a plain integer")
	}
	if st == 0 {
		if _, isStr := ix.(string); !isStr {
			unspec("list index of kind %s", kindOf(ix))
		}
		it.kind("index-type-error")
		return 0, exc("type", "index must be integer")
	}
	if !n.IsInt64() {
		it.kind("range-error")
		return 0, exc("range", "index out of range")
	}
	i := int(n.Int64())
	l := len(li.Items)
	if i < 0 {
		i += l
		it.kind("negative-index")
	}
	max := l - 1
	if allowEnd {
		max = l
	}
	if i < 0 || i > max {
		it.kind("range-error")
		return 0, exc("range", "index out of range")
	}
	return i, nil
}

// sliceBounds parses "a..b" / "a..=b". ok=false when s is not a slice.
func parseSlice(s string) (lo, hi string, inclusive, ok bool) {
	k := strings.Index(s, "..")
	if k < 0 {
		return
	}
	lo, hi = s[:k], s[k+2:]
	if strings.HasPrefix(hi, "=") {
		inclusive = true
		hi = hi[1:]
	}
	return lo, hi, inclusive, true
}

// sliceRange resolves a slice against a length. It returns the half-open
// range, or an exception, and leaves the corner cases the reference does not
// describe undecided.
func (it *Interp) sliceRange(s string, length int) (int, int, *ExcV) {
	los, his, incl, _ := parseSlice(s)
	bound := func(t string, def int) int {
		if t == "" {
			return def
		}
		n, st := parseNum(t)
		if st != 1 || !n.isInt() || !n.R.Num().IsInt64() {
			unspec("slice bound %q", t)
		}
		return int(n.R.Num().Int64())
	}
	if incl && his == "" {
		unspec("inclusive slice without upper bound")
	}
	lo := bound(los, 0)
	hi := bound(his, length)
	if lo < 0 {
		lo += length
	}
	if hi < 0 {
		hi += length
	}
	if incl {
		hi++
	}
	if lo < 0 || hi < 0 {
		unspec("slice bound below the start")
	}
	if lo > length || hi > length {
		it.kind("range-error")
		return 0, 0, exc("range", "slice out of range")
	}
	if lo > hi {
		unspec("slice with lower bound above upper bound")
	}
	it.kind("slice")
	return lo, hi, nil
}

func (it *Interp) indexValue(c, ix Value) (Value, *ExcV) {
	switch e := c.(type) {
	case *ListV:
		if len(e.Items) == 0 {
			it.kind("index-on-empty")
			it.kind("index-on-empty-list")
		}
	case *MapV:
		if len(e.Keys) == 0 {
			it.kind("index-on-empty")
			it.kind("index-on-empty-map")
		}
	case string:
		if e == "" {
			it.kind("index-on-empty")
			it.kind("index-on-empty-string")
		}
	}
	switch c := c.(type) {
	case *ListV:
		if s, ok := ix.(string); ok {
			if _, _, _, isSlice := parseSlice(s); isSlice {
				lo, hi, x := it.sliceRange(s, len(c.Items))
				if x != nil {
					return nil, x
				}
				return &ListV{Items: append([]Value(nil), c.Items[lo:hi]...)}, nil
			}
		}
		i, x := it.listIndex(c, ix, false)
		if x != nil {
			return nil, x
		}
		return c.Items[i], nil
	case *MapV:
		j := c.find(ix)
		if j < 0 {
			it.kind("nokey-error")
			return nil, exc("nokey", "no such key")
		}
		it.kind("map-index")
		return c.Vals[j], nil
	case string:
		if !isASCII(c) {
			unspec("indexing a non-ASCII string")
		}
		it.kind("string-index")
		if s, ok := ix.(string); ok {
			if _, _, _, isSlice := parseSlice(s); isSlice {
				lo, hi, x := it.sliceRange(s, len(c))
				if x != nil {
					return nil, x
				}
				return c[lo:hi], nil
			}
		}
		tmp := &ListV{Items: make([]Value, len(c))}
		i, x := it.listIndex(tmp, ix, false)
		if x != nil {
			return nil, x
		}
		return c[i : i+1], nil
	case *ExcV:
		if c.Cause == nil {
			unspec("indexing $ok")
		}
		if s, ok := ix.(string); ok && s == "reason" {
			it.kind("exc-reason")
			return &ReasonV{c.Cause}, nil
		}
		unspec("exception field other than reason")
	case *ReasonV:
		s, ok := ix.(string)
		if !ok {
			unspec("reason field index of kind %s", kindOf(ix))
		}
		switch c.Cause.Kind {
		case "fail":
			switch s {
			case "type":
				return "fail", nil
			case "content":
				return c.Cause.Content, nil
			}
		case "flow":
			switch s {
			case "type":
				return "flow", nil
			case "name":
				return c.Cause.Name, nil
			}
		case "pipeline":
			if s == "type" {
				return "pipeline", nil
			}
		}
		unspec("field %q of a %s reason", s, c.Cause.Kind)
	case Nil, bool, *Num:
		it.kind("index-type-error")
		return nil, exc("type", "not indexable")
	}
	unspec("indexing a %s", kindOf(c))
	return nil, nil
}
