package refinterp

import "fmt"

// decl is one static variable declaration. Following the reference
// ("Elvish resolves all variables in a code chunk before starting to execute
// any of it"; "local namespaces are statically checked"), every variable use
// is bound to a declaration before execution.
type decl struct {
	name  string
	id    int
	scope int // id of the static scope (function body) that owns it
}

// StaticError is a compilation error found by Resolve.
type StaticError struct{ Msg string }

func (e *StaticError) Error() string { return e.Msg }

type staticScope struct {
	id     int
	names  map[string]*decl
	parent *staticScope
}

type resolver struct {
	nextDecl  int
	nextScope int
	cur       *staticScope
	// set of builtin command names known to the interpreter
}

func (r *resolver) fail(format string, a ...any) {
	panic(&StaticError{fmt.Sprintf(format, a...)})
}

func (r *resolver) push() *staticScope {
	s := &staticScope{id: r.nextScope, names: map[string]*decl{}, parent: r.cur}
	r.nextScope++
	r.cur = s
	return s
}

func (r *resolver) pop() { r.cur = r.cur.parent }

func (r *resolver) declare(name string) *decl {
	d := &decl{name: name, id: r.nextDecl, scope: r.cur.id}
	r.nextDecl++
	r.cur.names[name] = d
	return d
}

// lookup finds the declaration visible for name; depth counts function
// boundaries crossed.
func (r *resolver) lookup(name string) (*decl, int) {
	depth := 0
	for s := r.cur; s != nil; s = s.parent {
		if d, ok := s.names[name]; ok {
			return d, depth
		}
		depth++
	}
	return nil, -1
}

// builtinVars are the variables of the builtin namespace the model knows.
var builtinVars = map[string]bool{"true": true, "false": true, "nil": true, "ok": true}

// Resolve binds every variable use, lvalue and named command head of the
// program to a declaration. It returns a *StaticError for code the
// reference says is rejected before execution (undeclared variables, set/tmp
// of undeclared variables, tmp outside a function, del of a non-local
// variable, unknown commands).
func Resolve(p *Program) (err error) {
	defer func() {
		if x := recover(); x != nil {
			if se, ok := x.(*StaticError); ok {
				err = se
				return
			}
			panic(x)
		}
	}()
	r := &resolver{}
	r.push()
	r.chunk(p.Body, false)
	p.resolved = true
	p.nscopes = r.nextScope
	return nil
}

func (r *resolver) chunk(c *Chunk, inFn bool) {
	for _, pl := range c.Pipes {
		for _, f := range pl.Forms {
			r.form(f, inFn)
		}
	}
}

func (r *resolver) lambda(l *Lambda) {
	s := r.push()
	l.scopeID = s.id
	l.paramDecls = l.paramDecls[:0]
	seen := map[string]bool{}
	for _, p := range l.Params {
		if seen[p] {
			r.fail("duplicate parameter %s", p)
		}
		seen[p] = true
		l.paramDecls = append(l.paramDecls, r.declare(p))
	}
	// option defaults are evaluated in the defining scope, not the new one
	r.cur = s.parent
	for i := range l.Opts {
		r.expr(l.Opts[i].Default, true)
	}
	r.cur = s
	for i := range l.Opts {
		if seen[l.Opts[i].Name] {
			r.fail("duplicate parameter %s", l.Opts[i].Name)
		}
		seen[l.Opts[i].Name] = true
		l.Opts[i].decl = r.declare(l.Opts[i].Name)
	}
	r.chunk(l.Body, true)
	r.pop()
}

func (r *resolver) exprs(es []Expr, inFn bool) {
	for _, e := range es {
		r.expr(e, inFn)
	}
}

func (r *resolver) expr(e Expr, inFn bool) {
	switch e := e.(type) {
	case *Str:
	case *Var:
		d, depth := r.lookup(e.Name)
		if d == nil {
			n := e.Name
			if !builtinVars[n] {
				if len(n) > 1 && n[len(n)-1] == '~' && modelBuiltins[n[:len(n)-1]] != nil {
					// $put~ etc.
				} else {
					r.fail("variable $%s not found", e.Name)
				}
			}
		}
		e.decl, e.depth = d, depth
	case *Capture:
		r.chunk(e.Body, inFn)
	case *ExcCapture:
		r.chunk(e.Body, inFn)
	case *Braced:
		r.exprs(e.Items, inFn)
	case *ListLit:
		r.exprs(e.Items, inFn)
	case *MapLit:
		for _, p := range e.Pairs {
			r.expr(p.K, inFn)
			r.expr(p.V, inFn)
		}
	case *Lambda:
		r.lambda(e)
	case *Index:
		r.expr(e.X, inFn)
		for _, br := range e.Indices {
			r.exprs(br, inFn)
		}
	case *Compound:
		r.exprs(e.Parts, inFn)
	default:
		panic("refinterp: unknown expression")
	}
}

// lvExisting resolves an lvalue that must refer to an existing variable.
func (r *resolver) lvExisting(l *LV, inFn bool) {
	d, depth := r.lookup(l.Name)
	if d == nil {
		r.fail("cannot find variable $%s", l.Name)
	}
	l.decl, l.depth = d, depth
	r.exprs(l.Indices, inFn)
}

func checkOneRest(ls []*LV, r *resolver) {
	n := 0
	for _, l := range ls {
		if l.Rest {
			n++
		}
	}
	if n > 1 {
		r.fail("at most one rest variable is allowed")
	}
}

func (r *resolver) form(f Form, inFn bool) {
	switch f := f.(type) {
	case *Cmd:
		if h, ok := f.Head.(*Str); ok {
			d, depth := r.lookup(h.S + "~")
			if d == nil && modelBuiltins[h.S] == nil {
				r.fail("unknown command %s", h.S)
			}
			f.decl, f.depth = d, depth
		} else {
			r.expr(f.Head, inFn)
		}
		r.exprs(f.Args, inFn)
		for _, o := range f.Opts {
			r.expr(o.V, inFn)
		}
	case *VarForm:
		checkOneRest(f.LHS, r)
		// the right-hand side sees the variables being shadowed
		r.exprs(f.RHS, inFn)
		for _, l := range f.LHS {
			if len(l.Indices) > 0 {
				r.fail("var with element lvalue")
			}
			l.decl, l.depth = r.declare(l.Name), 0
		}
	case *SetForm:
		if f.Tmp && !inFn {
			r.fail("tmp may only be used inside a function")
		}
		checkOneRest(f.LHS, r)
		for _, l := range f.LHS {
			r.lvExisting(l, inFn)
		}
		r.exprs(f.RHS, inFn)
	case *WithForm:
		for _, g := range f.Groups {
			checkOneRest(g.LHS, r)
			for _, l := range g.LHS {
				r.lvExisting(l, inFn)
			}
			r.exprs(g.RHS, inFn)
		}
		r.lambda(f.Body)
	case *DelForm:
		for _, l := range f.Targets {
			d, depth := r.lookup(l.Name)
			if d == nil {
				r.fail("no variable $%s", l.Name)
			}
			l.decl, l.depth = d, depth
			r.exprs(l.Indices, inFn)
			if len(l.Indices) == 0 {
				if depth != 0 {
					r.fail("only variables in the local scope can be deleted")
				}
				delete(r.cur.names, l.Name)
			}
		}
	case *Logic:
		r.exprs(f.Args, inFn)
	case *If:
		for i := range f.Conds {
			r.expr(f.Conds[i], inFn)
			r.lambda(f.Bodies[i])
		}
		if f.Else != nil {
			r.lambda(f.Else)
		}
	case *While:
		r.expr(f.Cond, inFn)
		r.lambda(f.Body)
		if f.Else != nil {
			r.lambda(f.Else)
		}
	case *For:
		r.expr(f.Cont, inFn)
		if d, depth := r.lookup(f.Var.Name); d != nil {
			f.Var.decl, f.Var.depth = d, depth
		} else {
			f.Var.decl, f.Var.depth = r.declare(f.Var.Name), 0
		}
		r.lambda(f.Body)
		if f.Else != nil {
			r.lambda(f.Else)
		}
	case *Try:
		if f.CatchVar == nil && f.Finally == nil {
			r.fail("try must be followed by a catch block or a finally block")
		}
		if f.Else != nil && f.CatchVar == nil {
			r.fail("try with an else block requires a catch block")
		}
		r.lambda(f.Body)
		if f.CatchVar != nil {
			if d, depth := r.lookup(f.CatchVar.Name); d != nil {
				f.CatchVar.decl, f.CatchVar.depth = d, depth
			} else {
				f.CatchVar.decl, f.CatchVar.depth = r.declare(f.CatchVar.Name), 0
			}
			r.lambda(f.Catch)
		}
		if f.Else != nil {
			r.lambda(f.Else)
		}
		if f.Finally != nil {
			r.lambda(f.Finally)
		}
	case *Fn:
		// the lambda may refer to the function being defined
		f.decl = r.declare(f.Name + "~")
		r.lambda(f.L)
	default:
		panic("refinterp: unknown form")
	}
}
