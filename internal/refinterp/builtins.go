package refinterp

import (
	"fmt"
	"math"
	"math/big"
	"sort"
	"strings"
)

type builtinFn func(it *Interp, fr *frame, ca callArgs) *ExcV

// raise is used to leave a builtin with an exception from a helper.
type raise struct{ e *ExcV }

func (it *Interp) callBuiltin(fr *frame, b *Builtin, ca callArgs) (x *ExcV) {
	defer func() {
		if r := recover(); r != nil {
			if rs, ok := r.(raise); ok {
				x = rs.e
				return
			}
			panic(r)
		}
	}()
	saved := it.curBuiltin
	it.curBuiltin = b.Name
	defer func() { it.curBuiltin = saved }()
	return b.fn(it, fr, ca)
}

// modelBuiltins are the builtin commands the reference interpreter knows,
// each written from its description in pkg/eval/*.d.elv.
var modelBuiltins map[string]builtinFn

func init() {
	modelBuiltins = map[string]builtinFn{
		"put": bPut, "nop": bNop, "fail": bFail,
		"break": bFlow("break"), "continue": bFlow("continue"), "return": bFlow("return"),
		"defer": bDefer, "each": bEach, "range": bRange, "take": bTake, "drop": bDrop,
		"count": bCount, "all": bAll, "order": bOrder, "keys": bKeys, "has-key": bHasKey,
		"has-value": bHasValue, "assoc": bAssoc, "dissoc": bDissoc, "conj": bConj,
		"+": bAdd, "-": bSub, "*": bMul, "/": bDiv, "%": bRem,
		"<": bCmp("<"), "<=": bCmp("<="), "==": bCmp("=="), "!=": bNe, ">": bCmp(">"), ">=": bCmp(">="),
		"eq": bEq, "not-eq": bNotEq, "not": bNot, "bool": bBool, "num": bNum,
		"echo": bEcho, "to-string": bToString, "repeat": bRepeat, "compare": bCompare,
		"kind-of": bKindOf, "v-emit": bEmit, "make-map": bMakeMap, "keep-if": bKeepIf,
		"compact": bCompact, "call": bCall,
	}
}

// ---------------------------------------------------------------------------
// helpers

// checkCall verifies options and arity of a builtin call. hi < 0 means no
// upper bound. allowed lists the accepted option names.
func (it *Interp) checkCall(ca callArgs, lo, hi int, allowed ...string) *ExcV {
	badOpt := false
	for _, o := range ca.opts {
		ok := false
		for _, a := range allowed {
			if a == o.name {
				ok = true
			}
		}
		if !ok {
			badOpt = true
		}
	}
	badArity := len(ca.args) < lo || (hi >= 0 && len(ca.args) > hi)
	if badOpt && badArity {
		unspec("builtin call with both a bad option and wrong arity")
	}
	if badOpt {
		it.kind("unknown-option-error")
		return exc("unknown-option", "builtin does not accept this option")
	}
	if badArity {
		it.kind("arity-error")
		return exc("arity", fmt.Sprintf("builtin needs %d..%d arguments, got %d", lo, hi, len(ca.args)))
	}
	return nil
}

func (ca callArgs) opt(name string) (Value, bool) {
	for _, o := range ca.opts {
		if o.name == name {
			return o.val, true
		}
	}
	return nil, false
}

// toNum converts an argument to a number: documented for typed numbers and
// strings that can be converted to numbers; anything else is a type error.
func (it *Interp) toNum(v Value) (*Num, *ExcV) {
	switch v := v.(type) {
	case *Num:
		return v, nil
	case string:
		n, st := parseNum(v)
		switch st {
		case 1:
			return n, nil
		case 0:
			it.kind("num-type-error")
			return nil, exc("type", "cannot parse as number: "+v)
		}
		unspec("number syntax of %q", v)
	}
	it.kind("num-type-error")
	return nil, exc("type", "wrong type: need number, got "+kindOf(v))
}

func (it *Interp) toNums(vs []Value) ([]*Num, *ExcV) {
	out := make([]*Num, len(vs))
	for i, v := range vs {
		n, x := it.toNum(v)
		if x != nil {
			return nil, x
		}
		out[i] = n
	}
	return out, nil
}

// toSmallInt converts an argument that must be an exact integer.
func (it *Interp) toInt(v Value) (int, *ExcV) {
	n, x := it.toNum(v)
	if x != nil {
		return 0, x
	}
	if !n.isInt() || !n.R.Num().IsInt64() || n.R.Num().Int64() > 1<<30 || n.R.Num().Int64() < -(1<<30) {
		unspec("integer argument that is not a small exact integer")
	}
	return int(n.R.Num().Int64()), nil
}

// inputs returns the value inputs of a command: the optional argument (an
// iterable value) or the pipeline input. fromPipe tells which.
func (it *Interp) inputsFrom(fr *frame, arg Value, hasArg bool) (items []Value, fromPipe bool) {
	if !hasArg {
		return nil, true
	}
	switch a := arg.(type) {
	case *ListV:
		it.shape(a.Items, false)
		return a.Items, false
	case string:
		if !isASCII(a) {
			unspec("iterating a non-ASCII string")
		}
		out := make([]Value, len(a))
		for i := range a {
			out[i] = a[i : i+1]
		}
		return out, false
	}
	switch arg.(type) {
	case *Num, bool, Nil, *ExcV:
		// "an iterable value" is required
		it.kind("inputs-type-error")
		panic(raise{exc("type", "cannot iterate "+kindOf(arg))})
	}
	unspec("value inputs from a %s", kindOf(arg))
	return nil, false
}

// nextInput reads one value from the pipeline input.
func (it *Interp) nextInput(fr *frame) (Value, bool) {
	in := fr.in
	if in.partial {
		unspec("input read again after a reader that stopped early")
	}
	if in.pos >= len(in.items) {
		return nil, false
	}
	if in.unordered {
		unspec("order-sensitive reader of keys output")
	}
	v := in.items[in.pos]
	in.pos++
	return v, true
}

func (it *Interp) stopReading(fr *frame) {
	if fr.in.pos < len(fr.in.items) {
		fr.in.partial = true
	}
}

// allInputs returns all value inputs (argument or drained pipeline input).
func (it *Interp) allInputs(fr *frame, ca callArgs, argIdx int, orderSensitive bool) []Value {
	if len(ca.args) > argIdx {
		items, _ := it.inputsFrom(fr, ca.args[argIdx], true)
		return items
	}
	if orderSensitive && fr.in.unordered && fr.in.pos < len(fr.in.items) {
		unspec("order-sensitive reader of keys output")
	}
	return it.readAll(fr)
}

// ---------------------------------------------------------------------------
// basic commands

func bPut(it *Interp, fr *frame, ca callArgs) *ExcV {
	if x := it.checkCall(ca, 0, -1); x != nil {
		return x
	}
	for _, v := range ca.args {
		it.putValue(fr, v)
	}
	return nil
}

func bNop(it *Interp, fr *frame, ca callArgs) *ExcV { return nil }

func bFail(it *Interp, fr *frame, ca callArgs) *ExcV {
	if x := it.checkCall(ca, 1, 1); x != nil {
		return x
	}
	if e, ok := ca.args[0].(*ExcV); ok {
		if e.Cause == nil {
			unspec("fail $ok")
		}
		it.kind("fail-rethrow")
		return e
	}
	if _, ok := ca.args[0].(*ReasonV); ok {
		unspec("fail with a reason value")
	}
	it.kind("fail")
	return &ExcV{Cause: &Cause{Kind: "fail", Content: ca.args[0]}}
}

func bFlow(name string) builtinFn {
	return func(it *Interp, fr *frame, ca callArgs) *ExcV {
		if x := it.checkCall(ca, 0, 0); x != nil {
			return x
		}
		it.kind("flow-" + name)
		return &ExcV{Cause: &Cause{Kind: "flow", Name: name}}
	}
}

func bDefer(it *Interp, fr *frame, ca callArgs) *ExcV {
	if x := it.checkCall(ca, 1, 1); x != nil {
		return x
	}
	if fr.defers == nil {
		it.kind("defer-toplevel")
		return exc("type", "defer must be called from within a closure")
	}
	f := ca.args[0]
	switch f.(type) {
	case *Closure, *Builtin:
	default:
		unspec("defer of a non-callable")
	}
	if fr.out != fr.bodyOut || fr.in != fr.bodyIn {
		unspec("defer called with ports other than those of the function body")
	}
	it.kind("defer")
	it.handlers++
	*fr.defers = append(*fr.defers, func() *ExcV {
		it.kind("deferred-run")
		// "any exception it throws gets propagated": also the exceptions of
		// flow commands, which the function being left no longer captures
		x := it.call(fr, f, callArgs{})
		if x != nil && x.Cause.Kind == "flow" {
			it.kind("deferred-flow")
		}
		return x
	})
	return nil
}

func bEmit(it *Interp, fr *frame, ca callArgs) *ExcV {
	parts := make([]string, len(ca.args))
	for i, a := range ca.args {
		parts[i] = Canon(a)
	}
	it.events = append(it.events, strings.Join(parts, " "))
	return nil
}

func bEach(it *Interp, fr *frame, ca callArgs) *ExcV {
	if x := it.checkCall(ca, 1, 2); x != nil {
		return x
	}
	f := ca.args[0]
	switch f.(type) {
	case *Closure, *Builtin:
	default:
		unspec("each with a non-callable")
	}
	it.kind("each")
	handle := func(v Value) (stop bool, x *ExcV) {
		it.step()
		x = it.call(fr, f, callArgs{args: []Value{v}})
		if x != nil {
			if x.Cause.Kind == "flow" && x.Cause.Name == "break" {
				it.kind("each-break")
				return true, nil
			}
			if x.Cause.Kind == "flow" && x.Cause.Name == "continue" {
				it.kind("each-continue")
				return false, nil
			}
			return true, x
		}
		return false, nil
	}
	if len(ca.args) == 2 {
		items, _ := it.inputsFrom(fr, ca.args[1], true)
		for _, v := range items {
			if stop, x := handle(v); stop {
				return x
			}
		}
		return nil
	}
	it.kind("each-pipe")
	if fr.in.isPipe && !fr.in.partial {
		it.shape(fr.in.items[fr.in.pos:], true)
	}
	// the callback must not read the same input
	sub := *fr
	sub.in = &pipeBuf{}
	subfr := &sub
	for {
		v, ok := it.nextInput(fr)
		if !ok {
			return nil
		}
		it.step()
		x := it.call(subfr, f, callArgs{args: []Value{v}})
		if x != nil {
			if x.Cause.Kind == "flow" && x.Cause.Name == "break" {
				it.kind("each-break")
				it.stopReading(fr)
				return nil
			}
			if x.Cause.Kind == "flow" && x.Cause.Name == "continue" {
				it.kind("each-continue")
				continue
			}
			it.stopReading(fr)
			return x
		}
		if sub.in.pos != 0 {
			unspec("each callback reading the pipeline input")
		}
	}
}

func bRange(it *Interp, fr *frame, ca callArgs) *ExcV {
	if x := it.checkCall(ca, 1, 2, "step"); x != nil {
		return x
	}
	ns, x := it.toNums(ca.args)
	if x != nil {
		return x
	}
	for _, n := range ns {
		if !n.isInt() {
			unspec("range over non-integers")
		}
	}
	start, end := big.NewInt(0), ns[len(ns)-1].R.Num()
	if len(ns) == 2 {
		start = ns[0].R.Num()
	}
	up := start.Cmp(end) <= 0
	step := big.NewInt(1)
	if !up {
		step = big.NewInt(-1)
	}
	if sv, ok := ca.opt("step"); ok {
		sn, x := it.toNum(sv)
		if x != nil {
			return x
		}
		if !sn.isInt() {
			unspec("range with non-integer step")
		}
		step = sn.R.Num()
		if step.Sign() == 0 {
			unspec("range with zero step")
		}
		if (up && step.Sign() < 0) || (!up && step.Sign() > 0) {
			it.kind("range-step-error")
			return exc("type", "range step has the wrong sign")
		}
		it.kind("range-step")
	}
	it.kind("range")
	cur := new(big.Int).Set(start)
	for n := 0; ; n++ {
		if up && cur.Cmp(end) >= 0 || !up && cur.Cmp(end) <= 0 {
			break
		}
		it.step()
		it.putValue(fr, ratNum(new(big.Rat).SetInt(new(big.Int).Set(cur))))
		cur.Add(cur, step)
	}
	return nil
}

func bTake(it *Interp, fr *frame, ca callArgs) *ExcV {
	if x := it.checkCall(ca, 1, 2); x != nil {
		return x
	}
	n, x := it.toInt(ca.args[0])
	if x != nil {
		return x
	}
	if n < 0 {
		unspec("take with a negative count")
	}
	it.kind("take")
	if len(ca.args) == 2 {
		items, _ := it.inputsFrom(fr, ca.args[1], true)
		it.countShape(n, len(items))
		for i := 0; i < n && i < len(items); i++ {
			it.putValue(fr, items[i])
		}
		return nil
	}
	if fr.in.isPipe && !fr.in.partial {
		rest := fr.in.items[fr.in.pos:]
		it.shape(rest, true)
		it.countShape(n, len(rest))
	}
	for i := 0; i < n; i++ {
		v, ok := it.nextInput(fr)
		if !ok {
			return nil
		}
		it.putValue(fr, v)
	}
	it.stopReading(fr)
	return nil
}

func bDrop(it *Interp, fr *frame, ca callArgs) *ExcV {
	if x := it.checkCall(ca, 1, 2); x != nil {
		return x
	}
	n, x := it.toInt(ca.args[0])
	if x != nil {
		return x
	}
	if n < 0 {
		unspec("drop with a negative count")
	}
	it.kind("drop")
	items := it.allInputs(fr, ca, 1, true)
	it.countShape(n, len(items))
	for i := n; i < len(items); i++ {
		it.putValue(fr, items[i])
	}
	return nil
}

func bCount(it *Interp, fr *frame, ca callArgs) *ExcV {
	if x := it.checkCall(ca, 0, 1); x != nil {
		return x
	}
	it.kind("count")
	if len(ca.args) == 0 {
		items := it.readAll(fr)
		it.putValue(fr, intNum(int64(len(items))))
		return nil
	}
	switch a := ca.args[0].(type) {
	case *ListV:
		it.shape(a.Items, false)
		it.putValue(fr, intNum(int64(len(a.Items))))
	case *MapV:
		it.mapShape(a)
		it.putValue(fr, intNum(int64(len(a.Keys))))
	case string:
		it.putValue(fr, intNum(int64(len(a))))
	case *Num, bool, Nil:
		it.kind("count-type-error")
		return exc("type", "cannot get length of a "+kindOf(a))
	default:
		unspec("count of a %s", kindOf(a))
	}
	return nil
}

func bAll(it *Interp, fr *frame, ca callArgs) *ExcV {
	if x := it.checkCall(ca, 0, 1); x != nil {
		return x
	}
	it.kind("all")
	for _, v := range it.allInputs(fr, ca, 0, true) {
		it.putValue(fr, v)
	}
	return nil
}

func bRepeat(it *Interp, fr *frame, ca callArgs) *ExcV {
	if x := it.checkCall(ca, 2, 2); x != nil {
		return x
	}
	n, x := it.toInt(ca.args[0])
	if x != nil {
		return x
	}
	if n < 0 {
		unspec("repeat with a negative count")
	}
	it.kind("repeat")
	for i := 0; i < n; i++ {
		it.step()
		it.putValue(fr, ca.args[1])
	}
	return nil
}

// ---------------------------------------------------------------------------
// ordering

type uncomparable struct{}

// compareValues implements the documented algorithm of `compare` (without
// &total): booleans, typed numbers, strings and lists are ordered; otherwise
// equal values compare 0 and anything else cannot be compared.
func compareValues(a, b Value) int {
	switch a := a.(type) {
	case bool:
		if b, ok := b.(bool); ok {
			switch {
			case a == b:
				return 0
			case !a:
				return -1
			}
			return 1
		}
	case *Num:
		if b, ok := b.(*Num); ok {
			return numCmp(a, b)
		}
	case string:
		if b, ok := b.(string); ok {
			return strings.Compare(a, b)
		}
	case *ListV:
		if b, ok := b.(*ListV); ok {
			for i := 0; i < len(a.Items) && i < len(b.Items); i++ {
				if c := compareValues(a.Items[i], b.Items[i]); c != 0 {
					return c
				}
			}
			switch {
			case len(a.Items) < len(b.Items):
				return -1
			case len(a.Items) > len(b.Items):
				return 1
			}
			return 0
		}
	}
	if valuesEqual(a, b) {
		return 0
	}
	panic(uncomparable{})
}

func numCmp(a, b *Num) int {
	if a.Inexact || b.Inexact {
		x, y := a.float(), b.float()
		if math.IsNaN(x) || math.IsNaN(y) {
			unspec("comparison involving NaN")
		}
		if !a.Inexact || !b.Inexact {
			// mixed exactness: only decided when the float conversion is exact
			for _, n := range []*Num{a, b} {
				if !n.Inexact {
					if _, exact := n.R.Float64(); !exact {
						unspec("comparison of an inexact number with an exact number that has no exact float")
					}
				}
			}
		}
		switch {
		case x < y:
			return -1
		case x > y:
			return 1
		}
		return 0
	}
	return a.R.Cmp(b.R)
}

func bCompare(it *Interp, fr *frame, ca callArgs) (x *ExcV) {
	if x := it.checkCall(ca, 2, 2, "total"); x != nil {
		return x
	}
	if _, ok := ca.opt("total"); ok {
		unspec("compare &total is not modelled")
	}
	it.kind("compare")
	defer func() {
		if r := recover(); r != nil {
			if _, ok := r.(uncomparable); ok {
				it.kind("uncomparable-error")
				x = exc("type", "values cannot be compared")
				return
			}
			panic(r)
		}
	}()
	it.putValue(fr, intNum(int64(compareValues(ca.args[0], ca.args[1]))))
	return nil
}

func bOrder(it *Interp, fr *frame, ca callArgs) (x *ExcV) {
	if x := it.checkCall(ca, 0, 1, "reverse", "key", "less-than", "total"); x != nil {
		return x
	}
	if _, ok := ca.opt("less-than"); ok {
		unspec("order &less-than is not modelled")
	}
	if _, ok := ca.opt("total"); ok {
		unspec("order &total is not modelled")
	}
	reverse := false
	if rv, ok := ca.opt("reverse"); ok {
		b, isBool := rv.(bool)
		if !isBool {
			unspec("order &reverse with a non-boolean")
		}
		reverse = b
	}
	items := append([]Value(nil), it.allInputs(fr, ca, 0, false)...)
	keys := items
	if kf, ok := ca.opt("key"); ok {
		if _, isNil := kf.(Nil); !isNil {
			switch kf.(type) {
			case *Closure, *Builtin:
			default:
				unspec("order &key with a non-callable")
			}
			it.kind("order-key")
			keys = make([]Value, len(items))
			for i, v := range items {
				buf := &pipeBuf{}
				sub := &frame{sc: fr.sc, in: &pipeBuf{}, out: buf, defers: fr.defers, bodyOut: buf}
				if x := it.call(sub, kf, callArgs{args: []Value{v}}); x != nil {
					return x
				}
				if len(buf.items) != 1 || len(buf.bytes) > 0 {
					unspec("order &key callback with other than one output")
				}
				keys[i] = buf.items[0]
			}
		}
	}
	it.kind("order")
	// every pair must be comparable (see the discussion in Spec.Assumptions)
	defer func() {
		if r := recover(); r != nil {
			if _, ok := r.(uncomparable); ok {
				it.kind("uncomparable-error")
				x = exc("type", "values cannot be compared")
				return
			}
			panic(r)
		}
	}()
	for i := range keys {
		for j := i + 1; j < len(keys); j++ {
			c := compareValues(keys[i], keys[j])
			if c == 0 && reverse && Canon(items[i]) != Canon(items[j]) {
				unspec("order &reverse with ties between distinguishable values")
			}
		}
	}
	idx := make([]int, len(items))
	for i := range idx {
		idx[i] = i
	}
	sort.SliceStable(idx, func(a, b int) bool { return compareValues(keys[idx[a]], keys[idx[b]]) < 0 })
	if reverse {
		it.kind("order-reverse")
		for i, j := 0, len(idx)-1; i < j; i, j = i+1, j-1 {
			idx[i], idx[j] = idx[j], idx[i]
		}
	}
	for _, i := range idx {
		it.putValue(fr, items[i])
	}
	return nil
}

// ---------------------------------------------------------------------------
// containers

func bKeys(it *Interp, fr *frame, ca callArgs) *ExcV {
	if x := it.checkCall(ca, 1, 1); x != nil {
		return x
	}
	m, ok := ca.args[0].(*MapV)
	if !ok {
		switch ca.args[0].(type) {
		case string, *Num, bool, Nil, *ListV:
			it.kind("keys-type-error")
			return exc("type", "cannot iterate keys of "+kindOf(ca.args[0]))
		}
		unspec("keys of a %s", kindOf(ca.args[0]))
	}
	it.kind("keys")
	it.mapShape(m)
	if len(m.Keys) > 1 {
		// "there is no guaranteed order for the keys of a map"
		if !fr.out.isPipe || len(fr.out.items) != 0 {
			unspec("keys of a map with several keys outside `keys $m | order-insensitive-reader`")
		}
	}
	for _, k := range m.Keys {
		it.putValue(fr, k)
	}
	if len(m.Keys) > 1 {
		fr.out.unordered = true
	}
	return nil
}

func (it *Interp) hasKey(c, k Value) bool {
	switch c := c.(type) {
	case *MapV:
		it.mapShape(c)
		return c.find(k) >= 0
	case *ListV, string:
		if l, ok := c.(*ListV); ok {
			it.shape(l.Items, false)
		}
		length := 0
		if l, ok := c.(*ListV); ok {
			length = len(l.Items)
		} else {
			s := c.(string)
			if !isASCII(s) {
				unspec("has-key on a non-ASCII string")
			}
			length = len(s)
		}
		if s, ok := k.(string); ok {
			if _, _, _, isSlice := parseSlice(s); isSlice {
				_, _, x := it.sliceRange(s, length)
				return x == nil
			}
		}
		n, st := asInt(k)
		if st != 1 {
			unspec("has-key on a sequence with a key that is not a plain integer")
		}
		if !n.IsInt64() {
			return false
		}
		i := n.Int64()
		if i < 0 {
			i += int64(length)
		}
		return i >= 0 && i < int64(length)
	}
	unspec("has-key on a %s", kindOf(c))
	return false
}

func bHasKey(it *Interp, fr *frame, ca callArgs) *ExcV {
	if x := it.checkCall(ca, 2, 2); x != nil {
		return x
	}
	it.kind("has-key")
	it.putValue(fr, it.hasKey(ca.args[0], ca.args[1]))
	return nil
}

func bHasValue(it *Interp, fr *frame, ca callArgs) *ExcV {
	if x := it.checkCall(ca, 2, 2); x != nil {
		return x
	}
	it.kind("has-value")
	var vals []Value
	switch c := ca.args[0].(type) {
	case *ListV:
		it.shape(c.Items, false)
		vals = c.Items
	case *MapV:
		it.mapShape(c)
		vals = c.Vals
	default:
		unspec("has-value on a %s", kindOf(c))
	}
	for _, v := range vals {
		if valuesEqual(v, ca.args[1]) {
			it.putValue(fr, true)
			return nil
		}
	}
	it.putValue(fr, false)
	return nil
}

func bAssoc(it *Interp, fr *frame, ca callArgs) *ExcV {
	if x := it.checkCall(ca, 3, 3); x != nil {
		return x
	}
	it.kind("assoc")
	switch c := ca.args[0].(type) {
	case *ListV:
		it.shape(c.Items, false)
		if s, ok := ca.args[1].(string); ok {
			if _, _, _, isSlice := parseSlice(s); isSlice {
				unspec("assoc with a slice")
			}
		}
		i, x := it.listIndex(c, ca.args[1], false)
		if x != nil {
			return x
		}
		n := &ListV{Items: append([]Value(nil), c.Items...)}
		n.Items[i] = ca.args[2]
		it.putValue(fr, n)
	case *MapV:
		it.mapShape(c)
		it.putValue(fr, c.assoc(ca.args[1], ca.args[2]))
	default:
		unspec("assoc on a %s", kindOf(c))
	}
	return nil
}

func bDissoc(it *Interp, fr *frame, ca callArgs) *ExcV {
	if x := it.checkCall(ca, 2, 2); x != nil {
		return x
	}
	m, ok := ca.args[0].(*MapV)
	if !ok {
		switch ca.args[0].(type) {
		case string, *Num, bool, Nil, *ListV:
			it.kind("dissoc-type-error")
			return exc("type", "cannot dissoc "+kindOf(ca.args[0]))
		}
		unspec("dissoc on a %s", kindOf(ca.args[0]))
	}
	it.kind("dissoc")
	it.mapShape(m)
	it.putValue(fr, m.dissoc(ca.args[1]))
	return nil
}

func bConj(it *Interp, fr *frame, ca callArgs) *ExcV {
	if x := it.checkCall(ca, 1, -1); x != nil {
		return x
	}
	l, ok := ca.args[0].(*ListV)
	if !ok {
		switch ca.args[0].(type) {
		case string, *Num, bool, Nil, *MapV:
			it.kind("conj-type-error")
			return exc("type", "conj needs a list, got "+kindOf(ca.args[0]))
		}
		unspec("conj on a %s", kindOf(ca.args[0]))
	}
	it.kind("conj")
	it.shape(l.Items, false)
	n := &ListV{Items: append(append([]Value(nil), l.Items...), ca.args[1:]...)}
	it.putValue(fr, n)
	return nil
}

func bMakeMap(it *Interp, fr *frame, ca callArgs) *ExcV {
	if x := it.checkCall(ca, 0, 1); x != nil {
		return x
	}
	it.kind("make-map")
	m := &MapV{}
	for _, v := range it.allInputs(fr, ca, 0, true) {
		l, ok := v.(*ListV)
		if !ok || len(l.Items) != 2 {
			unspec("make-map input that is not a two-element list")
		}
		m = m.assoc(l.Items[0], l.Items[1])
	}
	it.putValue(fr, m)
	return nil
}

func bKeepIf(it *Interp, fr *frame, ca callArgs) *ExcV {
	if x := it.checkCall(ca, 1, 2); x != nil {
		return x
	}
	f := ca.args[0]
	switch f.(type) {
	case *Closure, *Builtin:
	default:
		unspec("keep-if with a non-callable")
	}
	it.kind("keep-if")
	items := it.allInputs(fr, ca, 1, true)
	for _, v := range items {
		buf := &pipeBuf{}
		sub := &frame{sc: fr.sc, in: &pipeBuf{}, out: buf, defers: fr.defers, bodyOut: buf}
		if x := it.call(sub, f, callArgs{args: []Value{v}}); x != nil {
			if len(ca.args) == 1 {
				// how much of the pipeline input was consumed is not pinned
				unspec("keep-if predicate raising with pipeline input")
			}
			return x
		}
		if len(buf.items) != 1 || len(buf.bytes) > 0 {
			unspec("keep-if predicate with other than one output")
		}
		b, ok := buf.items[0].(bool)
		if !ok {
			unspec("keep-if predicate with a non-boolean output")
		}
		if b {
			it.putValue(fr, v)
		}
	}
	return nil
}

func bCompact(it *Interp, fr *frame, ca callArgs) *ExcV {
	if x := it.checkCall(ca, 0, 1); x != nil {
		return x
	}
	it.kind("compact")
	var prev Value
	have := false
	for _, v := range it.allInputs(fr, ca, 0, true) {
		if have && valuesEqual(prev, v) {
			continue
		}
		it.putValue(fr, v)
		prev, have = v, true
	}
	return nil
}

func bCall(it *Interp, fr *frame, ca callArgs) *ExcV {
	if x := it.checkCall(ca, 3, 3); x != nil {
		return x
	}
	args, ok := ca.args[1].(*ListV)
	opts, ok2 := ca.args[2].(*MapV)
	if !ok || !ok2 {
		unspec("call with arguments that are not a list and a map")
	}
	switch ca.args[0].(type) {
	case *Closure, *Builtin:
	default:
		unspec("call of a non-callable")
	}
	it.kind("call-builtin")
	sub := callArgs{args: args.Items}
	for i, k := range opts.Keys {
		s, ok := k.(string)
		if !ok {
			unspec("call with a non-string option name")
		}
		sub.opts = append(sub.opts, optVal{s, opts.Vals[i]})
	}
	if len(sub.opts) > 1 {
		// with several unknown options the reported one is not pinned; fine,
		// categories are the same
	}
	return it.call(fr, ca.args[0], sub)
}

// ---------------------------------------------------------------------------
// numbers

// arith folds exact rationals exactly; as soon as an inexact number is
// involved the result is inexact and computed both in float64 (left to right)
// and exactly; the model only decides when the two agree.
type acc struct {
	inexact bool
	r       *big.Rat // exact value of the running result
	f       float64  // float value of the running result
}

func newAcc(n *Num) *acc {
	a := &acc{}
	if n.Inexact {
		if math.IsNaN(n.F) || math.IsInf(n.F, 0) {
			unspec("arithmetic on NaN or infinity")
		}
		a.inexact = true
		a.f = n.F
		a.r = new(big.Rat).SetFloat64(n.F)
	} else {
		a.r = new(big.Rat).Set(n.R)
		a.f, _ = n.R.Float64()
	}
	return a
}

func (a *acc) apply(op byte, n *Num) {
	b := newAcc(n)
	if b.inexact {
		a.inexact = true
	}
	switch op {
	case '+':
		a.r.Add(a.r, b.r)
		a.f += b.f
	case '-':
		a.r.Sub(a.r, b.r)
		a.f -= b.f
	case '*':
		a.r.Mul(a.r, b.r)
		a.f *= b.f
	case '/':
		a.r.Quo(a.r, b.r)
		a.f /= b.f
	}
}

func (a *acc) result() *Num {
	if !a.inexact {
		return ratNum(a.r)
	}
	f, exact := a.r.Float64()
	if !exact || f != a.f {
		unspec("inexact arithmetic whose result depends on rounding")
	}
	if f == 0 {
		f = 0 // the sign of an inexact zero is not modelled
		if a.f != 0 || math.Signbit(a.f) {
			unspec("inexact arithmetic producing a signed zero")
		}
	}
	return floatNum(f)
}

func bAdd(it *Interp, fr *frame, ca callArgs) *ExcV {
	if x := it.checkCall(ca, 0, -1); x != nil {
		return x
	}
	ns, x := it.toNums(ca.args)
	if x != nil {
		return x
	}
	it.kind("arith")
	a := newAcc(intNum(0))
	for _, n := range ns {
		a.apply('+', n)
	}
	it.putValue(fr, a.result())
	return nil
}

func bSub(it *Interp, fr *frame, ca callArgs) *ExcV {
	if x := it.checkCall(ca, 1, -1); x != nil {
		return x
	}
	ns, x := it.toNums(ca.args)
	if x != nil {
		return x
	}
	it.kind("arith")
	if len(ns) == 1 {
		a := newAcc(intNum(0))
		a.apply('-', ns[0])
		if a.inexact && a.f == 0 {
			unspec("negation of an inexact zero")
		}
		it.putValue(fr, a.result())
		return nil
	}
	a := newAcc(ns[0])
	for _, n := range ns[1:] {
		a.apply('-', n)
	}
	it.putValue(fr, a.result())
	return nil
}

func isExactZero(n *Num) bool { return !n.Inexact && n.R.Sign() == 0 }

func bMul(it *Interp, fr *frame, ca callArgs) *ExcV {
	if x := it.checkCall(ca, 0, -1); x != nil {
		return x
	}
	ns, x := it.toNums(ca.args)
	if x != nil {
		return x
	}
	it.kind("arith")
	for _, n := range ns {
		if isExactZero(n) {
			// "when any argument is exact 0 and no other argument is a
			// floating-point infinity, the result is exact 0"
			for _, m := range ns {
				if m.Inexact && (math.IsInf(m.F, 0) || math.IsNaN(m.F)) {
					unspec("multiplication of exact 0 with infinity or NaN")
				}
			}
			it.putValue(fr, intNum(0))
			return nil
		}
	}
	a := newAcc(intNum(1))
	for _, n := range ns {
		a.apply('*', n)
	}
	it.putValue(fr, a.result())
	return nil
}

func bDiv(it *Interp, fr *frame, ca callArgs) *ExcV {
	if len(ca.args) == 0 {
		unspec("/ without arguments")
	}
	if x := it.checkCall(ca, 1, -1); x != nil {
		return x
	}
	ns, x := it.toNums(ca.args)
	if x != nil {
		return x
	}
	it.kind("arith")
	if len(ns) == 1 {
		if isExactZero(ns[0]) {
			unspec("reciprocal of exact 0") // the two statements of the doc conflict
		}
		ns = []*Num{intNum(1), ns[0]}
	}
	for _, n := range ns[1:] {
		if isExactZero(n) {
			it.kind("div0-error")
			return exc("div0", "divisor must be number other than exact 0")
		}
		if n.Inexact && n.F == 0 {
			unspec("division by inexact zero")
		}
	}
	if isExactZero(ns[0]) {
		// "when $x-num is exact 0 and no $y-num is exact 0, the result is exact 0"
		it.putValue(fr, intNum(0))
		return nil
	}
	a := newAcc(ns[0])
	for _, n := range ns[1:] {
		a.apply('/', n)
	}
	it.putValue(fr, a.result())
	return nil
}

func bRem(it *Interp, fr *frame, ca callArgs) *ExcV {
	if x := it.checkCall(ca, 2, 2); x != nil {
		return x
	}
	ns, x := it.toNums(ca.args)
	if x != nil {
		return x
	}
	for _, n := range ns {
		if !n.isInt() {
			it.kind("rem-type-error")
			return exc("type", "argument must be exact integer")
		}
	}
	if ns[1].R.Sign() == 0 {
		unspec("remainder by zero")
	}
	it.kind("arith")
	// the result has the same sign as x: truncated division
	r := new(big.Int).Rem(ns[0].R.Num(), ns[1].R.Num())
	it.putValue(fr, ratNum(new(big.Rat).SetInt(r)))
	return nil
}

func bCmp(op string) builtinFn {
	return func(it *Interp, fr *frame, ca callArgs) *ExcV {
		if x := it.checkCall(ca, 0, -1); x != nil {
			return x
		}
		ns, x := it.toNums(ca.args)
		if x != nil {
			return x
		}
		it.kind("num-compare")
		res := true
		for i := 0; i+1 < len(ns); i++ {
			c := numCmp(ns[i], ns[i+1])
			ok := false
			switch op {
			case "<":
				ok = c < 0
			case "<=":
				ok = c <= 0
			case "==":
				ok = c == 0
			case ">":
				ok = c > 0
			case ">=":
				ok = c >= 0
			}
			if !ok {
				res = false
			}
		}
		it.putValue(fr, res)
		return nil
	}
}

func bNe(it *Interp, fr *frame, ca callArgs) *ExcV {
	if x := it.checkCall(ca, 2, 2); x != nil {
		return x
	}
	ns, x := it.toNums(ca.args)
	if x != nil {
		return x
	}
	it.kind("num-compare")
	it.putValue(fr, numCmp(ns[0], ns[1]) != 0)
	return nil
}

func bNum(it *Interp, fr *frame, ca callArgs) *ExcV {
	if x := it.checkCall(ca, 1, 1); x != nil {
		return x
	}
	n, x := it.toNum(ca.args[0])
	if x != nil {
		return x
	}
	it.kind("num")
	it.putValue(fr, n)
	return nil
}

// ---------------------------------------------------------------------------
// predicates, strings

func bEq(it *Interp, fr *frame, ca callArgs) *ExcV {
	if x := it.checkCall(ca, 0, -1); x != nil {
		return x
	}
	it.kind("eq")
	res := true
	for i := 0; i+1 < len(ca.args); i++ {
		if !valuesEqual(ca.args[i], ca.args[i+1]) {
			res = false
		}
	}
	it.putValue(fr, res)
	return nil
}

func bNotEq(it *Interp, fr *frame, ca callArgs) *ExcV {
	if x := it.checkCall(ca, 2, 2); x != nil {
		return x
	}
	it.kind("eq")
	it.putValue(fr, !valuesEqual(ca.args[0], ca.args[1]))
	return nil
}

func bNot(it *Interp, fr *frame, ca callArgs) *ExcV {
	if x := it.checkCall(ca, 1, 1); x != nil {
		return x
	}
	it.kind("not")
	it.putValue(fr, !truthy(ca.args[0]))
	return nil
}

func bBool(it *Interp, fr *frame, ca callArgs) *ExcV {
	if x := it.checkCall(ca, 1, 1); x != nil {
		return x
	}
	it.kind("bool")
	it.putValue(fr, truthy(ca.args[0]))
	return nil
}

func bKindOf(it *Interp, fr *frame, ca callArgs) *ExcV {
	if x := it.checkCall(ca, 0, -1); x != nil {
		return x
	}
	it.kind("kind-of")
	for _, a := range ca.args {
		switch a.(type) {
		case string, *ListV, *MapV:
			it.putValue(fr, kindOf(a))
		default:
			unspec("kind-of a %s", kindOf(a))
		}
	}
	return nil
}

func (it *Interp) toString(v Value) string {
	switch v := v.(type) {
	case string:
		return v
	case *Num:
		s, ok := numString(v)
		if !ok {
			unspec("string form of an unusual float")
		}
		return s
	}
	unspec("string form of a %s", kindOf(v))
	return ""
}

func bToString(it *Interp, fr *frame, ca callArgs) *ExcV {
	if x := it.checkCall(ca, 0, -1); x != nil {
		return x
	}
	it.kind("to-string")
	for _, a := range ca.args {
		it.putValue(fr, it.toString(a))
	}
	return nil
}

func bEcho(it *Interp, fr *frame, ca callArgs) *ExcV {
	if x := it.checkCall(ca, 0, -1, "sep"); x != nil {
		return x
	}
	sep := " "
	if sv, ok := ca.opt("sep"); ok {
		s, isStr := sv.(string)
		if !isStr {
			unspec("echo &sep with a non-string")
		}
		sep = s
	}
	it.kind("echo")
	parts := make([]string, len(ca.args))
	for i, a := range ca.args {
		parts[i] = it.toString(a)
	}
	it.putBytes(fr, strings.Join(parts, sep)+"\n")
	return nil
}
