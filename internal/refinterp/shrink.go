package refinterp

// Delta debugging on the syntax tree: candidates are single edits (delete a
// statement, a pipeline stage, an argument; replace a control structure by
// one of its bodies; replace an expression by a sub-expression or a small
// literal). An edit is kept when the program still resolves and the
// predicate (both sides still disagree) holds.

// Clone returns a deep copy of the program (without resolution data).
func (p *Program) Clone() *Program { return &Program{Body: cloneChunk(p.Body)} }

func cloneChunk(c *Chunk) *Chunk {
	if c == nil {
		return nil
	}
	n := &Chunk{}
	for _, pl := range c.Pipes {
		np := &Pipeline{}
		for _, f := range pl.Forms {
			np.Forms = append(np.Forms, cloneForm(f))
		}
		n.Pipes = append(n.Pipes, np)
	}
	return n
}

func cloneLambda(l *Lambda) *Lambda {
	if l == nil {
		return nil
	}
	n := &Lambda{Sig: l.Sig, Params: append([]string(nil), l.Params...), Rest: l.Rest, Body: cloneChunk(l.Body)}
	for _, o := range l.Opts {
		n.Opts = append(n.Opts, OptDecl{Name: o.Name, Default: cloneExpr(o.Default)})
	}
	return n
}

func cloneExprs(es []Expr) []Expr {
	if es == nil {
		return nil
	}
	out := make([]Expr, len(es))
	for i, e := range es {
		out[i] = cloneExpr(e)
	}
	return out
}

func cloneExpr(e Expr) Expr {
	switch e := e.(type) {
	case nil:
		return nil
	case *Str:
		return &Str{S: e.S, Quote: e.Quote}
	case *Var:
		return &Var{Name: e.Name, Explode: e.Explode}
	case *Capture:
		return &Capture{Body: cloneChunk(e.Body)}
	case *ExcCapture:
		return &ExcCapture{Body: cloneChunk(e.Body)}
	case *Braced:
		return &Braced{Items: cloneExprs(e.Items)}
	case *ListLit:
		return &ListLit{Items: cloneExprs(e.Items)}
	case *MapLit:
		n := &MapLit{}
		for _, p := range e.Pairs {
			n.Pairs = append(n.Pairs, Pair{K: cloneExpr(p.K), V: cloneExpr(p.V)})
		}
		return n
	case *Lambda:
		return cloneLambda(e)
	case *Index:
		n := &Index{X: cloneExpr(e.X)}
		for _, br := range e.Indices {
			n.Indices = append(n.Indices, cloneExprs(br))
		}
		return n
	case *Compound:
		return &Compound{Parts: cloneExprs(e.Parts)}
	}
	panic("refinterp: clone of unknown expression")
}

func cloneLVs(ls []*LV) []*LV {
	var out []*LV
	for _, l := range ls {
		out = append(out, cloneLV(l))
	}
	return out
}

func cloneLV(l *LV) *LV {
	if l == nil {
		return nil
	}
	return &LV{Name: l.Name, Rest: l.Rest, Indices: cloneExprs(l.Indices)}
}

func cloneForm(f Form) Form {
	switch f := f.(type) {
	case *Cmd:
		n := &Cmd{Head: cloneExpr(f.Head), Args: cloneExprs(f.Args)}
		for _, o := range f.Opts {
			n.Opts = append(n.Opts, Opt{Name: o.Name, V: cloneExpr(o.V)})
		}
		return n
	case *VarForm:
		return &VarForm{LHS: cloneLVs(f.LHS), HasEq: f.HasEq, RHS: cloneExprs(f.RHS)}
	case *SetForm:
		return &SetForm{Tmp: f.Tmp, LHS: cloneLVs(f.LHS), RHS: cloneExprs(f.RHS)}
	case *WithForm:
		n := &WithForm{Bracketed: f.Bracketed, Body: cloneLambda(f.Body)}
		for _, g := range f.Groups {
			n.Groups = append(n.Groups, &Assign{LHS: cloneLVs(g.LHS), RHS: cloneExprs(g.RHS)})
		}
		return n
	case *DelForm:
		return &DelForm{Targets: cloneLVs(f.Targets)}
	case *Logic:
		return &Logic{Op: f.Op, Args: cloneExprs(f.Args)}
	case *If:
		n := &If{Conds: cloneExprs(f.Conds), Else: cloneLambda(f.Else)}
		for _, b := range f.Bodies {
			n.Bodies = append(n.Bodies, cloneLambda(b))
		}
		return n
	case *While:
		return &While{Cond: cloneExpr(f.Cond), Body: cloneLambda(f.Body), Else: cloneLambda(f.Else)}
	case *For:
		return &For{Var: cloneLV(f.Var), Cont: cloneExpr(f.Cont), Body: cloneLambda(f.Body), Else: cloneLambda(f.Else)}
	case *Try:
		return &Try{Body: cloneLambda(f.Body), CatchVar: cloneLV(f.CatchVar), Catch: cloneLambda(f.Catch), Else: cloneLambda(f.Else), Finally: cloneLambda(f.Finally)}
	case *Fn:
		return &Fn{Name: f.Name, L: cloneLambda(f.L)}
	}
	panic("refinterp: clone of unknown form")
}

// ---------------------------------------------------------------------------

type editor struct {
	edits []func()
}

func (ed *editor) add(f func()) { ed.edits = append(ed.edits, f) }

func blockCall(l *Lambda) *Pipeline {
	return stmt(&Cmd{Head: &Lambda{Rest: -1, Body: l.Body}})
}

func (ed *editor) chunk(c *Chunk) {
	if c == nil {
		return
	}
	for i := range c.Pipes {
		i := i
		ed.add(func() { c.Pipes = append(c.Pipes[:i:i], c.Pipes[i+1:]...) })
	}
	// delete halves of long chunks
	if n := len(c.Pipes); n >= 4 {
		ed.add(func() { c.Pipes = c.Pipes[:n/2] })
		ed.add(func() { c.Pipes = c.Pipes[n/2:] })
	}
	for i, pl := range c.Pipes {
		i, pl := i, pl
		replace := func(l *Lambda) {
			if l != nil {
				ed.add(func() { c.Pipes[i] = blockCall(l) })
			}
		}
		splice := func(l *Lambda) {
			if l != nil && !l.Sig {
				ed.add(func() {
					rest := append([]*Pipeline(nil), c.Pipes[i+1:]...)
					c.Pipes = append(append(c.Pipes[:i:i], l.Body.Pipes...), rest...)
				})
			}
		}
		if len(pl.Forms) == 1 {
			switch f := pl.Forms[0].(type) {
			case *If:
				for _, b := range f.Bodies {
					replace(b)
				}
				replace(f.Else)
			case *While:
				replace(f.Body)
				replace(f.Else)
			case *For:
				replace(f.Body)
				replace(f.Else)
			case *Try:
				replace(f.Body)
				replace(f.Catch)
				replace(f.Else)
				replace(f.Finally)
			case *WithForm:
				replace(f.Body)
			case *Cmd:
				if l, ok := f.Head.(*Lambda); ok && len(f.Args) == 0 && len(f.Opts) == 0 {
					splice(l)
				}
				// hoist the chunk of a capture argument: put (a; b) -> a; b
				for _, a := range f.Args {
					switch a := a.(type) {
					case *Capture:
						body := a.Body
						ed.add(func() { c.Pipes[i] = stmt(&Cmd{Head: &Lambda{Rest: -1, Body: body}}) })
					case *ExcCapture:
						body := a.Body
						ed.add(func() { c.Pipes[i] = stmt(&Cmd{Head: &Lambda{Rest: -1, Body: body}}) })
					}
				}
			}
		}
		ed.pipeline(pl)
	}
}

func (ed *editor) pipeline(pl *Pipeline) {
	if len(pl.Forms) > 1 {
		for j := range pl.Forms {
			j := j
			ed.add(func() { pl.Forms = append(pl.Forms[:j:j], pl.Forms[j+1:]...) })
		}
	}
	for j := range pl.Forms {
		ed.form(pl.Forms[j], func(n Form) { pl.Forms[j] = n })
	}
}

func (ed *editor) lambda(l *Lambda) {
	if l == nil {
		return
	}
	for i := range l.Opts {
		i := i
		ed.add(func() { l.Opts = append(l.Opts[:i:i], l.Opts[i+1:]...) })
		ed.expr(l.Opts[i].Default, func(n Expr) { l.Opts[i].Default = n })
	}
	ed.chunk(l.Body)
}

func (ed *editor) exprList(es *[]Expr, min int) {
	if len(*es) > min {
		for i := range *es {
			i := i
			ed.add(func() { *es = append((*es)[:i:i], (*es)[i+1:]...) })
		}
	}
	for i := range *es {
		i := i
		ed.expr((*es)[i], func(n Expr) { (*es)[i] = n })
	}
}

func (ed *editor) lvs(ls []*LV) {
	for _, l := range ls {
		l := l
		for k := range l.Indices {
			k := k
			ed.expr(l.Indices[k], func(n Expr) { l.Indices[k] = n })
		}
	}
}

func (ed *editor) form(f Form, set func(Form)) {
	switch f := f.(type) {
	case *Cmd:
		if _, named := f.Head.(*Str); !named {
			ed.expr(f.Head, func(n Expr) { f.Head = n })
		} else if len(f.Args) > 0 {
			// replace the command by `put` of its arguments
			ed.add(func() { f.Head = &Str{S: "put"}; f.Opts = nil })
		}
		ed.exprList(&f.Args, 0)
		for i := range f.Opts {
			i := i
			ed.add(func() { f.Opts = append(f.Opts[:i:i], f.Opts[i+1:]...) })
			ed.expr(f.Opts[i].V, func(n Expr) { f.Opts[i].V = n })
		}
	case *VarForm:
		ed.exprList(&f.RHS, 1)
		if len(f.LHS) > 1 {
			for i := range f.LHS {
				i := i
				ed.add(func() { f.LHS = append(f.LHS[:i:i], f.LHS[i+1:]...) })
			}
		}
	case *SetForm:
		ed.lvs(f.LHS)
		ed.exprList(&f.RHS, 1)
		if f.Tmp {
			ed.add(func() { f.Tmp = false })
		}
	case *WithForm:
		if len(f.Groups) > 1 {
			for i := range f.Groups {
				i := i
				ed.add(func() { f.Groups = append(f.Groups[:i:i], f.Groups[i+1:]...) })
			}
		}
		for _, g := range f.Groups {
			ed.lvs(g.LHS)
			ed.exprList(&g.RHS, 1)
		}
		ed.lambda(f.Body)
	case *DelForm:
		ed.lvs(f.Targets)
	case *Logic:
		ed.exprList(&f.Args, 0)
	case *If:
		if len(f.Conds) > 1 {
			for i := range f.Conds {
				i := i
				ed.add(func() {
					f.Conds = append(f.Conds[:i:i], f.Conds[i+1:]...)
					f.Bodies = append(f.Bodies[:i:i], f.Bodies[i+1:]...)
				})
			}
		}
		if f.Else != nil {
			ed.add(func() { f.Else = nil })
		}
		for i := range f.Conds {
			i := i
			ed.expr(f.Conds[i], func(n Expr) { f.Conds[i] = n })
			ed.lambda(f.Bodies[i])
		}
		ed.lambda(f.Else)
	case *While:
		if f.Else != nil {
			ed.add(func() { f.Else = nil })
		}
		ed.lambda(f.Body)
		ed.lambda(f.Else)
	case *For:
		if f.Else != nil {
			ed.add(func() { f.Else = nil })
		}
		ed.expr(f.Cont, func(n Expr) { f.Cont = n })
		ed.lambda(f.Body)
		ed.lambda(f.Else)
	case *Try:
		if f.Else != nil {
			ed.add(func() { f.Else = nil })
		}
		if f.Finally != nil && f.CatchVar != nil {
			ed.add(func() { f.Finally = nil })
			if f.Else == nil {
				ed.add(func() { f.CatchVar, f.Catch = nil, nil })
			}
		}
		ed.lambda(f.Body)
		ed.lambda(f.Catch)
		ed.lambda(f.Else)
		ed.lambda(f.Finally)
	case *Fn:
		ed.lambda(f.L)
	}
}

func (ed *editor) expr(e Expr, set func(Expr)) {
	// replace by a sub-expression
	sub := func(s Expr) { ed.add(func() { set(s) }) }
	simple := func() {
		ed.add(func() { set(&Str{S: "g"}) })
		ed.add(func() { set(&Str{S: "1"}) })
		ed.add(func() { set(&ListLit{}) })
		ed.add(func() { set(&Var{Name: "nil"}) })
	}
	switch e := e.(type) {
	case *Str:
		if e.S != "g" && e.S != "1" && e.S != "0" {
			ed.add(func() { set(&Str{S: "g"}) })
			ed.add(func() { set(&Str{S: "1"}) })
		}
	case *Var:
		simple()
	case *Capture:
		simple()
		if len(e.Body.Pipes) == 1 && len(e.Body.Pipes[0].Forms) == 1 {
			if c, ok := e.Body.Pipes[0].Forms[0].(*Cmd); ok {
				for _, a := range c.Args {
					sub(a)
				}
			}
		}
		ed.chunk(e.Body)
	case *ExcCapture:
		ed.add(func() { set(&Var{Name: "ok"}) })
		ed.chunk(e.Body)
	case *Braced:
		for _, it := range e.Items {
			sub(it)
		}
		ed.exprList(&e.Items, 1)
	case *ListLit:
		if len(e.Items) > 0 {
			ed.add(func() { set(&ListLit{}) })
		}
		ed.exprList(&e.Items, 0)
	case *MapLit:
		for i := range e.Pairs {
			i := i
			ed.add(func() { e.Pairs = append(e.Pairs[:i:i], e.Pairs[i+1:]...) })
			ed.expr(e.Pairs[i].V, func(n Expr) { e.Pairs[i].V = n })
		}
	case *Lambda:
		ed.lambda(e)
	case *Index:
		simple()
		sub(e.X)
		ed.expr(e.X, func(n Expr) { e.X = n })
		for k := range e.Indices {
			ed.exprList(&e.Indices[k], 1)
		}
	case *Compound:
		for _, p := range e.Parts {
			sub(p)
		}
		if len(e.Parts) > 2 {
			for i := range e.Parts {
				i := i
				ed.add(func() { e.Parts = append(e.Parts[:i:i], e.Parts[i+1:]...) })
			}
		}
		for i := range e.Parts {
			i := i
			ed.expr(e.Parts[i], func(n Expr) {
				switch n.(type) {
				case *ListLit, *MapLit, *Lambda:
					return // cannot be written next to another part
				}
				e.Parts[i] = n
			})
		}
	}
}

func countEdits(p *Program) int {
	ed := &editor{}
	ed.chunk(p.Body)
	return len(ed.edits)
}

// Shrink minimises p with respect to the predicate still (which must hold
// for p). maxTests bounds the number of predicate evaluations.
func Shrink(p *Program, still func(q *Program) bool, maxTests int) *Program {
	cur := p.Clone()
	tests := 0
	for {
		progress := false
		n := countEdits(cur)
		for k := 0; k < n && tests < maxTests; k++ {
			cand := cur.Clone()
			ed := &editor{}
			ed.chunk(cand.Body)
			if k >= len(ed.edits) {
				break
			}
			ed.edits[k]()
			if Resolve(cand) != nil {
				continue
			}
			if len(cand.Source()) >= len(cur.Source()) {
				continue
			}
			tests++
			if still(cand.Clone()) {
				cur = cand.Clone()
				progress = true
				// restart the numbering on the smaller program, continuing
				// from the same position
				n = countEdits(cur)
				k--
			}
		}
		if !progress || tests >= maxTests {
			return cur
		}
	}
}

// Kinds returns the set of construct kinds occurring in the program text
// (static), used for signatures and coverage rules.
func (p *Program) Kinds() map[string]bool {
	ks := map[string]bool{}
	var chunk func(c *Chunk)
	var expr func(e Expr)
	var lambda func(l *Lambda)
	exprs := func(es []Expr) {
		for _, e := range es {
			expr(e)
		}
	}
	lambda = func(l *Lambda) {
		if l == nil {
			return
		}
		if l.Rest >= 0 {
			ks["rest-arg"] = true
		}
		if len(l.Opts) > 0 {
			ks["option"] = true
		}
		for _, o := range l.Opts {
			expr(o.Default)
		}
		chunk(l.Body)
	}
	lvs := func(ls []*LV) {
		for _, l := range ls {
			if l.Rest {
				ks["rest-lvalue"] = true
			}
			if len(l.Indices) > 0 {
				ks["element-lvalue"] = true
			}
			exprs(l.Indices)
		}
	}
	expr = func(e Expr) {
		switch e := e.(type) {
		case *Var:
			if e.Explode {
				ks["explode"] = true
			}
		case *Capture:
			ks["capture"] = true
			chunk(e.Body)
		case *ExcCapture:
			ks["exc-capture"] = true
			chunk(e.Body)
		case *Braced:
			ks["braced"] = true
			exprs(e.Items)
		case *ListLit:
			ks["list"] = true
			exprs(e.Items)
		case *MapLit:
			ks["map"] = true
			for _, p := range e.Pairs {
				expr(p.K)
				expr(p.V)
			}
		case *Lambda:
			ks["closure"] = true
			lambda(e)
		case *Index:
			ks["index"] = true
			expr(e.X)
			for _, br := range e.Indices {
				exprs(br)
			}
		case *Compound:
			ks["compound"] = true
			exprs(e.Parts)
		}
	}
	chunk = func(c *Chunk) {
		if c == nil {
			return
		}
		for _, pl := range c.Pipes {
			if len(pl.Forms) > 1 {
				ks["pipeline"] = true
			}
			for _, f := range pl.Forms {
				switch f := f.(type) {
				case *Cmd:
					if h, ok := f.Head.(*Str); ok {
						switch h.S {
						case "put", "nop":
						case "break", "continue", "return":
							ks["flow"] = true
							ks[h.S] = true
						case "+", "-", "*", "/", "%":
							ks["arith"] = true
						case "<", "<=", "==", "!=", ">", ">=":
							ks["num-compare"] = true
						default:
							if modelBuiltins[h.S] != nil {
								ks[h.S] = true
							} else {
								ks["call"] = true
							}
						}
					} else {
						ks["dynamic-call"] = true
						expr(f.Head)
					}
					exprs(f.Args)
					for _, o := range f.Opts {
						ks["call-option"] = true
						expr(o.V)
					}
				case *VarForm:
					ks["var"] = true
					lvs(f.LHS)
					exprs(f.RHS)
				case *SetForm:
					if f.Tmp {
						ks["tmp"] = true
					} else {
						ks["set"] = true
					}
					lvs(f.LHS)
					exprs(f.RHS)
				case *WithForm:
					ks["with"] = true
					for _, g := range f.Groups {
						lvs(g.LHS)
						exprs(g.RHS)
					}
					lambda(f.Body)
				case *DelForm:
					ks["del"] = true
					lvs(f.Targets)
				case *Logic:
					ks[f.Op] = true
					exprs(f.Args)
				case *If:
					ks["if"] = true
					exprs(f.Conds)
					for _, b := range f.Bodies {
						lambda(b)
					}
					lambda(f.Else)
				case *While:
					ks["while"] = true
					expr(f.Cond)
					lambda(f.Body)
					if f.Else != nil {
						ks["loop-else"] = true
					}
					lambda(f.Else)
				case *For:
					ks["for"] = true
					expr(f.Cont)
					lambda(f.Body)
					if f.Else != nil {
						ks["loop-else"] = true
					}
					lambda(f.Else)
				case *Try:
					ks["try"] = true
					lambda(f.Body)
					lambda(f.Catch)
					if f.Else != nil {
						ks["try-else"] = true
					}
					lambda(f.Else)
					if f.Finally != nil {
						ks["finally"] = true
					}
					lambda(f.Finally)
				case *Fn:
					ks["fn"] = true
					lambda(f.L)
				}
			}
		}
	}
	chunk(p.Body)
	return ks
}
