package refinterp

import "strconv"

// ---------------------------------------------------------------------------
// blocks and lambdas

// blockOpts says what kind of body is generated.
type blockOpts struct {
	loop  bool // body of a loop: break/continue are captured
	named bool // body of fn: return is captured
	min   int
	max   int
	pre   func() // run after the scope is pushed (declare parameters)
	// breakAtEnd appends a conditional break (loops with an else block: the
	// else block must not run after a break)
	breakAtEnd bool
}

func (g *Gen) block(o blockOpts) *Lambda {
	g.push(true)
	g.cur().loop, g.cur().named = o.loop, o.named
	if o.pre != nil {
		o.pre()
	}
	g.depth++
	n := o.min
	if o.max > o.min {
		n += g.r.Intn(o.max - o.min + 1)
	}
	body := &Chunk{}
	for i := 0; i < n; i++ {
		body.Pipes = append(body.Pipes, g.statement()...)
	}
	if o.loop && g.pure == 0 && g.chance(30) {
		// a function that raises break/continue on purpose ends or continues
		// this loop (flow commands are not captured by functions)
		if v := g.pickVar(func(v *gvar) bool { return v.t.K == tFn && v.t.Sig.MayFlow }); v != nil {
			// (at the end: the function may have been defined inside this body)
			body.Pipes = append(body.Pipes, stmt(g.callOf(v, 2)))
			if g.silent == 0 && g.chance(50) {
				body.Pipes = append(body.Pipes, g.sPut()...)
			}
		}
	}
	if o.breakAtEnd {
		body.Pipes = append(body.Pipes, stmt(&If{Conds: []Expr{g.expr(tyBool, 2)}, Bodies: []*Lambda{{Rest: -1, Body: &Chunk{Pipes: []*Pipeline{stmt(call("break"))}}}}}))
	}
	g.depth--
	g.pop()
	return &Lambda{Rest: -1, Body: body}
}

func (g *Gen) smallBlock() *Lambda { return g.block(blockOpts{min: 1, max: 3}) }

func (g *Gen) inLoop() bool {
	for i := len(g.scopes) - 1; i >= 1; i-- {
		if g.scopes[i].loop {
			return true
		}
		if g.scopes[i].named {
			return false
		}
	}
	return false
}

func (g *Gen) inNamedFn() bool {
	for i := len(g.scopes) - 1; i >= 1; i-- {
		if g.scopes[i].named {
			return true
		}
	}
	return false
}

func (g *Gen) inFn() bool { return len(g.scopes) > 1 }

// lambdaFor generates a lambda literal (not defined with fn) with the given
// signature.
func (g *Gen) lambdaFor(sig *gsig, d int) *Lambda {
	saved := g.fnNamed
	g.fnNamed = false
	l := g.namedLambda(sig)
	g.fnNamed = saved
	return l
}

// fnBodyOut generates the body of a function that outputs exactly one value
// of type sig.Out: silent statements, possibly an early `put e; return`
// inside an if, then a final put.
func (g *Gen) fnBodyOut(sig *gsig, names []string, d int) *Lambda {
	g.push(true)
	g.cur().named = g.fnNamed
	for i, pt := range sig.Params {
		t := pt
		if i == sig.Rest {
			t = listOf(pt)
		}
		g.declare(names[i], t)
	}
	for _, o := range sig.Opts {
		g.declare(o.Name, o.T)
	}
	g.depth++
	body := &Chunk{}
	g.silent++
	n := g.r.Intn(3)
	for i := 0; i < n; i++ {
		body.Pipes = append(body.Pipes, g.statement()...)
	}
	if g.fnNamed && g.chance(35) {
		// early return through the lambda of an if body
		g.push(true)
		early := &Chunk{Pipes: []*Pipeline{stmt(call("put", g.expr(sig.Out, d+1))), stmt(call("return"))}}
		g.pop()
		body.Pipes = append(body.Pipes, stmt(&If{Conds: []Expr{g.expr(tyBool, d+1)}, Bodies: []*Lambda{{Rest: -1, Body: early}}}))
	}
	g.silent--
	body.Pipes = append(body.Pipes, stmt(call("put", g.expr(sig.Out, d+1))))
	g.depth--
	g.pop()
	return &Lambda{Rest: -1, Body: body}
}

func (g *Gen) randSig() *gsig {
	sig := &gsig{Rest: -1}
	n := g.r.Intn(3)
	for i := 0; i < n; i++ {
		sig.Params = append(sig.Params, g.paramType())
	}
	if g.chance(25) {
		sig.Rest = g.r.Intn(len(sig.Params) + 1)
		ps := append([]*gtype(nil), sig.Params[:sig.Rest]...)
		ps = append(ps, g.scalarType())
		sig.Params = append(ps, sig.Params[sig.Rest:]...)
	}
	if g.chance(25) {
		sig.Opts = append(sig.Opts, gopt{Name: g.fresh("o"), T: g.scalarType()})
		if g.chance(30) {
			sig.Opts = append(sig.Opts, gopt{Name: g.fresh("o"), T: g.scalarType()})
		}
	}
	if g.chance(55) {
		sig.Out = g.randType(1)
	}
	if g.pure > 0 || g.chance(30) {
		sig.Pure = true
	}
	return sig
}

func (g *Gen) paramType() *gtype {
	if g.chance(75) {
		return g.scalarType()
	}
	return listOf(g.scalarType())
}

// ---------------------------------------------------------------------------
// statements

func (g *Gen) statement() []*Pipeline {
	g.budget--
	if g.budget <= 0 || g.depth > g.cfg.MaxDepth {
		return g.simpleStatement()
	}
	if g.pure > 0 {
		return g.pureStatement()
	}
	type choice struct {
		w int
		f func() []*Pipeline
	}
	inFn := g.inFn()
	choices := []choice{
		{14, g.sVar}, {10, g.sSet}, {12, g.sPut}, {7, g.sIf}, {5, g.sWhile}, {6, g.sFor},
		{7, g.sTry}, {5, g.sFn}, {6, g.sCall}, {4, g.sLambdaVar}, {3, g.sBlockCall}, {4, g.sEach},
		{6, g.sPipeline}, {3, g.sLogic}, {2, g.sDel}, {2, g.sFail}, {3, g.sFlow}, {3, g.sExcVar},
		{2, g.sAdder}, {2, g.sKeys}, {2, g.sEcho}, {2, g.sProtected}, {2, g.sPipeFail}, {2, g.sReason},
	}
	if inFn {
		choices = append(choices, choice{4, g.sTmp}, choice{4, g.sDefer})
	}
	choices = append(choices, choice{3, g.sWith})
	if g.cfg.Restore && inFn {
		choices = append(choices, choice{12, g.sTmp}, choice{12, g.sDefer}, choice{10, g.sWith}, choice{6, g.sFlow}, choice{6, g.sFail}, choice{8, g.sEmit})
	}
	total := 0
	for _, c := range choices {
		total += c.w
	}
	n := g.r.Intn(total)
	for _, c := range choices {
		if n < c.w {
			out := c.f()
			if out == nil {
				return g.simpleStatement()
			}
			return out
		}
		n -= c.w
	}
	return g.simpleStatement()
}

func (g *Gen) simpleStatement() []*Pipeline {
	if g.silent > 0 {
		if out := g.sSet(); out != nil {
			return out
		}
		return []*Pipeline{stmt(call("nop", g.expr(g.scalarType(), 3)))}
	}
	return g.sPut()
}

// pureStatement: statements allowed in pipeline stages other than the last
// one and in pure functions: no assignment to outer variables.
func (g *Gen) pureStatement() []*Pipeline {
	switch g.r.Intn(10) {
	case 0, 1:
		if g.budget > 0 && g.depth <= g.cfg.MaxDepth {
			return g.sVar()
		}
	case 2:
		if g.budget > 0 && g.depth <= g.cfg.MaxDepth {
			return g.sIf()
		}
	case 3:
		if g.inLoop() && g.chance(50) {
			return g.sFlow()
		}
	}
	if g.silent > 0 {
		return []*Pipeline{stmt(call("nop", g.expr(g.scalarType(), 3)))}
	}
	return g.sPut()
}

func (g *Gen) newVarName(t *gtype) string {
	// now and then shadow a visible variable
	if g.chance(12) {
		if v := g.pickVar(func(v *gvar) bool { return !v.isFnVar && !v.counter && !v.loopVar && v.t.K != tFn }); v != nil {
			return v.name
		}
	}
	return g.fresh("v")
}

func (g *Gen) noteLiteralShape(v *gvar, e Expr) {
	switch e := e.(type) {
	case *ListLit:
		for _, it := range e.Items {
			switch it := it.(type) {
			case *Str, *ListLit, *MapLit:
			case *Var:
				if it.Explode {
					return
				}
			default:
				return
			}
		}
		v.known = len(e.Items)
	case *MapLit:
		for _, p := range e.Pairs {
			if k, ok := p.K.(*Str); ok {
				v.keys = append(v.keys, k.S)
			}
		}
	}
}

func (g *Gen) sVar() []*Pipeline {
	if g.chance(12) {
		// several lvalues
		t := g.scalarType()
		a, b := g.fresh("v"), g.fresh("v")
		f := &VarForm{LHS: []*LV{{Name: a}, {Name: b}}, HasEq: true, RHS: []Expr{g.expr(t, 1), g.expr(t, 1)}}
		if g.chance(40) {
			// a rest variable last, first or in the middle
			switch g.r.Intn(3) {
			case 0:
				f.LHS[1].Rest = true
				f.RHS = []Expr{g.expr(t, 1), g.multi(t, 1)}
				g.declare(a, t)
				g.declare(b, listOf(t))
			case 1:
				f.LHS[0].Rest = true
				f.RHS = []Expr{g.multi(t, 1), g.expr(t, 1), g.expr(t, 1)}
				g.declare(a, listOf(t))
				g.declare(b, t)
			default:
				c := g.fresh("v")
				f.LHS = []*LV{{Name: a}, {Name: b, Rest: true}, {Name: c}}
				f.RHS = []Expr{g.expr(t, 1), g.multi(t, 1), g.expr(t, 1), g.expr(t, 1)}
				g.declare(a, t)
				g.declare(b, listOf(t))
				g.declare(c, t)
			}
			return []*Pipeline{stmt(f)}
		}
		if g.chance(15) {
			f.RHS = f.RHS[:1] // arity error
		}
		g.declare(a, t)
		g.declare(b, t)
		return []*Pipeline{stmt(f)}
	}
	if g.chance(6) {
		// declared without value, assigned later
		t := g.randType(0)
		name := g.fresh("v")
		rhs := g.expr(t, 1) // generated before the declaration: must not use the still-nil variable
		g.declare(name, t)
		sink := "put"
		if g.silent > 0 {
			sink = "nop"
		}
		return []*Pipeline{stmt(&VarForm{LHS: []*LV{{Name: name}}}), stmt(call(sink, &Var{Name: name})),
			stmt(&SetForm{LHS: []*LV{{Name: name}}, RHS: []Expr{rhs}})}
	}
	if g.chance(8) {
		// shadowing whose right-hand side uses the variable being shadowed
		// (it must see the old variable), in the same or an inner scope
		if v := g.pickVar(func(v *gvar) bool {
			return !v.isFnVar && !v.counter && !v.loopVar && (v.t.K == tInt || v.t.K == tStr || v.t.K == tList)
		}); v != nil {
			var e Expr
			nt := v.t
			switch v.t.K {
			case tInt:
				e = capture(call("+", g.use(v), intLit(1+g.r.Intn(3))))
			case tStr:
				e = &Compound{Parts: []Expr{g.use(v), g.strAtom()}}
			default:
				e = &ListLit{Items: []Expr{g.use(v)}}
				nt = listOf(v.t)
			}
			nv := g.declare(v.name, nt)
			if nt.K == tList {
				nv.known = 1
			}
			return []*Pipeline{stmt(&VarForm{LHS: []*LV{{Name: v.name}}, HasEq: true, RHS: []Expr{e}})}
		}
	}
	t := g.randType(0)
	e := g.expr(t, 0) // the right-hand side sees the old variables
	name := g.newVarName(t)
	v := g.declare(name, t)
	g.noteLiteralShape(v, e)
	return []*Pipeline{stmt(&VarForm{LHS: []*LV{{Name: name}}, HasEq: true, RHS: []Expr{e}})}
}

func (g *Gen) sSet() []*Pipeline {
	v := g.pickVar(func(v *gvar) bool { return g.assignable(v) && !v.loopVar })
	if v == nil {
		return nil
	}
	switch {
	case v.t.K == tList && g.chance(40):
		idx := g.r.Intn(3)
		if v.known > 0 {
			idx = g.r.Intn(v.known)
		}
		// when the index may be out of range the right-hand side is kept
		// trivial (see the note on element lvalues in the interpreter)
		rhs := func(t *gtype) Expr {
			if v.known <= 0 || idx >= v.known {
				return g.simpleExpr(t)
			}
			return g.expr(t, 1)
		}
		if g.chance(10) {
			idx = 7
		}
		if v.t.Elem.K == tList && g.chance(40) {
			return []*Pipeline{stmt(&SetForm{LHS: []*LV{{Name: v.name, Indices: []Expr{intLit(idx), intLit(0)}}}, RHS: []Expr{g.simpleExpr(v.t.Elem.Elem)}})}
		}
		if v.t.Elem.K == tMap && g.chance(40) {
			return []*Pipeline{stmt(&SetForm{LHS: []*LV{{Name: v.name, Indices: []Expr{intLit(idx), g.mapKey()}}}, RHS: []Expr{rhs(v.t.Elem.Elem)}})}
		}
		return []*Pipeline{stmt(&SetForm{LHS: []*LV{{Name: v.name, Indices: []Expr{intLit(idx)}}}, RHS: []Expr{rhs(v.t.Elem)}})}
	case v.t.K == tMap && g.chance(50):
		k := g.mapKey()
		if ks, ok := k.(*Str); ok {
			v.keys = append(v.keys, ks.S)
		}
		if v.t.Elem.K == tList && g.chance(40) {
			return []*Pipeline{stmt(&SetForm{LHS: []*LV{{Name: v.name, Indices: []Expr{k, intLit(0)}}}, RHS: []Expr{g.simpleExpr(v.t.Elem.Elem)}})}
		}
		return []*Pipeline{stmt(&SetForm{LHS: []*LV{{Name: v.name, Indices: []Expr{k}}}, RHS: []Expr{g.expr(v.t.Elem, 1)}})}
	case g.chance(12):
		// swap / several lvalues
		w := g.pickVar(func(w *gvar) bool { return w != v && w.name != v.name && g.assignable(w) && !w.loopVar && sameType(w.t, v.t) })
		if w != nil {
			v.known, w.known = -1, -1
			v.keys, w.keys = nil, nil
			return []*Pipeline{stmt(&SetForm{LHS: []*LV{{Name: v.name}, {Name: w.name}}, RHS: []Expr{g.use(w), g.use(v)}})}
		}
	case g.chance(8) && v.t.K == tList:
		w := g.pickVar(func(w *gvar) bool { return w != v && w.name != v.name && g.assignable(w) && !w.loopVar && sameType(w.t, v.t.Elem) })
		if w != nil {
			v.known = -1
			if g.chance(50) {
				// rest variable first: the values after it go to the following lvalues
				return []*Pipeline{stmt(&SetForm{LHS: []*LV{{Name: v.name, Rest: true}, {Name: w.name}}, RHS: []Expr{g.expr(v.t.Elem, 1), g.multi(v.t.Elem, 1), g.expr(v.t.Elem, 1)}})}
			}
			return []*Pipeline{stmt(&SetForm{LHS: []*LV{{Name: w.name}, {Name: v.name, Rest: true}}, RHS: []Expr{g.multi(v.t.Elem, 1), g.expr(v.t.Elem, 1)}})}
		}
	}
	e := g.expr(v.t, 0)
	v.known = -1
	v.keys = nil
	g.noteLiteralShape(v, e)
	return []*Pipeline{stmt(&SetForm{LHS: []*LV{{Name: v.name}}, RHS: []Expr{e}})}
}

func (g *Gen) sPut() []*Pipeline {
	if g.silent > 0 {
		return g.simpleStatement()
	}
	c := call("put")
	n := 1 + g.r.Intn(3)
	for i := 0; i < n; i++ {
		if g.chance(15) {
			c.Args = append(c.Args, g.multi(g.scalarType(), 1))
			continue
		}
		// prefer showing variables: that is how state changes become visible
		if g.chance(55) {
			if v := g.pickVar(func(v *gvar) bool { return !v.isFnVar }); v != nil {
				c.Args = append(c.Args, g.use(v))
				continue
			}
		}
		c.Args = append(c.Args, g.expr(g.randType(0), 1))
	}
	return []*Pipeline{stmt(c)}
}

func (g *Gen) sEcho() []*Pipeline {
	if g.silent > 0 {
		return nil
	}
	c := call("echo")
	n := 1 + g.r.Intn(3)
	for i := 0; i < n; i++ {
		c.Args = append(c.Args, g.expr(g.scalarNonBool(), 2))
	}
	return []*Pipeline{stmt(c)}
}

func (g *Gen) cond() Expr {
	if g.chance(10) {
		// several values are and'ed; none counts as true
		c := call("put")
		n := g.r.Intn(3)
		for i := 0; i < n; i++ {
			c.Args = append(c.Args, g.expr(tyBool, 2))
		}
		return capture(c)
	}
	if g.chance(10) {
		// any value can be a condition
		return g.expr(g.randType(1), 2)
	}
	return g.expr(tyBool, 1)
}

func (g *Gen) sIf() []*Pipeline {
	f := &If{}
	n := 1
	if g.chance(25) {
		n = 2
	}
	for i := 0; i < n; i++ {
		f.Conds = append(f.Conds, g.cond())
		f.Bodies = append(f.Bodies, g.smallBlock())
	}
	if g.chance(50) {
		f.Else = g.smallBlock()
	}
	return []*Pipeline{stmt(f)}
}

func (g *Gen) sWhile() []*Pipeline {
	if g.loopNest >= 2 {
		return nil
	}
	cn := g.fresh("i")
	cv := g.declare(cn, tyInt)
	cv.counter = true
	limit := 1 + g.r.Intn(4)
	if g.chance(10) {
		limit = 0
	}
	decl := stmt(&VarForm{LHS: []*LV{{Name: cn}}, HasEq: true, RHS: []Expr{intLit(0)}})
	withElse := g.chance(35)
	g.loopNest++
	body := g.block(blockOpts{loop: true, min: 1, max: 3, breakAtEnd: withElse && g.chance(60)})
	g.loopNest--
	// the counter is advanced first so that continue cannot loop forever
	inc := stmt(&SetForm{LHS: []*LV{{Name: cn}}, RHS: []Expr{capture(call("+", &Var{Name: cn}, intLit(1)))}})
	body.Body.Pipes = append([]*Pipeline{inc}, body.Body.Pipes...)
	w := &While{Cond: capture(call("<", &Var{Name: cn}, intLit(limit))), Body: body}
	if withElse {
		w.Else = g.smallBlock()
	}
	return []*Pipeline{decl, stmt(w)}
}

func (g *Gen) sFor() []*Pipeline {
	if g.loopNest >= 2 {
		return nil
	}
	et := g.scalarType()
	if g.chance(20) {
		et = listOf(g.scalarType())
	}
	cont := g.expr(listOf(et), 1)
	var lv *LV
	var pre func()
	if v := g.pickVar(func(v *gvar) bool { return g.assignable(v) && sameType(v.t, et) && !v.loopVar }); v != nil && g.chance(20) {
		lv = &LV{Name: v.name}
		v.known, v.keys = -1, nil
	} else {
		name := g.fresh("e")
		lv = &LV{Name: name}
		// the variable lives in the enclosing scope; it is only used inside the body
		nv := g.declare(name, et)
		nv.loopVar = true
		defer func() { nv.t = &gtype{K: tkind(-1)} }() // unusable afterwards
	}
	withElse := g.chance(35)
	g.loopNest++
	body := g.block(blockOpts{loop: true, min: 1, max: 3, pre: pre, breakAtEnd: withElse && g.chance(60)})
	g.loopNest--
	f := &For{Var: lv, Cont: cont, Body: body}
	if withElse {
		f.Else = g.smallBlock()
	}
	return []*Pipeline{stmt(f)}
}

func (g *Gen) sTry() []*Pipeline {
	t := &Try{Body: g.riskyBlock()}
	switch g.r.Intn(6) {
	case 0:
		t.Finally = g.smallBlock()
	default:
		name := g.fresh("x")
		t.CatchVar = &LV{Name: name}
		ev := g.declare(name, tyExc)
		ev.loopVar = true // not assignable, only valid inside the catch block
		t.Catch = g.block(blockOpts{min: 1, max: 2, pre: func() {}})
		if g.silent == 0 && g.chance(60) {
			t.Catch.Body.Pipes = append([]*Pipeline{stmt(call("put", &Var{Name: name}))}, t.Catch.Body.Pipes...)
		}
		ev.t = &gtype{K: tkind(-1)}
		if g.chance(35) {
			t.Else = g.smallBlock()
		}
		if g.chance(35) {
			t.Finally = g.smallBlock()
		}
	}
	return []*Pipeline{stmt(t)}
}

// riskyBlock is a block that is likely to raise an exception somewhere.
func (g *Gen) riskyBlock() *Lambda {
	b := g.block(blockOpts{min: 1, max: 3})
	if g.chance(60) {
		g.push(true)
		r := g.riskyForm()
		g.pop()
		k := g.r.Intn(len(b.Body.Pipes) + 1)
		b.Body.Pipes = append(b.Body.Pipes[:k], append([]*Pipeline{stmt(r)}, b.Body.Pipes[k:]...)...)
	}
	return b
}

// riskyForm is a single form that raises a documented exception (most of the
// time).
func (g *Gen) riskyForm() Form {
	sink := "put"
	if g.silent > 0 {
		sink = "nop"
	}
	switch g.r.Intn(12) {
	case 0:
		return call("fail", g.expr(g.randType(1), 2))
	case 1:
		return call(sink, &Index{X: g.expr(listOf(g.scalarType()), 2).(Expr), Indices: [][]Expr{{intLit(5 + g.r.Intn(3))}}})
	case 2:
		return call(sink, &Index{X: g.mapLit(mapOf(tyInt), 2), Indices: [][]Expr{{&Str{S: "hj"}}}})
	case 3:
		return call("+", g.expr(tyInt, 2), g.strAtomLetters())
	case 4:
		return call("/", g.expr(tyInt, 2), intLit(0))
	case 5:
		return &VarForm{LHS: []*LV{{Name: g.fresh("u")}, {Name: g.fresh("u")}}, HasEq: true, RHS: []Expr{g.expr(tyInt, 2)}}
	case 6:
		return &Cmd{Head: &Lambda{Sig: true, Params: []string{g.fresh("a")}, Rest: -1, Body: &Chunk{}}, Args: []Expr{intLit(1), intLit(2)}}
	case 7:
		return call(sink, &Compound{Parts: []Expr{g.strAtom(), &Capture{Body: &Chunk{Pipes: []*Pipeline{stmt(call("put", &ListLit{}))}}}}})
	case 8:
		// a head that is not callable (a dynamic head must not be a compound
		// expression or a bare literal)
		if v := g.pickVar(func(v *gvar) bool { return v.t.K == tStr || v.t.K == tInt || v.t.K == tBool || v.t.K == tList }); v != nil {
			return &Cmd{Head: g.use(v)}
		}
		return &Cmd{Head: capture(call("put", g.leaf(g.scalarType())))}
	case 9:
		return call([]string{"break", "continue", "return"}[g.r.Intn(3)])
	case 10:
		// rethrow a captured exception
		return call("fail", &ExcCapture{Body: &Chunk{Pipes: []*Pipeline{stmt(call("fail", g.expr(g.scalarType(), 2)))}}})
	case 11:
		return &Cmd{Head: &Lambda{Sig: true, Opts: []OptDecl{{Name: "k", Default: intLit(1)}}, Rest: -1, Body: &Chunk{}}, Opts: []Opt{{Name: "j", V: intLit(2)}}}
	}
	return call("fail", g.strAtom())
}

func (g *Gen) strAtomLetters() *Str {
	return &Str{S: []string{"g", "kq", "zz", "hj"}[g.r.Intn(4)]}
}

func (g *Gen) sFail() []*Pipeline {
	return []*Pipeline{stmt(g.riskyForm())}
}

// sPipeFail: a pipeline in which one or several commands raise before
// producing any output: one exception is rethrown as is, several form a
// composite exception.
func (g *Gen) sPipeFail() []*Pipeline {
	if g.silent > 0 {
		return nil
	}
	pl := &Pipeline{}
	n := 2 + g.r.Intn(2)
	failing := 0
	for i := 0; i < n; i++ {
		switch g.r.Intn(4) {
		case 0:
			pl.Forms = append(pl.Forms, call("nop"))
		case 1:
			pl.Forms = append(pl.Forms, call("fail", g.strAtom()))
			failing++
		case 2:
			pl.Forms = append(pl.Forms, call("+", g.strAtomLetters(), intLit(1)))
			failing++
		default:
			pl.Forms = append(pl.Forms, call([]string{"break", "return", "continue"}[g.r.Intn(3)]))
			failing++
		}
	}
	name := g.fresh("x")
	catch := &Lambda{Rest: -1, Body: &Chunk{Pipes: []*Pipeline{stmt(call("put", &Var{Name: name}))}}}
	if failing >= 2 {
		catch.Body.Pipes = append(catch.Body.Pipes, stmt(call("put", &Index{X: &Var{Name: name}, Indices: [][]Expr{{&Str{S: "reason"}}, {&Str{S: "type"}}}})))
	}
	return []*Pipeline{stmt(&Try{Body: &Lambda{Rest: -1, Body: &Chunk{Pipes: []*Pipeline{pl}}}, CatchVar: &LV{Name: name}, Catch: catch})}
}

// sReason inspects the documented fields of the reason of fail and flow
// exceptions.
func (g *Gen) sReason() []*Pipeline {
	if g.silent > 0 {
		return nil
	}
	name := g.fresh("x")
	idx := func(fields ...string) Expr {
		ix := &Index{X: &Var{Name: name}, Indices: [][]Expr{{&Str{S: "reason"}}}}
		var fs []Expr
		for _, f := range fields {
			fs = append(fs, &Str{S: f})
		}
		ix.Indices = append(ix.Indices, fs)
		return ix
	}
	var body Form
	var shown Expr
	if g.chance(60) {
		body = call("fail", g.simpleExpr(g.randType(1)))
		shown = idx("type", "content")
	} else {
		body = call([]string{"break", "continue", "return"}[g.r.Intn(3)])
		shown = idx("type", "name")
	}
	return []*Pipeline{stmt(&Try{Body: &Lambda{Rest: -1, Body: &Chunk{Pipes: []*Pipeline{stmt(body)}}}, CatchVar: &LV{Name: name},
		Catch: &Lambda{Rest: -1, Body: &Chunk{Pipes: []*Pipeline{stmt(call("put", shown))}}}})}
}

func (g *Gen) sProtected() []*Pipeline {
	if g.silent > 0 {
		return nil
	}
	return []*Pipeline{stmt(call("put", &ExcCapture{Body: &Chunk{Pipes: []*Pipeline{stmt(g.riskyForm())}}}))}
}

func (g *Gen) sFlow() []*Pipeline {
	var name string
	switch {
	case g.inLoop() && g.chance(75):
		name = []string{"break", "continue"}[g.r.Intn(2)]
	case g.inNamedFn() && g.chance(75):
		name = "return"
	case g.chance(25):
		name = []string{"break", "continue", "return"}[g.r.Intn(3)]
	default:
		return nil
	}
	f := call(name)
	// usually conditional, so that the code after it is not always dead
	if g.chance(70) {
		g.push(true)
		g.pop()
		return []*Pipeline{stmt(&If{Conds: []Expr{g.expr(tyBool, 1)}, Bodies: []*Lambda{{Rest: -1, Body: &Chunk{Pipes: []*Pipeline{stmt(f)}}}}})}
	}
	return []*Pipeline{stmt(f)}
}

func (g *Gen) sFn() []*Pipeline {
	sig := g.randSig()
	if g.chance(20) && sig.Out == nil {
		sig.MayFlow = true
	}
	name := g.fresh("f")
	// the function may refer to itself: declared before the body is generated,
	// but generated bodies only call it when that cannot recurse forever, so it
	// is declared after.
	saved := g.fnNamed
	g.fnNamed = true
	var l *Lambda
	if sig.MayFlow {
		// the random-break pattern of the reference
		l = &Lambda{Sig: len(sig.Params) > 0, Rest: sig.Rest}
		for range sig.Params {
			l.Params = append(l.Params, g.fresh("a"))
		}
		for _, o := range sig.Opts {
			l.Opts = append(l.Opts, OptDecl{Name: o.Name, Default: g.leaf(o.T)})
		}
		flow := []string{"break", "continue"}[g.r.Intn(2)]
		l.Body = &Chunk{Pipes: []*Pipeline{stmt(&If{Conds: []Expr{g.expr(tyBool, 1)}, Bodies: []*Lambda{{Rest: -1, Body: &Chunk{Pipes: []*Pipeline{stmt(call(flow))}}}}})}}
	} else {
		l = g.namedLambda(sig)
	}
	g.fnNamed = saved
	v := g.declare(name, &gtype{K: tFn, Sig: sig})
	v.isFnVar = true
	return []*Pipeline{stmt(&Fn{Name: name, L: l})}
}

func (g *Gen) namedLambda(sig *gsig) *Lambda {
	if sig.Pure {
		savedPure, savedFrom := g.pure, g.pureFrom
		g.pure++
		g.pureFrom = g.level() + 1
		defer func() { g.pure, g.pureFrom = savedPure, savedFrom }()
	}
	l := &Lambda{Sig: len(sig.Params)+len(sig.Opts) > 0, Rest: sig.Rest}
	names := make([]string, len(sig.Params))
	for i := range sig.Params {
		names[i] = g.fresh("a")
	}
	l.Params = names
	for _, o := range sig.Opts {
		l.Opts = append(l.Opts, OptDecl{Name: o.Name, Default: g.leaf(o.T)})
	}
	if sig.Out != nil {
		l.Body = g.fnBodyOut(sig, names, 1).Body
		return l
	}
	pre := func() {
		for i, pt := range sig.Params {
			t := pt
			if i == sig.Rest {
				t = listOf(pt)
			}
			g.declare(names[i], t)
		}
		for _, o := range sig.Opts {
			g.declare(o.Name, o.T)
		}
	}
	b := g.block(blockOpts{named: g.fnNamed, min: 1, max: 4, pre: pre})
	l.Body = b.Body
	return l
}

func (g *Gen) sLambdaVar() []*Pipeline {
	sig := g.randSig()
	saved := g.fnNamed
	g.fnNamed = false
	l := g.namedLambda(sig)
	g.fnNamed = saved
	name := g.fresh("c")
	g.declare(name, &gtype{K: tFn, Sig: sig})
	return []*Pipeline{stmt(&VarForm{LHS: []*LV{{Name: name}}, HasEq: true, RHS: []Expr{l}})}
}

func (g *Gen) sCall() []*Pipeline {
	v := g.pickVar(func(v *gvar) bool {
		if v.t.K != tFn {
			return false
		}
		if g.silent > 0 && v.t.Sig.Out == nil {
			return false
		}
		return true
	})
	if v == nil {
		return nil
	}
	c := g.callOf(v, 1)
	if g.silent > 0 {
		return []*Pipeline{stmt(call("nop", &Capture{Body: &Chunk{Pipes: []*Pipeline{stmt(c)}}}))}
	}
	return []*Pipeline{stmt(c)}
}

func (g *Gen) sBlockCall() []*Pipeline {
	b := g.block(blockOpts{min: 1, max: 3})
	return []*Pipeline{stmt(&Cmd{Head: b})}
}

func (g *Gen) eachCallback(et *gtype) *Lambda {
	x := g.fresh("x")
	b := g.block(blockOpts{loop: true, min: 1, max: 3, pre: func() { g.declare(x, et) }})
	b.Sig, b.Params = true, []string{x}
	if g.chance(5) {
		b.Params = append(b.Params, g.fresh("x")) // arity error on the first element
	}
	return b
}

func (g *Gen) sEach() []*Pipeline {
	if g.loopNest >= 2 {
		return nil
	}
	et := g.scalarType()
	g.loopNest++
	cb := g.eachCallback(et)
	g.loopNest--
	return []*Pipeline{stmt(call("each", cb, g.expr(listOf(et), 1)))}
}

func (g *Gen) sLogic() []*Pipeline {
	if g.silent > 0 {
		return nil
	}
	op := []string{"and", "or", "coalesce"}[g.r.Intn(3)]
	l := &Logic{Op: op}
	n := g.r.Intn(4)
	for i := 0; i < n; i++ {
		switch g.r.Intn(6) {
		case 0:
			l.Args = append(l.Args, &Var{Name: "nil"})
		case 1:
			l.Args = append(l.Args, g.expr(tyBool, 2))
		case 2:
			l.Args = append(l.Args, g.multi(g.scalarType(), 2))
		case 3:
			// an argument with a visible side effect or an exception: shows short-circuiting
			l.Args = append(l.Args, &Capture{Body: &Chunk{Pipes: []*Pipeline{stmt(g.riskyForm())}}})
		case 4:
			l.Args = append(l.Args, g.expr(tyExc, 2))
		default:
			l.Args = append(l.Args, g.expr(g.randType(1), 2))
		}
	}
	return []*Pipeline{stmt(l)}
}

func (g *Gen) sDel() []*Pipeline {
	if g.chance(50) {
		// delete a variable of the current scope
		vs := g.cur().vars
		for i := len(vs) - 1; i >= 0; i-- {
			v := vs[i]
			if v.isFnVar || v.counter || v.loopVar || v.t.K == tkind(-1) || v.frozen > 0 || v.name[0] != 'v' {
				continue
			}
			// what the name refers to after the deletion when an outer variable
			// of the same name exists is not spelled out by the reference
			outer := false
			for k := 0; k < len(g.scopes)-1; k++ {
				for _, w := range g.scopes[k].vars {
					if w.name == v.name {
						outer = true
					}
				}
			}
			if outer {
				continue
			}
			// only the innermost binding of the name may be deleted, and no
			// outer variable of the same name may become visible again in a way
			// that changes types: we simply drop every binding of that name in
			// this scope
			name := v.name
			var kept []*gvar
			for _, w := range vs {
				if w.name != name || w.isFnVar {
					kept = append(kept, w)
				}
			}
			g.cur().vars = kept
			return []*Pipeline{stmt(&DelForm{Targets: []*LV{{Name: name}}})}
		}
		return nil
	}
	v := g.pickVar(func(v *gvar) bool { return g.assignable(v) && v.t.K == tMap })
	if v == nil {
		return nil
	}
	return []*Pipeline{stmt(&DelForm{Targets: []*LV{{Name: v.name, Indices: []Expr{g.mapKey()}}}})}
}

func (g *Gen) sExcVar() []*Pipeline {
	name := g.fresh("v")
	e := g.expr(tyExc, 1)
	if g.chance(50) {
		e = &ExcCapture{Body: &Chunk{Pipes: []*Pipeline{stmt(g.riskyForm())}}}
	}
	g.declare(name, tyExc)
	out := []*Pipeline{stmt(&VarForm{LHS: []*LV{{Name: name}}, HasEq: true, RHS: []Expr{e}})}
	if g.silent == 0 && g.chance(50) {
		// the reason of fail/flow exceptions can be inspected
		out = append(out, stmt(&If{Conds: []Expr{&Var{Name: name}}, Bodies: []*Lambda{{Rest: -1, Body: &Chunk{Pipes: []*Pipeline{stmt(call("put", intLit(1)))}}}},
			Else: &Lambda{Rest: -1, Body: &Chunk{Pipes: []*Pipeline{stmt(call("put", &Var{Name: name}))}}}}))
	}
	return out
}

// sAdder is the make-adder pattern of the reference: a function returning
// closures that share a local variable.
func (g *Gen) sAdder() []*Pipeline {
	if g.silent > 0 || g.pure > 0 {
		return nil
	}
	fn := g.fresh("f")
	n := g.fresh("n")
	get, inc := g.fresh("c"), g.fresh("c")
	step := 1 + g.r.Intn(3)
	body := &Chunk{Pipes: []*Pipeline{
		stmt(&VarForm{LHS: []*LV{{Name: n}}, HasEq: true, RHS: []Expr{intLit(g.r.Intn(3))}}),
		stmt(call("put",
			&Lambda{Rest: -1, Body: &Chunk{Pipes: []*Pipeline{stmt(call("put", &Var{Name: n}))}}},
			&Lambda{Rest: -1, Body: &Chunk{Pipes: []*Pipeline{stmt(&SetForm{LHS: []*LV{{Name: n}}, RHS: []Expr{capture(call("+", &Var{Name: n}, intLit(step)))}})}}})),
	}}
	out := []*Pipeline{
		stmt(&Fn{Name: fn, L: &Lambda{Rest: -1, Body: body}}),
		stmt(&VarForm{LHS: []*LV{{Name: get}, {Name: inc}}, HasEq: true, RHS: []Expr{capture(call(fn))}}),
	}
	getSig := &gsig{Rest: -1, Out: tyInt, Pure: true}
	incSig := &gsig{Rest: -1}
	fv := g.declare(fn, &gtype{K: tFn, Sig: &gsig{Rest: -1}})
	fv.isFnVar = true
	fv.t.Sig.Out = nil
	g.declare(get, &gtype{K: tFn, Sig: getSig})
	g.declare(inc, &gtype{K: tFn, Sig: incSig})
	return out
}

func (g *Gen) sKeys() []*Pipeline {
	if g.silent > 0 {
		return nil
	}
	m := g.expr(mapOf(g.scalarType()), 1)
	last := []Form{call("order"), call("count"), &Cmd{Head: &Str{S: "order"}, Opts: []Opt{{Name: "reverse", V: &Var{Name: "true"}}}}}[g.r.Intn(3)]
	return []*Pipeline{{Forms: []Form{call("keys", m), last}}}
}

// ---------------------------------------------------------------------------
// tmp / with / defer

func (g *Gen) sTmp() []*Pipeline {
	v := g.pickVar(func(v *gvar) bool { return g.assignable(v) && !v.loopVar })
	if v == nil {
		return nil
	}
	f := &SetForm{Tmp: true, LHS: []*LV{{Name: v.name}}, RHS: []Expr{g.expr(v.t, 1)}}
	if v.t.K == tMap && g.chance(40) {
		f = &SetForm{Tmp: true, LHS: []*LV{{Name: v.name, Indices: []Expr{g.mapKey()}}}, RHS: []Expr{g.expr(v.t.Elem, 1)}}
	}
	v.known, v.keys = -1, nil
	return []*Pipeline{stmt(f)}
}

func (g *Gen) sWith() []*Pipeline {
	v := g.pickVar(func(v *gvar) bool { return g.assignable(v) && !v.loopVar })
	if v == nil {
		return nil
	}
	w := &WithForm{}
	mk := func(v *gvar) *Assign {
		if v.t.K == tMap && g.chance(30) {
			return &Assign{LHS: []*LV{{Name: v.name, Indices: []Expr{g.mapKey()}}}, RHS: []Expr{g.simpleExpr(v.t.Elem)}}
		}
		if v.t.K == tList && v.known > 0 && g.chance(30) {
			return &Assign{LHS: []*LV{{Name: v.name, Indices: []Expr{intLit(g.r.Intn(v.known))}}}, RHS: []Expr{g.simpleExpr(v.t.Elem)}}
		}
		return &Assign{LHS: []*LV{{Name: v.name}}, RHS: []Expr{g.simpleExpr(v.t)}}
	}
	w.Groups = append(w.Groups, mk(v))
	if g.chance(40) {
		w.Bracketed = true
		if u := g.pickVar(func(u *gvar) bool { return u != v && u.name != v.name && g.assignable(u) && !u.loopVar }); u != nil && g.chance(60) {
			w.Groups = append(w.Groups, mk(u))
		}
	} else if g.chance(20) {
		if u := g.pickVar(func(u *gvar) bool {
			return u != v && u.name != v.name && g.assignable(u) && !u.loopVar
		}); u != nil && len(w.Groups[0].LHS[0].Indices) == 0 {
			w.Groups[0].LHS = append(w.Groups[0].LHS, &LV{Name: u.name})
			w.Groups[0].RHS = append(w.Groups[0].RHS, g.simpleExpr(u.t))
		}
	}
	// `with x[k] = v { }` is rejected ("argument must not be compound
	// expressions"): the first argument decides between the two syntaxes.
	// Element lvalues are therefore only generated in the bracketed syntax.
	for _, gr := range w.Groups {
		for _, l := range gr.LHS {
			if len(l.Indices) > 0 {
				w.Bracketed = true
			}
		}
	}
	w.Body = g.block(blockOpts{min: 1, max: 3})
	return []*Pipeline{stmt(w)}
}

// simpleExpr is an expression that cannot raise an exception: a literal or a
// variable.
func (g *Gen) simpleExpr(t *gtype) Expr {
	if g.chance(30) {
		if v := g.pickVar(func(v *gvar) bool { return sameType(v.t, t) && !v.isFnVar }); v != nil {
			return g.use(v)
		}
	}
	return g.leafNoCapture(t)
}

func (g *Gen) leafNoCapture(t *gtype) Expr {
	switch t.K {
	case tInt:
		return intLit(g.smallInt())
	case tFloat:
		return &Str{S: "0.5"}
	case tList:
		l := &ListLit{}
		for i, n := 0, g.r.Intn(3); i < n; i++ {
			l.Items = append(l.Items, g.leafNoCapture(t.Elem))
		}
		return l
	case tMap:
		m := &MapLit{}
		if g.chance(60) {
			m.Pairs = append(m.Pairs, Pair{K: g.mapKey(), V: g.leafNoCapture(t.Elem)})
		}
		return m
	case tFn:
		return &Lambda{Rest: -1, Body: &Chunk{}}
	}
	return g.leaf(t)
}

func (g *Gen) sDefer() []*Pipeline {
	// the callback may output, assign, and fail
	cb := g.block(blockOpts{min: 1, max: 2})
	if g.showFn != "" {
		// log the state the callback sees
		cb.Body.Pipes = append([]*Pipeline{stmt(call(g.showFn, &Str{S: "d" + strconv.Itoa(g.r.Intn(1000))}))}, cb.Body.Pipes...)
	}
	if g.chance(20) {
		cb.Body.Pipes = append(cb.Body.Pipes, stmt(call("fail", g.strAtom())))
	}
	return []*Pipeline{stmt(call("defer", cb))}
}

func (g *Gen) sEmit() []*Pipeline {
	if g.showFn != "" && g.chance(60) {
		return []*Pipeline{stmt(call(g.showFn, &Str{S: "s" + strconv.Itoa(g.r.Intn(1000))}))}
	}
	c := call("v-emit", &Str{S: "p" + strconv.Itoa(g.r.Intn(1000))})
	for i := 0; i < 3; i++ {
		if v := g.pickVar(func(v *gvar) bool { return !v.isFnVar && v.t.K != tFn && v.t.K != tkind(-1) }); v != nil {
			c.Args = append(c.Args, g.use(v))
		}
	}
	return []*Pipeline{stmt(c)}
}

// ---------------------------------------------------------------------------
// pipelines

func (g *Gen) sPipeline() []*Pipeline {
	if g.silent > 0 || g.loopNest >= 2 {
		return nil
	}
	nst := 2 + g.r.Intn(3)
	pl := &Pipeline{}
	// stages other than the last one: pure, and their reads are recorded so
	// that the last stage does not assign what they read
	savedPure, savedFrom := g.pure, g.pureFrom
	savedReads := g.reads
	g.pure++
	g.pureFrom = g.level() + 1
	g.reads = map[*gvar]bool{}
	g.trackRd++
	et := g.scalarType()
	pl.Forms = append(pl.Forms, g.producer(et))
	for i := 1; i < nst-1; i++ {
		var f Form
		f, et = g.filter(et)
		pl.Forms = append(pl.Forms, f)
	}
	g.trackRd--
	g.pure, g.pureFrom = savedPure, savedFrom
	reads := g.reads
	g.reads = savedReads
	if g.trackRd > 0 {
		for v := range reads {
			g.reads[v] = true
		}
	}
	for v := range reads {
		v.frozen++
	}
	pl.Forms = append(pl.Forms, g.consumer(et))
	for v := range reads {
		v.frozen--
	}
	return []*Pipeline{pl}
}

func (g *Gen) producer(et *gtype) Form {
	switch g.r.Intn(6) {
	case 0:
		if et.K == tInt {
			return call("range", intLit(g.r.Intn(6)))
		}
	case 1:
		return call("all", g.expr(listOf(et), 2))
	case 2:
		return g.eachMap(et, 2)
	case 3:
		if et.K == tInt {
			c := call("range", intLit(g.r.Intn(3)), intLit(3+g.r.Intn(4)))
			if g.chance(40) {
				c.Opts = []Opt{{Name: "step", V: intLit(1 + g.r.Intn(2))}}
			}
			return c
		}
	}
	c := call("put")
	for i, n := 0, g.r.Intn(5); i < n; i++ {
		c.Args = append(c.Args, g.expr(et, 2))
	}
	if g.chance(20) {
		c.Args = append(c.Args, g.multi(et, 2))
	}
	return c
}

func (g *Gen) filter(et *gtype) (Form, *gtype) {
	switch g.r.Intn(9) {
	case 0:
		return call("take", intLit(g.r.Intn(4))), et
	case 1:
		return call("drop", intLit(g.r.Intn(3))), et
	case 2:
		return call("all"), et
	case 3:
		return call("order"), et
	case 4:
		return call("compact"), et
	case 5:
		x := g.fresh("x")
		g.push(true)
		g.declare(x, et)
		body := &Chunk{Pipes: []*Pipeline{stmt(call("put", g.expr(tyBool, 2)))}}
		g.pop()
		return call("keep-if", &Lambda{Sig: true, Params: []string{x}, Rest: -1, Body: body}), et
	}
	// each {|x| [if c { continue|break }] put f(x) }
	out := g.scalarType()
	x := g.fresh("x")
	g.push(true)
	g.cur().loop = true
	g.declare(x, et)
	body := &Chunk{}
	if g.chance(30) {
		flow := []string{"continue", "break"}[g.r.Intn(2)]
		body.Pipes = append(body.Pipes, stmt(&If{Conds: []Expr{g.expr(tyBool, 2)}, Bodies: []*Lambda{{Rest: -1, Body: &Chunk{Pipes: []*Pipeline{stmt(call(flow))}}}}}))
	}
	body.Pipes = append(body.Pipes, stmt(call("put", g.expr(out, 2))))
	if g.chance(20) {
		body.Pipes = append(body.Pipes, stmt(call("put", g.expr(out, 2))))
	}
	g.pop()
	return call("each", &Lambda{Sig: true, Params: []string{x}, Rest: -1, Body: body}), out
}

func (g *Gen) consumer(et *gtype) Form {
	switch g.r.Intn(9) {
	case 0:
		return call("count")
	case 1:
		return call("put", &ListLit{Items: []Expr{capture(call("all"))}})
	case 2:
		return call("order")
	case 3:
		return call("take", intLit(g.r.Intn(4)))
	case 4:
		return call("drop", intLit(g.r.Intn(3)))
	case 5:
		f, _ := g.filter(et)
		return f
	case 6:
		// a block that collects its input and goes on
		name := g.fresh("v")
		b := g.block(blockOpts{min: 0, max: 2, pre: func() { g.declare(name, listOf(et)) }})
		b.Body.Pipes = append([]*Pipeline{stmt(&VarForm{LHS: []*LV{{Name: name}}, HasEq: true, RHS: []Expr{&ListLit{Items: []Expr{capture(call("all"))}}}})}, b.Body.Pipes...)
		return &Cmd{Head: b}
	}
	if g.loopNest >= 2 {
		return call("count")
	}
	g.loopNest++
	cb := g.eachCallback(et)
	g.loopNest--
	return call("each", cb)
}

// ---------------------------------------------------------------------------
// program

// Program generates one program.
func (g *Gen) Program() *Program {
	g.scopes = nil
	g.push(false)
	g.budget = g.cfg.MaxForms/2 + g.r.Intn(g.cfg.MaxForms/2+1)
	g.depth = 0
	body := &Chunk{}
	// a few variables to start with, so that statements have something to use
	for i := 0; i < 3; i++ {
		body.Pipes = append(body.Pipes, g.sVar()...)
	}
	for g.budget > 0 {
		ps := g.statement()
		if g.chance(25) && len(ps) == 1 {
			// keep going after an exception
			ps = []*Pipeline{stmt(g.protect(ps[0]))}
		}
		body.Pipes = append(body.Pipes, ps...)
	}
	// epilogue: show the final state
	fin := call("put")
	for _, v := range g.visible() {
		if !v.isFnVar && v.t.K != tkind(-1) && len(fin.Args) < 8 && v.level == 0 {
			fin.Args = append(fin.Args, &Var{Name: v.name})
		}
	}
	if len(fin.Args) > 0 {
		body.Pipes = append(body.Pipes, stmt(fin))
	}
	g.pop()
	return &Program{Body: body}
}

// protect wraps a statement so that an exception is shown and swallowed.
// Declarations cannot be wrapped (the wrapper body is a scope of its own).
func (g *Gen) protect(pl *Pipeline) Form {
	if len(pl.Forms) == 1 {
		switch pl.Forms[0].(type) {
		case *VarForm, *Fn, *DelForm:
			return pl.Forms[0]
		}
	}
	name := g.fresh("x")
	return &Try{Body: &Lambda{Rest: -1, Body: &Chunk{Pipes: []*Pipeline{pl}}}, CatchVar: &LV{Name: name},
		Catch: &Lambda{Rest: -1, Body: &Chunk{Pipes: []*Pipeline{stmt(call("put", &Var{Name: name}))}}}}
}

// ---------------------------------------------------------------------------
// programs biased towards tmp / with / defer (property C21)

// RestoreProgram generates a program of the shape used for property C21:
// a few global variables, a `show` function that logs their current values
// with v-emit, one to three functions whose bodies nest tmp, with, defer
// (callbacks that log, assign and sometimes fail), loops with break and
// continue, return, fail and nested lambdas, and a driver that calls them
// under try (also from inside loops, so that break/continue cross the
// function boundary) and logs the state after every call.
func (g *Gen) RestoreProgram() *Program {
	g.cfg.Restore = true
	g.scopes = nil
	g.push(false)
	g.budget = g.cfg.MaxForms/2 + g.r.Intn(g.cfg.MaxForms/2+1)
	g.depth = 0
	body := &Chunk{}
	add := func(f Form) { body.Pipes = append(body.Pipes, stmt(f)) }
	// globals
	va := g.declare(g.fresh("v"), tyInt)
	add(&VarForm{LHS: []*LV{{Name: va.name}}, HasEq: true, RHS: []Expr{intLit(g.r.Intn(5))}})
	vb := g.declare(g.fresh("v"), tyStr)
	add(&VarForm{LHS: []*LV{{Name: vb.name}}, HasEq: true, RHS: []Expr{g.strAtom()}})
	vm := g.declare(g.fresh("v"), mapOf(tyInt))
	vm.keys = []string{"k", "q"}
	add(&VarForm{LHS: []*LV{{Name: vm.name}}, HasEq: true, RHS: []Expr{&MapLit{Pairs: []Pair{{K: &Str{S: "k"}, V: intLit(1)}, {K: &Str{S: "q"}, V: intLit(2)}}}}})
	vl := g.declare(g.fresh("v"), listOf(tyStr))
	vl.known = 3
	add(&VarForm{LHS: []*LV{{Name: vl.name}}, HasEq: true, RHS: []Expr{&ListLit{Items: []Expr{&Str{S: "g"}, &Str{S: "k"}, &Str{S: "q"}}}}})
	globals := []*gvar{va, vb, vm, vl}
	// show
	tag := g.fresh("a")
	showBody := call("v-emit", &Var{Name: tag})
	for _, v := range globals {
		showBody.Args = append(showBody.Args, &Var{Name: v.name})
	}
	showName := g.fresh("f")
	add(&Fn{Name: showName, L: &Lambda{Sig: true, Params: []string{tag}, Rest: -1, Body: &Chunk{Pipes: []*Pipeline{stmt(showBody)}}}})
	sv := g.declare(showName, &gtype{K: tFn, Sig: &gsig{Params: []*gtype{tyStr}, Rest: -1}})
	sv.isFnVar = true
	g.showFn = showName
	// functions
	nfn := 1 + g.r.Intn(3)
	var fns []*gvar
	for i := 0; i < nfn; i++ {
		sig := &gsig{Rest: -1}
		for k, n := 0, g.r.Intn(3); k < n; k++ {
			sig.Params = append(sig.Params, g.scalarType())
		}
		name := g.fresh("f")
		saved := g.fnNamed
		g.fnNamed = true
		l := &Lambda{Sig: len(sig.Params) > 0, Rest: -1}
		names := make([]string, len(sig.Params))
		for k := range names {
			names[k] = g.fresh("a")
		}
		l.Params = names
		b := g.block(blockOpts{named: true, min: 3, max: 7, pre: func() {
			for k, pt := range sig.Params {
				g.declare(names[k], pt)
			}
		}})
		l.Body = b.Body
		g.fnNamed = saved
		add(&Fn{Name: name, L: l})
		fv := g.declare(name, &gtype{K: tFn, Sig: sig})
		fv.isFnVar = true
		fns = append(fns, fv)
	}
	// driver
	ncalls := 2 + g.r.Intn(4)
	for i := 0; i < ncalls; i++ {
		fv := fns[g.r.Intn(len(fns))]
		c := g.callOf(fv, 2)
		ex := g.fresh("x")
		guarded := &Try{Body: &Lambda{Rest: -1, Body: &Chunk{Pipes: []*Pipeline{stmt(c)}}}, CatchVar: &LV{Name: ex},
			Catch: &Lambda{Rest: -1, Body: &Chunk{Pipes: []*Pipeline{stmt(call("v-emit", &Str{S: "caught"}, &Var{Name: ex}))}}}}
		after := call(showName, &Str{S: "after" + strconv.Itoa(i)})
		switch g.r.Intn(5) {
		case 0:
			// from a loop: break/continue raised in the function end the loop
			lv := g.fresh("e")
			add(&For{Var: &LV{Name: lv}, Cont: &ListLit{Items: []Expr{intLit(1), intLit(2)}},
				Body: &Lambda{Rest: -1, Body: &Chunk{Pipes: []*Pipeline{stmt(guarded), stmt(after)}}}})
		case 1:
			// unguarded inside a loop, the whole loop guarded
			lv := g.fresh("e")
			loop := &For{Var: &LV{Name: lv}, Cont: &ListLit{Items: []Expr{intLit(1), intLit(2)}},
				Body: &Lambda{Rest: -1, Body: &Chunk{Pipes: []*Pipeline{stmt(c), stmt(after)}}}}
			add(&Try{Body: &Lambda{Rest: -1, Body: &Chunk{Pipes: []*Pipeline{stmt(loop)}}}, CatchVar: &LV{Name: ex},
				Catch: &Lambda{Rest: -1, Body: &Chunk{Pipes: []*Pipeline{stmt(call("v-emit", &Str{S: "caught"}, &Var{Name: ex}))}}}})
		default:
			add(guarded)
		}
		add(after)
	}
	fin := call("put")
	for _, v := range globals {
		fin.Args = append(fin.Args, &Var{Name: v.name})
	}
	add(fin)
	g.pop()
	return &Program{Body: body}
}
