// Package refnum is the reference model of Elvish's numeric commands used by
// the checks of properties C11 (exact arithmetic) and C12 (inexact
// arithmetic).
//
// It is written from the documentation only:
//
//	/repo/pkg/eval/builtin_fn_num.d.elv   (+ - * / % range exact-num inexact-num)
//	/repo/pkg/mods/math/math.d.elv        (abs ceil floor round round-to-even trunc min max pow)
//	/repo/website/ref/language.md         (§ Number, § Exactness)
//
// Exact numbers are modelled as *big.Rat and every exact operation is spelled
// out arithmetically (floor = largest integer not above, ...). Inexact numbers
// are float64; Go's float64 + - * / are IEEE-754 binary64 operations by the
// language specification, everything else (conversion of exact numbers to the
// nearest double, decoding a double into its exact binary value, rounding a
// double to an integer) is derived here from the bit representation and
// integer arithmetic, not from math.Floor & co. and not from big.Rat.Float64.
package refnum

import (
	"math"
	"math/big"
)

// Val is a number as the model sees it.
type Val struct {
	Exact bool
	R     *big.Rat // valid when Exact
	F     float64  // valid when !Exact
}

func Ex(r *big.Rat) Val    { return Val{Exact: true, R: r} }
func In(f float64) Val     { return Val{F: f} }
func ExInt(i int64) Val    { return Ex(new(big.Rat).SetInt64(i)) }
func (v Val) IsZero() bool { return v.Exact && v.R.Sign() == 0 }
func (v Val) IsInt() bool  { return v.Exact && v.R.IsInt() }

var (
	minInt64 = new(big.Int).Lsh(big.NewInt(-1), 63)
	maxInt64 = new(big.Int).Sub(new(big.Int).Lsh(big.NewInt(1), 63), big.NewInt(1))
	half     = big.NewRat(1, 2)
	one      = big.NewRat(1, 1)
)

// FitsInt64 reports whether the integer z is inside the signed 64-bit range.
func FitsInt64(z *big.Int) bool { return z.Cmp(minInt64) >= 0 && z.Cmp(maxInt64) <= 0 }

// Canonical turns an exact value into the Go value Elvish documents as its
// unique representation: int when it fits the machine integer (the harness
// asserts a 64-bit platform), *big.Int for other integers, *big.Rat for
// non-integers.
func Canonical(r *big.Rat) any {
	if r.IsInt() {
		n := new(big.Int).Set(r.Num())
		if FitsInt64(n) {
			return int(n.Int64())
		}
		return n
	}
	return new(big.Rat).Set(r)
}

// FromGo classifies a value produced by the implementation. canon is "" when
// the dynamic type is the canonical one for the value, otherwise it says what
// is wrong. ok is false when v is not a number at all.
func FromGo(v any) (val Val, canon string, ok bool) {
	switch v := v.(type) {
	case int:
		return ExInt(int64(v)), "", true
	case *big.Int:
		if v == nil {
			return Val{}, "nil *big.Int", false
		}
		r := new(big.Rat).SetInt(v)
		if FitsInt64(v) {
			return Ex(r), "*big.Int holding a value that fits the machine integer", true
		}
		return Ex(r), "", true
	case *big.Rat:
		if v == nil {
			return Val{}, "nil *big.Rat", false
		}
		// copy through numerator and denominator, so that a non-normalised
		// representation would be noticed rather than silently repaired
		num, den := new(big.Int).Set(v.Num()), new(big.Int).Set(v.Denom())
		if den.Sign() <= 0 {
			return Val{}, "*big.Rat with non-positive denominator", false
		}
		r := new(big.Rat).SetFrac(num, den)
		if den.Cmp(big.NewInt(1)) == 0 {
			return Ex(r), "*big.Rat holding an integer", true
		}
		g := new(big.Int).GCD(nil, nil, new(big.Int).Abs(num), den)
		if g.Cmp(big.NewInt(1)) != 0 {
			return Ex(r), "*big.Rat not in lowest terms", true
		}
		return Ex(r), "", true
	case float64:
		return In(v), "", true
	}
	return Val{}, "not a number", false
}

// Same reports whether the implementation's value equals the expected one:
// exact values numerically, inexact values bit for bit with all NaNs
// identified. Exactness must agree.
func Same(got, want Val) bool {
	if got.Exact != want.Exact {
		return false
	}
	if got.Exact {
		return got.R.Cmp(want.R) == 0
	}
	if want.F != want.F {
		return got.F != got.F
	}
	return math.Float64bits(got.F) == math.Float64bits(want.F)
}

// ---------------------------------------------------------------------------
// conversions between exact numbers and doubles

// NearestDouble returns the double nearest to r (ties to even), ±Inf when the
// rounded magnitude is not below 2^1024. Pure integer arithmetic.
func NearestDouble(r *big.Rat) float64 {
	if r.Sign() == 0 {
		return 0
	}
	neg := r.Sign() < 0
	a := new(big.Int).Abs(r.Num())
	b := new(big.Int).Set(r.Denom())
	// find shift with 2^52 <= a / (b*2^shift) < 2^53, but not below the
	// exponent of subnormals
	shift := a.BitLen() - b.BitLen() - 53
	var q, rem, den *big.Int
	div := func() {
		num := new(big.Int).Set(a)
		den = new(big.Int).Set(b)
		if shift >= 0 {
			den.Lsh(den, uint(shift))
		} else {
			num.Lsh(num, uint(-shift))
		}
		q, rem = new(big.Int).QuoRem(num, den, new(big.Int))
	}
	for {
		div()
		if q.BitLen() > 53 {
			shift++
		} else if q.BitLen() < 53 {
			shift--
		} else {
			break
		}
	}
	if shift < -1074 {
		shift = -1074
		div()
	}
	// round half to even
	twice := new(big.Int).Lsh(rem, 1)
	switch c := twice.Cmp(den); {
	case c > 0:
		q.Add(q, big.NewInt(1))
	case c == 0:
		if q.Bit(0) == 1 {
			q.Add(q, big.NewInt(1))
		}
	}
	if q.BitLen() > 53 { // carried into 2^53
		q.Rsh(q, 1)
		shift++
	}
	m := q.Uint64()
	var bits uint64
	switch {
	case m == 0:
		bits = 0
	case m < 1<<52: // subnormal, shift == -1074
		bits = m
	default:
		e := shift + 52 + 1023
		if e >= 2047 {
			bits = 2047 << 52
		} else {
			bits = uint64(e)<<52 | (m - 1<<52)
		}
	}
	if neg {
		bits |= 1 << 63
	}
	return math.Float64frombits(bits)
}

// ToFloat is the documented conversion of a number to floating point:
// integers outside the signed 64-bit range become an infinity of their sign
// (documented under inexact-num), every other exact number becomes the nearest
// double.
func ToFloat(v Val) float64 {
	if !v.Exact {
		return v.F
	}
	if v.R.IsInt() && !FitsInt64(v.R.Num()) {
		return math.Inf(v.R.Sign())
	}
	return NearestDouble(v.R)
}

// Finite reports whether f is neither an infinity nor a NaN (from the bits).
func Finite(f float64) bool { return (math.Float64bits(f)>>52)&2047 != 2047 }

// ExactOfDouble decodes a finite double into its exact binary value.
func ExactOfDouble(f float64) *big.Rat {
	bits := math.Float64bits(f)
	e := int((bits >> 52) & 2047)
	m := bits & (1<<52 - 1)
	if e == 0 {
		e = -1074
	} else {
		m |= 1 << 52
		e -= 1075
	}
	r := new(big.Rat).SetInt(new(big.Int).SetUint64(m))
	p := new(big.Rat).SetInt(new(big.Int).Lsh(big.NewInt(1), uint(abs(e))))
	if e >= 0 {
		r.Mul(r, p)
	} else {
		r.Quo(r, p)
	}
	if bits>>63 == 1 {
		r.Neg(r)
	}
	return r
}

func abs(i int) int {
	if i < 0 {
		return -i
	}
	return i
}

// ---------------------------------------------------------------------------
// exact integer-valued functions, spelled out

// Floor returns the largest integer not above r.
func Floor(r *big.Rat) *big.Rat {
	q, m := new(big.Int).QuoRem(r.Num(), r.Denom(), new(big.Int)) // truncated
	if m.Sign() != 0 && r.Sign() < 0 {
		q.Sub(q, big.NewInt(1))
	}
	return new(big.Rat).SetInt(q)
}

// Ceil returns the least integer not below r.
func Ceil(r *big.Rat) *big.Rat {
	f := Floor(new(big.Rat).Neg(r))
	return f.Neg(f)
}

// Trunc returns the integer portion of r.
func Trunc(r *big.Rat) *big.Rat {
	f := Floor(new(big.Rat).Abs(r))
	if r.Sign() < 0 {
		f.Neg(f)
	}
	return f
}

// Round returns the nearest integer, halves away from zero.
func Round(r *big.Rat) *big.Rat {
	f := Floor(new(big.Rat).Add(new(big.Rat).Abs(r), half))
	if r.Sign() < 0 {
		f.Neg(f)
	}
	return f
}

// RoundEven returns the nearest integer, halves to the even neighbour.
func RoundEven(r *big.Rat) *big.Rat {
	f := Floor(r)
	d := new(big.Rat).Sub(r, f)
	up := new(big.Rat).Add(f, one)
	switch c := d.Cmp(half); {
	case c < 0:
		return f
	case c > 0:
		return up
	}
	if f.Num().Bit(0) == 0 {
		return f
	}
	return up
}

var unaryExact = map[string]func(*big.Rat) *big.Rat{
	"abs":           func(r *big.Rat) *big.Rat { return new(big.Rat).Abs(r) },
	"ceil":          Ceil,
	"floor":         Floor,
	"round":         Round,
	"round-to-even": RoundEven,
	"trunc":         Trunc,
}

// unaryFloat applies an integer-valued rounding to a double the IEEE way:
// ±0, ±Inf and NaN are returned unchanged (documented), otherwise the exact
// value is rounded as an exact number; the result is an integer of at most the
// magnitude of the argument (or 1), hence representable; a zero result keeps
// the sign of the argument (IEEE roundToIntegral).
func unaryFloat(op string, f float64) float64 {
	if op == "abs" {
		return math.Float64frombits(math.Float64bits(f) &^ (1 << 63))
	}
	if !Finite(f) || f == 0 {
		return f
	}
	r := unaryExact[op](ExactOfDouble(f))
	if r.Sign() == 0 {
		return math.Float64frombits(math.Float64bits(f) & (1 << 63))
	}
	return NearestDouble(r) // exact: r is an integer below 2^53 or equals f
}

// ---------------------------------------------------------------------------
// commands

// Outcome is what the documentation demands of one call.
type Outcome struct {
	// Unspecified: the model makes no demand (outside C11/C12).
	Unspecified bool
	// Raise: the command must raise an exception.
	Raise bool
	// Either: the documentation is contradictory; raising and Vals are both
	// accepted.
	Either bool
	Vals   []Val
	// Rule names the documented special rule that decided, if any.
	Rule string
}

func raise(rule string) Outcome { return Outcome{Raise: true, Rule: rule} }
func vals(vs ...Val) Outcome    { return Outcome{Vals: vs} }
func anyInexact(args []Val) bool {
	for _, a := range args {
		if !a.Exact {
			return true
		}
	}
	return false
}

func floats(args []Val) []float64 {
	fs := make([]float64, len(args))
	for i, a := range args {
		fs[i] = ToFloat(a)
	}
	return fs
}

// Arith models + - * / on any mix of numbers.
func Arith(op string, args []Val) Outcome {
	switch op {
	case "+":
		if anyInexact(args) {
			acc := float64(0)
			for _, f := range floats(args) {
				acc += f
			}
			return vals(In(acc))
		}
		acc := new(big.Rat)
		for _, a := range args {
			acc.Add(acc, a.R)
		}
		return vals(Ex(acc))
	case "-":
		if len(args) == 0 {
			return raise("arity")
		}
		if anyInexact(args) {
			fs := floats(args)
			if len(fs) == 1 {
				return vals(In(-fs[0]))
			}
			acc := fs[0]
			for _, f := range fs[1:] {
				acc -= f
			}
			return vals(In(acc))
		}
		if len(args) == 1 {
			return vals(Ex(new(big.Rat).Neg(args[0].R)))
		}
		acc := new(big.Rat).Set(args[0].R)
		for _, a := range args[1:] {
			acc.Sub(acc, a.R)
		}
		return vals(Ex(acc))
	case "*":
		// "when any argument is exact 0 and no other argument is a
		// floating-point infinity, the result is exact 0"
		has0, hasInf := false, false
		for _, a := range args {
			if a.IsZero() {
				has0 = true
			}
			if !a.Exact && !Finite(a.F) && a.F == a.F {
				hasInf = true
			}
		}
		if has0 && !hasInf {
			o := vals(ExInt(0))
			if anyInexact(args) {
				o.Rule = "mul-exact-zero"
			}
			return o
		}
		if anyInexact(args) {
			acc := float64(1)
			for _, f := range floats(args) {
				acc *= f
			}
			return vals(In(acc))
		}
		acc := new(big.Rat).SetInt64(1)
		for _, a := range args {
			acc.Mul(acc, a.R)
		}
		return vals(Ex(acc))
	case "/":
		if len(args) == 0 {
			return Outcome{Unspecified: true} // implicit cd /
		}
		// "Dividing by exact 0 raises an exception."
		for _, a := range args[1:] {
			if a.IsZero() {
				return raise("div-exact-zero")
			}
		}
		// "when $x-num is exact 0 and no $y-num is exact 0, the result is exact 0"
		if args[0].IsZero() {
			o := vals(ExInt(0))
			o.Rule = "div-zero-dividend"
			if len(args) == 1 {
				// "/ $y-num is equivalent to / 1 $y-num" says raise, the
				// exact-zero rule says 0: contradictory
				o.Either = true
				o.Rule = "div-single-zero"
			}
			return o
		}
		if anyInexact(args) {
			fs := floats(args)
			if len(fs) == 1 {
				return vals(In(1 / fs[0]))
			}
			acc := fs[0]
			for _, f := range fs[1:] {
				acc /= f
			}
			return vals(In(acc))
		}
		if len(args) == 1 {
			return vals(Ex(new(big.Rat).Inv(args[0].R)))
		}
		acc := new(big.Rat).Set(args[0].R)
		for _, a := range args[1:] {
			acc.Quo(acc, a.R)
		}
		return vals(Ex(acc))
	}
	return Outcome{Unspecified: true}
}

// Rem models %: both arguments exact integers, result has the sign of x.
func Rem(x, y Val) Outcome {
	if !x.IsInt() || !y.IsInt() {
		return raise("rem-non-integer")
	}
	if y.R.Sign() == 0 {
		return raise("rem-exact-zero")
	}
	q := Trunc(new(big.Rat).Quo(x.R, y.R))
	return vals(Ex(new(big.Rat).Sub(x.R, q.Mul(q, y.R))))
}

// Unary models abs ceil floor round round-to-even trunc.
func Unary(op string, x Val) Outcome {
	if _, ok := unaryExact[op]; !ok {
		return Outcome{Unspecified: true}
	}
	if x.Exact {
		return vals(Ex(unaryExact[op](x.R)))
	}
	return vals(In(unaryFloat(op, x.F)))
}

// MinMax models math:min / math:max on exact arguments.
func MinMax(op string, args []Val) Outcome {
	if len(args) == 0 {
		return raise("arity")
	}
	if anyInexact(args) {
		return Outcome{Unspecified: true}
	}
	best := args[0].R
	for _, a := range args[1:] {
		c := a.R.Cmp(best)
		if op == "max" && c > 0 || op == "min" && c < 0 {
			best = a.R
		}
	}
	return vals(Ex(new(big.Rat).Set(best)))
}

// Pow models math:pow for an exact base and an exact integer exponent.
func Pow(base, exp Val) Outcome {
	if !base.Exact || !exp.IsInt() {
		return Outcome{Unspecified: true}
	}
	e := new(big.Int).Set(exp.R.Num())
	b := new(big.Rat).Set(base.R)
	if e.Sign() < 0 {
		if b.Sign() == 0 {
			return raise("pow-zero-negative")
		}
		b.Inv(b)
		e.Neg(e)
	}
	// square and multiply
	acc := new(big.Rat).SetInt64(1)
	for i := e.BitLen() - 1; i >= 0; i-- {
		acc.Mul(acc, acc)
		if e.Bit(i) == 1 {
			acc.Mul(acc, b)
		}
	}
	return vals(Ex(acc))
}

// Range models range on exact arguments. step may be nil. limit caps the
// number of outputs the model is willing to produce; ok=false when exceeded.
func Range(start, end Val, step *Val, limit int) (o Outcome, ok bool) {
	if !start.Exact || !end.Exact || step != nil && !step.Exact {
		return Outcome{Unspecified: true}, true
	}
	up := start.R.Cmp(end.R) <= 0
	var st *big.Rat
	switch {
	case step != nil:
		st = step.R
		if st.Sign() == 0 {
			// the documentation only mentions steps of the wrong sign;
			// a zero step cannot make progress: raise or output nothing
			return Outcome{Raise: true, Either: true, Rule: "range-zero-step"}, true
		}
		if up && st.Sign() < 0 || !up && st.Sign() > 0 {
			return raise("range-step-sign"), true
		}
	case up:
		st = big.NewRat(1, 1)
	default:
		st = big.NewRat(-1, 1)
	}
	var out []Val
	cur := new(big.Rat).Set(start.R)
	for up && cur.Cmp(end.R) < 0 || !up && cur.Cmp(end.R) > 0 {
		if len(out) >= limit {
			return Outcome{}, false
		}
		out = append(out, Ex(new(big.Rat).Set(cur)))
		cur = new(big.Rat).Add(cur, st)
	}
	return Outcome{Vals: out}, true
}

// ExactNum models exact-num.
func ExactNum(x Val) Outcome {
	if x.Exact {
		return vals(x)
	}
	if !Finite(x.F) {
		return raise("exact-num-nonfinite")
	}
	return vals(Ex(ExactOfDouble(x.F)))
}

// InexactNum models inexact-num.
func InexactNum(x Val) Outcome { return vals(In(ToFloat(x))) }
