package refnum

import (
	"math"
	"math/big"
	"math/rand"
	"testing"
)

// Self-test of the model against the Go library (the model itself does not
// use these library functions).
func TestNearestDouble(t *testing.T) {
	r := rand.New(rand.NewSource(1))
	for i := 0; i < 300000; i++ {
		var x *big.Rat
		switch r.Intn(4) {
		case 0:
			f := math.Float64frombits(r.Uint64())
			if !Finite(f) {
				continue
			}
			x = new(big.Rat).SetFloat64(f)
			if got := NearestDouble(x); math.Float64bits(got) != math.Float64bits(f) && !(f == 0 && got == 0) {
				t.Fatalf("roundtrip %v -> %v", f, got)
			}
			// perturb by a tiny amount / exactly half an ulp
			d := new(big.Rat).SetFrac(big.NewInt(int64(r.Intn(5)-2)), new(big.Int).Lsh(big.NewInt(1), uint(r.Intn(1200))))
			x.Add(x, d)
		case 1:
			a := new(big.Int).Rand(r, new(big.Int).Lsh(big.NewInt(1), uint(1+r.Intn(1200))))
			b := new(big.Int).Rand(r, new(big.Int).Lsh(big.NewInt(1), uint(1+r.Intn(1200))))
			b.Add(b, big.NewInt(1))
			x = new(big.Rat).SetFrac(a, b)
		case 2:
			f1 := math.Float64frombits(r.Uint64())
			if !Finite(f1) {
				continue
			}
			f2 := math.Nextafter(f1, math.Inf(1))
			if !Finite(f2) {
				continue
			}
			x = new(big.Rat).Add(new(big.Rat).SetFloat64(f1), new(big.Rat).SetFloat64(f2))
			x.Quo(x, big.NewRat(2, 1)) // exact midpoint
		default:
			x = big.NewRat(r.Int63n(2000)-1000, 1+r.Int63n(50))
		}
		if r.Intn(2) == 0 {
			x.Neg(x)
		}
		want, _ := x.Float64()
		got := NearestDouble(x)
		if math.Float64bits(got) != math.Float64bits(want) && !(got == 0 && want == 0) {
			t.Fatalf("NearestDouble(%v) = %v (%#x), library %v (%#x)", x, got, math.Float64bits(got), want, math.Float64bits(want))
		}
	}
	huge := new(big.Rat).SetInt(new(big.Int).Lsh(big.NewInt(1), 1024))
	if !math.IsInf(NearestDouble(huge), 1) {
		t.Fatal("2^1024 must overflow")
	}
}

func TestUnaryFloat(t *testing.T) {
	r := rand.New(rand.NewSource(2))
	lib := map[string]func(float64) float64{"abs": math.Abs, "ceil": math.Ceil, "floor": math.Floor,
		"round": math.Round, "round-to-even": math.RoundToEven, "trunc": math.Trunc}
	for i := 0; i < 300000; i++ {
		var f float64
		switch r.Intn(4) {
		case 0:
			f = math.Float64frombits(r.Uint64())
		case 1:
			f = float64(r.Intn(41)-20) / 2
		case 2:
			f = math.Ldexp(r.Float64()-0.5, r.Intn(60))
		default:
			f = math.Nextafter(float64(r.Intn(9)-4)+0.5, float64(r.Intn(3)-1)*10)
		}
		for op, fn := range lib {
			got, want := unaryFloat(op, f), fn(f)
			if want != want {
				if got == got {
					t.Fatalf("%s(%v) = %v want NaN", op, f, got)
				}
				continue
			}
			if math.Float64bits(got) != math.Float64bits(want) {
				t.Fatalf("%s(%v) = %v, library %v", op, f, got, want)
			}
		}
		if Finite(f) {
			if ExactOfDouble(f).Cmp(new(big.Rat).SetFloat64(f)) != 0 {
				t.Fatalf("ExactOfDouble(%v)", f)
			}
		}
	}
}
