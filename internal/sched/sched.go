// Package sched holds the harness shared by the schedule-quantified checks
// (C18 pipelines, C19 interruption, C20 peach/run-parallel): an event
// recorder stamped by one global logical clock, the harness-provided Elvish
// builtins that let the program under evaluation report what it does
// (DESIGN §2.4), and a quiescent-point goroutine census.
//
// Nothing here looks inside the implementation: every event is recorded at
// the boundary (a builtin being called by the evaluated program, or the
// public Frame API being used by such a builtin).
package sched

import (
	"context"
	"fmt"
	"regexp"
	"runtime"
	"strconv"
	"strings"
	"sync"
	"sync/atomic"
	"time"

	"src.elv.sh/pkg/eval"
	"src.elv.sh/pkg/eval/vals"
)

// Clock is THE logical clock. Every event takes a stamp from it; stamps are
// totally ordered and consistent with happens-before (atomic add).
var Clock atomic.Uint64

// Tick returns a fresh stamp.
func Tick() uint64 { return Clock.Add(1) }

// Event is one observation.
type Event struct {
	Stamp  uint64 // clock at call
	Ret    uint64 // clock at return (== Stamp for instantaneous events)
	Kind   string
	Thread string // logical thread / stage label given by the program
	Arg    string
	Err    string // for write events: the error text ("" = ok)
}

// Rec is the per-evaluation recorder. All state is mutex/atomic protected.
type Rec struct {
	mu     sync.Mutex
	events []Event

	running    atomic.Int64 // callbacks between v-enter and v-leave
	maxRunning atomic.Int64
	// per-group running counters (group = first argument of v-enter)
	gmu      sync.Mutex
	grunning map[string]int
	gmax     map[string]int

	// cancellation
	cancelFn     context.CancelFunc
	CancelAtN    int64        // cancel synchronously when the N-th event is recorded (0 = off)
	nEvents      atomic.Int64 // events recorded
	CancelDone   atomic.Uint64
	cancelOnce   sync.Once
	CancelThread atomic.Value // string: thread that performed the cancel

	// JobYield decides how long the Go callback v-job works for input x.
	JobYield func(x string) int

	// ThrowAt: stage -> the v-recv call (1-based) that throws. Set before Eval.
	ThrowAt   map[string]int
	recvCount map[string]int
}

// Thrown is the error thrown by v-recv for a configured thrower stage.
type Thrown struct{ Stage string }

func (t Thrown) Error() string { return "thrown by stage " + t.Stage }

// StripPad removes the padding ("#xxxx") that byte lines may carry.
func StripPad(s string) string {
	if k := strings.IndexByte(s, '#'); k >= 0 {
		return s[:k]
	}
	return s
}

// NewRec returns a recorder; cancel may be nil.
func NewRec(cancel context.CancelFunc) *Rec {
	return &Rec{cancelFn: cancel, grunning: map[string]int{}, gmax: map[string]int{}, ThrowAt: map[string]int{}, recvCount: map[string]int{}}
}

// Add records an instantaneous event and returns its stamp. If this is the
// CancelAtN-th event, the evaluation is cancelled synchronously, on the
// goroutine of the program that reported the event, before Add returns; the
// event's Ret stamp is then taken after the cancellation completed.
func (r *Rec) Add(kind, thread, arg string) uint64 {
	st := Tick()
	r.mu.Lock()
	idx := len(r.events)
	r.events = append(r.events, Event{Stamp: st, Ret: st, Kind: kind, Thread: thread, Arg: arg})
	r.mu.Unlock()
	if n := r.nEvents.Add(1); r.CancelAtN > 0 && n == r.CancelAtN {
		r.DoCancel(thread)
		ret := Tick()
		r.mu.Lock()
		r.events[idx].Ret = ret
		r.mu.Unlock()
	}
	return st
}

func (r *Rec) addSpan(kind, thread, arg string, st uint64, err error) {
	e := Event{Stamp: st, Ret: Tick(), Kind: kind, Thread: thread, Arg: arg}
	if err != nil {
		e.Err = err.Error()
		if e.Err == "" {
			e.Err = "?"
		}
	}
	r.mu.Lock()
	r.events = append(r.events, e)
	r.mu.Unlock()
	r.nEvents.Add(1)
}

// DoCancel cancels the evaluation's Interrupts context synchronously and
// records when the cancellation had completed.
func (r *Rec) DoCancel(thread string) {
	r.cancelOnce.Do(func() {
		if r.cancelFn == nil {
			return
		}
		r.CancelThread.Store(thread)
		r.cancelFn() // returns after ctx.Done() is closed
		st := Tick()
		r.CancelDone.Store(st)
		r.mu.Lock()
		r.events = append(r.events, Event{Stamp: st, Ret: st, Kind: "cancel", Thread: thread})
		r.mu.Unlock()
	})
}

// Events returns a copy of the log sorted by stamp.
func (r *Rec) Events() []Event {
	r.mu.Lock()
	out := append([]Event(nil), r.events...)
	r.mu.Unlock()
	// insertion order is almost sorted; spans are appended at return
	sortEvents(out)
	return out
}

func sortEvents(es []Event) {
	for i := 1; i < len(es); i++ {
		for j := i; j > 0 && es[j-1].Stamp > es[j].Stamp; j-- {
			es[j-1], es[j] = es[j], es[j-1]
		}
	}
}

// N returns the number of events recorded so far.
func (r *Rec) N() int64 { return r.nEvents.Load() }

// Running returns the current number of callbacks between enter and leave.
func (r *Rec) Running() int64 { return r.running.Load() }

// MaxRunning returns the largest number of simultaneously running callbacks.
func (r *Rec) MaxRunning() int64 { return r.maxRunning.Load() }

// GroupMax returns the largest number of simultaneously running callbacks of
// one group.
func (r *Rec) GroupMax(g string) int {
	r.gmu.Lock()
	defer r.gmu.Unlock()
	return r.gmax[g]
}

// Groups lists the groups seen by v-enter.
func (r *Rec) Groups() []string {
	r.gmu.Lock()
	defer r.gmu.Unlock()
	var gs []string
	for g := range r.gmax {
		gs = append(gs, g)
	}
	return gs
}

func (r *Rec) enter(group, thread, x string) {
	// the counter is incremented before the event is stamped and decremented
	// after the leave event is stamped, so that [enter stamp, leave stamp] is
	// inside the counted interval
	n := r.running.Add(1)
	for {
		m := r.maxRunning.Load()
		if n <= m || r.maxRunning.CompareAndSwap(m, n) {
			break
		}
	}
	r.gmu.Lock()
	r.grunning[group]++
	if r.grunning[group] > r.gmax[group] {
		r.gmax[group] = r.grunning[group]
	}
	r.gmu.Unlock()
	r.Add("enter", thread, x)
}

func (r *Rec) leave(group, thread, x string) {
	r.Add("leave", thread, x)
	r.gmu.Lock()
	r.grunning[group]--
	r.gmu.Unlock()
	r.running.Add(-1)
}

// Enter and Leave are the exported forms of the running-callback bracket,
// for Go-native callbacks that a check installs itself.
func (r *Rec) Enter(group, thread, x string) { r.enter(group, thread, x) }
func (r *Rec) Leave(group, thread, x string) { r.leave(group, thread, x) }

func (r *Rec) job(group, thread string) {
	r.enter(group, thread, group)
	n := 3
	if r.JobYield != nil {
		n = r.JobYield(thread)
	}
	Yield(n)
	r.leave(group, thread, group)
}

// Yield is a legal suspension point: n < 100 means n runtime.Gosched calls,
// n >= 100 means sleeping n-100 microseconds.
func Yield(n int) {
	if n >= 100 {
		time.Sleep(time.Duration(n-100) * time.Microsecond)
		return
	}
	for i := 0; i < n; i++ {
		runtime.Gosched()
	}
}

func str(v any) string { return vals.ToString(v) }

// Install adds the harness builtins to ev, bound to rec.
func Install(ev *eval.Evaler, rec *Rec) {
	ev.ExtendBuiltin(eval.BuildNs().AddGoFns(map[string]any{
		// generic instantaneous events
		"v-ev":   func(kind, thread, arg any) { rec.Add(str(kind), str(thread), str(arg)) },
		"v-step": func(thread, id any) { rec.Add("step", str(thread), str(id)) },
		"v-try":  func(stage, id any) { rec.Add("try", str(stage), StripPad(str(id))) },
		"v-ok":   func(stage, id any) { rec.Add("ok", str(stage), StripPad(str(id))) },
		// v-recv stage x: the stage consumed item x. If the harness configured
		// ThrowAt[stage] = k, the k-th v-recv of that stage throws Thrown.
		"v-recv": func(stage, id any) error {
			st := str(stage)
			rec.Add("recv", st, StripPad(str(id)))
			if k := rec.ThrowAt[st]; k > 0 {
				rec.mu.Lock()
				rec.recvCount[st]++
				n := rec.recvCount[st]
				rec.mu.Unlock()
				if n == k {
					rec.Add("throw", st, "")
					return Thrown{st}
				}
			}
			return nil
		},
		"v-eof":   func(stage any) { rec.Add("eof", str(stage), "") },
		"v-throw": func(stage any) { rec.Add("throw", str(stage), "") },
		"v-mark":  func(thread, what any) { rec.Add("mark", str(thread), str(what)) },
		"v-enter": func(group, x any) { rec.enter(str(group), str(group), str(x)) },
		"v-leave": func(group, x any) { rec.leave(str(group), str(group), str(x)) },
		"v-yield": func(n int) { Yield(n) },
		"v-cancel": func(thread any) {
			st := Tick()
			rec.DoCancel(str(thread))
			rec.addSpan("cancelcall", str(thread), "", st, nil)
		},
		// v-w stage band id [padlen]: one write through the public Frame API
		// (the same calls `put` and `echo` make), stamped at call and return.
		// Byte lines are written with ONE write call: id#xxxx\n.
		"v-w": func(fm *eval.Frame, stage, band, id any, pad ...int) error {
			st := Tick()
			var err error
			s := StripPad(str(id))
			if str(band) == "v" {
				err = fm.ValueOutput().Put(s)
			} else {
				line := s
				if len(pad) > 0 && pad[0] > 0 {
					line += "#" + strings.Repeat("x", pad[0])
				}
				_, err = fm.ByteOutput().WriteString(line + "\n")
			}
			rec.addSpan("w", str(stage), s, st, err)
			return err
		},
		// v-fw stage policy x [padlen]: forward a received item under this
		// stage's own id "s<stage><band>/<x>"; policy v|b|keep (keep = the band
		// the item was sent on by the previous stage, x[2]).
		"v-fw": func(fm *eval.Frame, stage, policy, x any, pad ...int) error {
			xs := StripPad(str(x))
			band := str(policy)
			if band == "keep" {
				band = "v"
				if len(xs) > 2 && xs[2] == 'b' {
					band = "b"
				}
			}
			s := "s" + str(stage) + band + "/" + xs
			st := Tick()
			var err error
			if band == "v" {
				err = fm.ValueOutput().Put(s)
			} else {
				line := s
				if len(pad) > 0 && pad[0] > 0 {
					line += "#" + strings.Repeat("x", pad[0])
				}
				_, err = fm.ByteOutput().WriteString(line + "\n")
			}
			rec.addSpan("w", str(stage), s, st, err)
			return err
		},
		// v-readn stage n: read up to n values straight from the input
		// channel, then return WITHOUT draining (an early-exiting reader).
		"v-readn": func(fm *eval.Frame, stage any, n int) {
			ch := fm.InputChan()
			for i := 0; i < n; i++ {
				v, ok := <-ch
				if !ok {
					rec.Add("eof", str(stage), "")
					return
				}
				rec.Add("recv", str(stage), StripPad(str(v)))
			}
		},
		// v-job group thread: a Go-native piece of work: enter, work for a
		// while, leave. Unlike an Elvish lambda it runs even when the
		// evaluation has been cancelled, like every builtin does.
		"v-job": func(group, thread any) { rec.job(str(group), str(thread)) },
		// v-job1 "group:x": the same with one argument, usable directly as a
		// peach callback (`peach $v-job1~ [g:0 g:1 ...]`); thread = group/p<x>.
		"v-job1": func(gx any) {
			s := str(gx)
			g, x := s, ""
			if k := strings.LastIndexByte(s, ':'); k >= 0 {
				g, x = s[:k], s[k+1:]
			}
			rec.job(g, g+"/p"+x)
		},
	}))
}

// ---------------------------------------------------------------------------
// goroutine census

var gorHead = regexp.MustCompile(`^goroutine (\d+) (?:gp=\S+ m=\S+ (?:mp=\S+ )?)?\[([^\]]*)\]`)

// G is one goroutine of a census.
type G struct {
	ID    int
	State string
	Stack string
}

// Census returns the goroutines whose stack contains a frame of
// src.elv.sh/pkg/eval (or another needle), excluding the interpreter's
// permanent service goroutines and the calling goroutine.
func Census(needle string) []G {
	buf := make([]byte, 1<<20)
	for {
		n := runtime.Stack(buf, true)
		if n < len(buf) {
			buf = buf[:n]
			break
		}
		buf = make([]byte, 2*len(buf))
	}
	var out []G
	for i, blk := range strings.Split(string(buf), "\n\n") {
		if i == 0 {
			continue // the caller
		}
		m := gorHead.FindStringSubmatch(blk)
		if m == nil {
			continue
		}
		if !strings.Contains(blk, needle) {
			continue
		}
		if strings.Contains(blk, "eval.getBlackholeChan") {
			continue // package-level service goroutine, lives forever by design
		}
		id, _ := strconv.Atoi(m[1])
		st := m[2]
		if k := strings.IndexByte(st, ','); k >= 0 {
			st = st[:k]
		}
		out = append(out, G{ID: id, State: st, Stack: blk})
	}
	return out
}

func blockedState(s string) bool {
	switch {
	case strings.HasPrefix(s, "chan "), strings.HasPrefix(s, "select"), strings.HasPrefix(s, "IO wait"),
		strings.HasPrefix(s, "semacquire"), strings.HasPrefix(s, "sync."):
		return true
	}
	return false
}

// Leak is the verdict of Settle.
type Leak struct {
	Surplus   []G
	Undecided bool // surplus persisted but some goroutine was still runnable: not a verdict
}

// Settle waits for the goroutines in pkg/eval code that are not in the
// baseline to finish. Only a surplus that persists for the whole window,
// consists of blocked goroutines only, and is identical in the last two
// censuses (taken >= 1 s apart) is reported as a leak.
func Settle(baseline map[int]bool, window time.Duration) Leak {
	const needle = "src.elv.sh/pkg/eval"
	surplus := func() []G {
		var s []G
		for _, g := range Census(needle) {
			if !baseline[g.ID] {
				s = append(s, g)
			}
		}
		return s
	}
	deadline := time.Now().Add(window)
	d := 50 * time.Microsecond
	var s []G
	for {
		s = surplus()
		if len(s) == 0 {
			return Leak{}
		}
		if time.Now().After(deadline) {
			break
		}
		time.Sleep(d)
		if d < 20*time.Millisecond {
			d *= 2
		}
	}
	// persisted for the window; confirm stability
	time.Sleep(time.Second)
	s2 := surplus()
	if len(s2) == 0 {
		return Leak{}
	}
	ids := map[int]string{}
	for _, g := range s {
		ids[g.ID] = g.State
	}
	stable := len(s) == len(s2)
	for _, g := range s2 {
		if st, ok := ids[g.ID]; !ok || st != g.State || !blockedState(g.State) {
			stable = false
		}
	}
	return Leak{Surplus: s2, Undecided: !stable}
}

// Baseline returns the ids of the goroutines currently in pkg/eval code.
func Baseline() map[int]bool {
	m := map[int]bool{}
	for _, g := range Census("src.elv.sh/pkg/eval") {
		m[g.ID] = true
	}
	return m
}

// Describe renders a census for a witness.
func Describe(gs []G) string {
	var sb strings.Builder
	for _, g := range gs {
		st := g.Stack
		if len(st) > 1500 {
			st = st[:1500]
		}
		fmt.Fprintf(&sb, "%s\n\n", st)
	}
	return sb.String()
}

// ---------------------------------------------------------------------------
// running an evaluation with a watchdog-free, in-process timeout helper

// Projection returns the event order projected on (thread, kind): the
// interleaving signature used for counting distinct schedules.
func Projection(es []Event) string {
	var sb strings.Builder
	for _, e := range es {
		sb.WriteString(e.Thread)
		sb.WriteByte(':')
		sb.WriteString(e.Kind)
		sb.WriteByte(' ')
	}
	return sb.String()
}

// ---------------------------------------------------------------------------
// deadlock detection inside a case

// Deadlock describes an evaluation that can never finish: every goroutine in
// pkg/eval code that did not exist before the evaluation is blocked, and the
// picture did not change between two censuses taken >= 1 s apart.
type Deadlock struct {
	Frames []string // innermost pkg/eval function of each blocked goroutine (sorted, unique)
	Dump   string
}

// Sig returns a signature naming the functions the goroutines are stuck in.
func (d *Deadlock) Sig() string { return strings.Join(d.Frames, "+") }

var evalFrameRe = regexp.MustCompile(`(?m)^src\.elv\.sh/pkg/eval\.(\(\*?[\w.]+\)\.[\w.]+|[\w.]+)`)

// innermostEvalFunc returns the innermost pkg/eval function of a stack,
// e.g. "onlyValues.func2", "valueOutput.Put", "(*pipelineOp).exec".
func innermostEvalFunc(stack string) string {
	m := evalFrameRe.FindStringSubmatch(stack)
	if m == nil {
		return ""
	}
	return m[1]
}

// Outcome of Run.
type Outcome struct {
	Done      bool      // f returned
	Deadlock  *Deadlock // f can never return
	Undecided bool      // gave up waiting, but some goroutine was not blocked
}

// Run executes f (an evaluation) on a new goroutine and waits for it. If f
// has not returned after `grace`, the goroutines are inspected every second:
// when all goroutines in pkg/eval code outside the baseline are blocked
// (channel/select/semaphore/IO wait) in two consecutive identical censuses,
// the evaluation is deadlocked — a logical fact, independent of how slow the
// machine is. After giveUp without such a picture the outcome is Undecided.

func Run(f func(), baseline map[int]bool, grace, giveUp time.Duration) Outcome {
	return RunP(f, baseline, grace, giveUp, nil)
}

// RunP is Run with a progress counter (e.g. Rec.N): a deadlock is only
// declared when FOUR consecutive censuses, one second apart, show the same
// goroutines in the same blocked states with the same stacks AND the counter
// did not move. (A goroutine parked in "IO wait" may have its wake-up pending
// in the poller on a starved machine, and a slow writer/reader pair is in the
// same states at every look; neither survives this test.)
func RunP(f func(), baseline map[int]bool, grace, giveUp time.Duration, progress func() int64) Outcome {
	done := make(chan struct{})
	go func() {
		defer close(done)
		f()
	}()
	select {
	case <-done:
		return Outcome{Done: true}
	case <-time.After(grace):
	}
	start := time.Now()
	var prev map[int]string
	same := 0
	var prevProgress int64 = -1
	for {
		select {
		case <-done:
			return Outcome{Done: true}
		case <-time.After(time.Second):
		}
		cur := map[int]string{}
		allBlocked := true
		var gs []G
		for _, g := range Census("src.elv.sh/pkg/eval") {
			if baseline[g.ID] {
				continue
			}
			gs = append(gs, g)
			cur[g.ID] = g.State + "\n" + stackFrames(g.Stack)
			if !blockedState(g.State) {
				allBlocked = false
			}
		}
		var pg int64
		if progress != nil {
			pg = progress()
		}
		if allBlocked && len(cur) > 0 && prev != nil && sameStates(prev, cur) && pg == prevProgress {
			same++
		} else {
			same = 0
		}
		prevProgress = pg
		if same >= 3 {
			select {
			case <-done: // finished while we were looking
				return Outcome{Done: true}
			default:
			}
			set := map[string]bool{}
			for _, g := range gs {
				fn := innermostEvalFunc(g.Stack)
				switch fn {
				case "", "(*pipelineOp).exec", "PipePort.func1", "PipePort.func2", "CapturePort.func1", "CapturePort.func2", "(*Evaler).Eval":
					continue
				}
				set[fn] = true
			}
			var frames []string
			for fn := range set {
				frames = append(frames, fn)
			}
			sortStrings(frames)
			return Outcome{Deadlock: &Deadlock{Frames: frames, Dump: Describe(gs)}}
		}
		if allBlocked {
			prev = cur
		} else {
			prev = nil
		}
		if time.Since(start) > giveUp {
			return Outcome{Undecided: true}
		}
	}
}

func sameStates(a, b map[int]string) bool {
	if len(a) != len(b) {
		return false
	}
	for k, v := range a {
		if b[k] != v {
			return false
		}
	}
	return true
}

func sortStrings(s []string) {
	for i := 1; i < len(s); i++ {
		for j := i; j > 0 && s[j-1] > s[j]; j-- {
			s[j-1], s[j] = s[j], s[j-1]
		}
	}
}

var hexArgRe = regexp.MustCompile(`\(0x[^)]*\)|\+0x[0-9a-f]+|0x[0-9a-f]+`)

// stackFrames reduces a goroutine stack to its function names and line
// numbers (argument values and pcs removed), for comparing two censuses.
func stackFrames(stack string) string {
	lines := strings.Split(stack, "\n")
	if len(lines) > 0 {
		lines = lines[1:] // header carries the state and the wait duration
	}
	return hexArgRe.ReplaceAllString(strings.Join(lines, "\n"), "")
}
