package sched

import (
	"reflect"

	"src.elv.sh/pkg/eval"
)

var errorType = reflect.TypeOf((*error)(nil)).Elem()

// Leaf is one elementary error inside a (possibly composite) exception.
type Leaf struct {
	Path string // position inside composite errors, e.g. "p1" = entry 1 of a pipeline error, "m2" = entry 2 of a multi-error
	Err  error  // the reason (never an Exception)
}

// Leaves flattens an error returned by Eval: exceptions are unwrapped to
// their reason; pipeline errors are expanded positionally (OK entries are
// skipped); the multi-error of errutil.Multi (an unexported []error type) is
// expanded through reflection.
func Leaves(err error) []Leaf {
	var out []Leaf
	var walk func(path string, e error, depth int)
	walk = func(path string, e error, depth int) {
		if e == nil || depth > 20 {
			return
		}
		if exc, ok := e.(eval.Exception); ok {
			r := exc.Reason()
			if r == nil { // eval.OK
				return
			}
			walk(path, r, depth+1)
			return
		}
		if pe, ok := e.(eval.PipelineError); ok {
			for i, x := range pe.Errors {
				if x == nil {
					continue
				}
				walk(path+"p"+itoa(i), x, depth+1)
			}
			return
		}
		rv := reflect.ValueOf(e)
		if rv.Kind() == reflect.Slice && rv.Type().Elem() == errorType {
			for i := 0; i < rv.Len(); i++ {
				x, _ := rv.Index(i).Interface().(error)
				walk(path+"m"+itoa(i), x, depth+1)
			}
			return
		}
		out = append(out, Leaf{path, e})
	}
	walk("", err, 0)
	return out
}

func itoa(i int) string {
	if i == 0 {
		return "0"
	}
	var b []byte
	for ; i > 0; i /= 10 {
		b = append([]byte{byte('0' + i%10)}, b...)
	}
	return string(b)
}

// FailContent returns the content of a `fail` error as a string.
func FailContent(e error) (string, bool) {
	if fe, ok := e.(eval.FailError); ok {
		return str(fe.Content), true
	}
	return "", false
}
