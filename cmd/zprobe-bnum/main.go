package main

import (
	"fmt"
	"os"

	"src.elv.sh/pkg/cli/clitest"
	"src.elv.sh/pkg/edit"
	"src.elv.sh/pkg/eval"
	"src.elv.sh/pkg/eval/vals"
	"verifharness/internal/elv"
)

func main() {
	ev := elv.New()
	tty, _ := clitest.NewFakeTTY()
	ed := edit.NewEditor(tty, ev, nil)
	ev.ExtendBuiltin(eval.BuildNs().AddNs("edit", ed))
	for _, code := range os.Args[1:] {
		r := elv.Eval(ev, code)
		fmt.Printf("%s\n  => %v bytes=%q err=%v\n", code, elv.Reprs(r.Values), r.Bytes, r.Err)
		for _, v := range r.Values {
			fmt.Printf("     %T hash=%#x\n", v, vals.Hash(v))
		}
	}
}
