package main

import (
	"verifharness/checks/c06"
	"verifharness/internal/mon"
)

func main() { mon.Main(c06.Spec()) }
