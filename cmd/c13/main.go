package main

import (
	"verifharness/checks/c13"
	"verifharness/internal/mon"
)

func main() { mon.Main(c13.Spec()) }
