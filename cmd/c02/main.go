package main

import (
	"verifharness/checks/c02"
	"verifharness/internal/mon"
)

func main() { mon.Main(c02.Spec()) }
