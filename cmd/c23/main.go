package main

import (
	"verifharness/checks/c23"
	"verifharness/internal/mon"
)

func main() { mon.Main(c23.Spec()) }
