package main

import (
	"verifharness/checks/c10"
	"verifharness/internal/mon"
)

func main() { mon.Main(c10.Spec()) }
