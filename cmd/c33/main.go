package main

import (
	"verifharness/checks/c33"
	"verifharness/internal/mon"
)

func main() { mon.Main(c33.Spec()) }
