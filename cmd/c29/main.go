package main

import (
	"verifharness/checks/c29"
	"verifharness/internal/mon"
)

func main() { mon.Main(c29.Spec()) }
