package main

import (
	"verifharness/checks/c17"
	"verifharness/internal/mon"
)

func main() { mon.Main(c17.Spec()) }
