package main

import (
	"verifharness/checks/c16"
	"verifharness/internal/mon"
)

func main() { mon.Main(c16.Spec()) }
