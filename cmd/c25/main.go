package main

import (
	"os"

	"verifharness/checks/c25"
	"verifharness/internal/mon"
)

func main() {
	// The crash child is this binary in a special mode (mon.Main owns the flags).
	if os.Getenv("C25_CHILD") != "" {
		c25.RunChild()
		return
	}
	mon.Main(c25.Spec())
}
