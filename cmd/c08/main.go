package main

import (
	"verifharness/checks/c08"
	"verifharness/internal/mon"
)

func main() { mon.Main(c08.Spec()) }
