package main

import (
	"verifharness/checks/c24"
	"verifharness/internal/mon"
)

func main() { mon.Main(c24.Spec()) }
