package main

import (
	"verifharness/checks/c05"
	"verifharness/internal/mon"
)

func main() { mon.Main(c05.Spec()) }
