package main

import (
	"verifharness/checks/c19"
	"verifharness/internal/mon"
)

func main() { mon.Main(c19.Spec()) }
