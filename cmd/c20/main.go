package main

import (
	"verifharness/checks/c20"
	"verifharness/internal/mon"
)

func main() { mon.Main(c20.Spec()) }
