package main

import (
	"verifharness/checks/c28"
	"verifharness/internal/mon"
)

func main() { mon.Main(c28.Spec()) }
