package main

import (
	"verifharness/checks/c30"
	"verifharness/internal/mon"
)

func main() { mon.Main(c30.Spec()) }
