package main

import (
	"verifharness/checks/c39"
	"verifharness/internal/mon"
)

func main() { mon.Main(c39.Spec()) }
