package main

import (
	"os"

	"verifharness/checks/c27"
	"verifharness/internal/mon"
)

func main() {
	// daemon.Activate re-executes os.Executable() with "-daemon -db <db> -sock <sock>":
	// this binary has to be the daemon program as well.
	for _, a := range os.Args[1:] {
		if a == "-daemon" {
			c27.DaemonMain(os.Args[1:])
			return
		}
	}
	// Shell mode: one "shell" process of a case (activation + store requests).
	if cfg := os.Getenv("C27_SHELL"); cfg != "" {
		c27.ShellMain(cfg)
		return
	}
	mon.Main(c27.Spec())
}
