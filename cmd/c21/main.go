package main

import (
	"verifharness/checks/c21"
	"verifharness/internal/mon"
)

func main() { mon.Main(c21.Spec()) }
