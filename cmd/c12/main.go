package main

import (
	"verifharness/checks/c12"
	"verifharness/internal/mon"
)

func main() { mon.Main(c12.Spec()) }
