package main

import (
	"verifharness/checks/c11"
	"verifharness/internal/mon"
)

func main() { mon.Main(c11.Spec()) }
