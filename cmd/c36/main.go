package main

import (
	"verifharness/checks/c36"
	"verifharness/internal/mon"
)

func main() { mon.Main(c36.Spec()) }
