package main

import (
	"verifharness/checks/c03"
	"verifharness/internal/mon"
)

func main() { mon.Main(c03.Spec()) }
