package main

import (
	"verifharness/checks/c14"
	"verifharness/internal/mon"
)

func main() { mon.Main(c14.Spec()) }
