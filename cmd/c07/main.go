package main

import (
	"verifharness/checks/c07"
	"verifharness/internal/mon"
)

func main() { mon.Main(c07.Spec()) }
