package main

import (
	"verifharness/checks/c38"
	"verifharness/internal/mon"
)

func main() { mon.Main(c38.Spec()) }
