package main

import (
	"verifharness/checks/c22"
	"verifharness/internal/mon"
)

func main() { mon.Main(c22.Spec()) }
