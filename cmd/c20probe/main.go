package main

import (
	"fmt"
	"os"
	"runtime"
	"time"

	"verifharness/internal/elv"
)

func main() {
	for _, code := range os.Args[1:] {
		done := make(chan elv.Result, 1)
		go func() { done <- elv.Eval(elv.New(), code) }()
		select {
		case r := <-done:
			fmt.Printf("%q => values=%d bytes=%d err=%v\n", code, len(r.Values), len(r.Bytes), r.Err)
		case <-time.After(5 * time.Second):
			fmt.Printf("%q => HUNG after 5s\n", code)
			buf := make([]byte, 1<<16)
			n := runtime.Stack(buf, true)
			os.Stdout.Write(buf[:n])
		}
	}
}
