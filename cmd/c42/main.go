package main

import (
	"verifharness/checks/c42"
	"verifharness/internal/mon"
)

func main() { mon.Main(c42.Spec()) }
