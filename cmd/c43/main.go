package main

import (
	"verifharness/checks/c43"
	"verifharness/internal/mon"
)

func main() { mon.Main(c43.Spec()) }
