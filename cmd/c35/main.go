package main

import (
	"verifharness/checks/c35"
	"verifharness/internal/mon"
)

func main() { mon.Main(c35.Spec()) }
