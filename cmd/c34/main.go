package main

import (
	"verifharness/checks/c34"
	"verifharness/internal/mon"
)

func main() { mon.Main(c34.Spec()) }
