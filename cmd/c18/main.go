package main

import (
	"verifharness/checks/c18"
	"verifharness/internal/mon"
)

func main() { mon.Main(c18.Spec()) }
