package main

import (
	"verifharness/checks/c04"
	"verifharness/internal/mon"
)

func main() { mon.Main(c04.Spec()) }
