package main

import (
	"verifharness/checks/c44"
	"verifharness/internal/mon"
)

func main() { mon.Main(c44.Spec()) }
