package main

import (
	"errors"
	"fmt"
	"os"

	"src.elv.sh/pkg/diag"
	"src.elv.sh/pkg/eval"
	"src.elv.sh/pkg/parse"
	"verifharness/internal/elv"
)

func show(c *diag.Context, src string) {
	fmt.Printf("   name=%q range=%d-%d %q  start=%d:%d end=%d:%d head=%q body=%q tail=%q\n", c.Name, c.From, c.To, src[c.From:c.To], c.StartLine, c.StartCol, c.EndLine, c.EndCol, c.Head, c.Body, c.Tail)
}

func main() {
	ev := elv.New()
	for _, src := range os.Args[1:] {
		fmt.Printf("SRC %q\n", src)
		r := elv.Eval(ev, src)
		if r.Err == nil {
			fmt.Println("  ok")
			continue
		}
		for _, e := range parse.UnpackErrors(r.Err) {
			fmt.Printf("  parse error %q partial=%v\n", e.Message, e.Partial)
			show(&e.Context, src)
		}
		for _, e := range eval.UnpackCompilationErrors(r.Err) {
			fmt.Printf("  compile error %q partial=%v\n", e.Message, e.Partial)
			show(&e.Context, src)
		}
		var exc eval.Exception
		if errors.As(r.Err, &exc) {
			fmt.Printf("  exception %q\n", exc.Reason().Error())
			for st := exc.StackTrace(); st != nil; st = st.Next {
				if st.Head.Name == "[verif]" {
					show(st.Head, src)
				} else {
					fmt.Printf("   other %+v\n", *st.Head)
				}
			}
		}
	}
}
