package main

import (
	"verifharness/checks/c09"
	"verifharness/internal/mon"
)

func main() { mon.Main(c09.Spec()) }
