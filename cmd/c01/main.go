package main

import (
	"verifharness/checks/c01"
	"verifharness/internal/mon"
)

func main() { mon.Main(c01.Spec()) }
