package main

import (
	"verifharness/checks/c26"
	"verifharness/internal/mon"
)

func main() { mon.Main(c26.Spec()) }
