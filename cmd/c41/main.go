package main

import (
	"verifharness/checks/c41"
	"verifharness/internal/mon"
)

func main() { mon.Main(c41.Spec()) }
