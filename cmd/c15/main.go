package main

import (
	"verifharness/checks/c15"
	"verifharness/internal/mon"
)

func main() { mon.Main(c15.Spec()) }
