package main

import (
	"verifharness/checks/c31"
	"verifharness/internal/mon"
)

func main() { mon.Main(c31.Spec()) }
