package main

import (
	"verifharness/checks/c32"
	"verifharness/internal/mon"
)

func main() { mon.Main(c32.Spec()) }
