package main

import (
	"verifharness/checks/c37"
	"verifharness/internal/mon"
)

func main() { mon.Main(c37.Spec()) }
