package main

import (
	"verifharness/checks/c40"
	"verifharness/internal/mon"
)

func main() { mon.Main(c40.Spec()) }
