module verifharness

go 1.22

require (
	github.com/anishathalye/porcupine v1.3.0
	github.com/sourcegraph/jsonrpc2 v0.2.0
	github.com/yuin/goldmark v1.4.13
	go.etcd.io/bbolt v1.3.10
	pkg.nimblebun.works/go-lsp v1.1.0
	src.elv.sh v0.0.0
)

require (
	github.com/mattn/go-isatty v0.0.20 // indirect
	golang.org/x/sync v0.8.0 // indirect
	golang.org/x/sys v0.24.0 // indirect
)

replace src.elv.sh => /tmp/vseed-C26c-4229
